"""pyvc.canary — soundness canaries: FALSE lemmas that go through the same induction scheme, serialisation and solvers as
the real ones on every T1 run.  If one of them is ever reported proved, the engine (not /repo) is broken: the run is a
checker crash, never a verdict.  (The first canary is the shape that exposed an induction hypothesis wrongly quantified
over a parameter of the base expression; see DESIGN §7.)"""
from pyvc import dsl, driver, solve
from pyvc.types import Int, Arr


def _registry():
    reg = dsl.Registry()
    reg.spec("def CSUM(a, n):\n    return 0 if n <= 0 else CSUM(a, n - 1) + a[n - 1]", dict(a=Arr(Int), n=Int), Int)
    # false for c0 < 0 (CSUM is 0 below 0): provable only with an induction hypothesis quantified over c0 as well
    reg.lemma("canary_param_base", dict(a=Arr(Int), c0=Int, c=Int, g=Int), "CSUM(a, c) == CSUM(a, c0) + (c - c0) * g",
              props=[], induction="c", base="c0", requires={"same": "forall(lambda j: a[j] == g, c0, c)"})
    # false at the base
    reg.lemma("canary_false_base", dict(a=Arr(Int), n=Int), "CSUM(a, n) >= 1", props=[], induction="n", base="0")
    # false step (true at 0): the sum of non-negative entries is not bounded by 0
    reg.lemma("canary_false_step", dict(a=Arr(Int), n=Int), "CSUM(a, n) <= 0", props=[], induction="n", base="0",
              requires={"pos": "forall(lambda j: a[j] >= 0, 0, n)"})
    return reg


def wrongly_proved(timeout_ms=2500):
    """names of canaries ALL of whose obligations came back unsat (i.e. the false lemma counts as proved)"""
    reg = _registry()
    bad = []
    jobs, owners = [], []
    for lm in reg.lemmas.values():
        eng, vcs = driver.lemma_vcs(reg, lm)
        for vc in vcs:
            hyps = list(vc.hyps)
            hyps += solve.spec_closure(eng, reg.specs, hyps + [vc.goal])
            jobs.append((solve.to_smt2(hyps, vc.goal), timeout_ms, None, 0))
            owners.append(lm.name)
    res = solve.discharge(jobs, procs=min(8, len(jobs)))
    for name in reg.lemmas:
        rs = [r["result"] for r, o in zip(res, owners) if o == name]
        if rs and all(r == "unsat" for r in rs):
            bad.append(name)
    return bad, len(jobs)

"""pyvc.canary — soundness canaries: FALSE lemmas that go through the same induction scheme, serialisation and solvers as
the real ones on every T1 run.  If one of them is ever reported proved, the engine (not /repo) is broken: the run is a
checker crash, never a verdict.  (The first canary is the shape that exposed an induction hypothesis wrongly quantified
over a parameter of the base expression; see DESIGN §7.)"""
import os

from pyvc import dsl, driver, solve
from pyvc.types import Int, Arr, Float, Bool, List


def _registry():
    reg = dsl.Registry()
    reg.spec("def CSUM(a, n):\n    return 0 if n <= 0 else CSUM(a, n - 1) + a[n - 1]", dict(a=Arr(Int), n=Int), Int)
    # false for c0 < 0 (CSUM is 0 below 0): provable only with an induction hypothesis quantified over c0 as well
    reg.lemma("canary_param_base", dict(a=Arr(Int), c0=Int, c=Int, g=Int), "CSUM(a, c) == CSUM(a, c0) + (c - c0) * g",
              props=[], induction="c", base="c0", requires={"same": "forall(lambda j: a[j] == g, c0, c)"})
    # false at the base
    reg.lemma("canary_false_base", dict(a=Arr(Int), n=Int), "CSUM(a, n) >= 1", props=[], induction="n", base="0")
    # false step (true at 0): the sum of non-negative entries is not bounded by 0
    reg.lemma("canary_false_step", dict(a=Arr(Int), n=Int), "CSUM(a, n) <= 0", props=[], induction="n", base="0",
              requires={"pos": "forall(lambda j: a[j] >= 0, 0, n)"})
    return reg


def wrongly_proved(timeout_ms=2500):
    """names of canaries ALL of whose obligations came back unsat (i.e. the false lemma counts as proved)"""
    reg = _registry()
    bad = []
    jobs, owners = [], []
    for lm in reg.lemmas.values():
        eng, vcs = driver.lemma_vcs(reg, lm)
        for vc in vcs:
            hyps = list(vc.hyps)
            hyps += solve.spec_closure(eng, reg.specs, hyps + [vc.goal])
            jobs.append((solve.to_smt2(hyps, vc.goal), timeout_ms, None, 0))
            owners.append(lm.name)
    res = solve.discharge(jobs, procs=min(8, len(jobs)))
    for name in reg.lemmas:
        rs = [r["result"] for r, o in zip(res, owners) if o == name]
        if rs and all(r == "unsat" for r in rs):
            bad.append(name)
    return bad, len(jobs)


# ---- function-level canaries: false clauses on tiny functions (pyvc/canary_src.py) ---------------------------------
SRC = "pyvc/canary_src.py::"
INV_I = {"i": "0 <= i"}


def _fn_registry():
    reg = dsl.Registry()
    # a write through an alias of a parameter inside a loop must be seen (havoc + store): a[0] is NOT preserved
    reg.contract(SRC + "c_alias", props=[], params=dict(a=Arr(Int), n=Int), requires={"n": "n >= 1 and len(a) >= n"},
                 modifies=["a"], returns=Int, ensures={"FALSE": "result == old(a)[0]"},
                 loops={1: dict(inv={"i": "0 <= i and i <= n"})})
    # a variable assigned on one path of a loop body is havocked at the head
    reg.contract(SRC + "c_havoc", props=[], params=dict(n=Int), returns=Int, ensures={"FALSE": "result == 0"},
                 loops={1: dict(inv={"t": "True"})})
    # the break path leaves the loop without the exit condition
    reg.contract(SRC + "c_break", props=[], params=dict(a=Arr(Int), n=Int), requires={"n": "n >= 0 and len(a) >= n"},
                 returns=Int, ensures={"FALSE": "result == n"}, loops={1: dict(inv={"k": "k == i"})})
    # conditional append: the length is not the number of items scanned
    reg.contract(SRC + "c_append", props=[], params=dict(xs=List(Int)), returns=Int,
                 ensures={"FALSE": "result == len(xs)"}, loops={1: dict(inv={"le": "len(lst) <= idx_x"})})
    # safety obligations must not be discharged without a precondition
    reg.contract(SRC + "c_div", props=[], params=dict(a=Int, b=Int), returns=Int, ensures={"t": "True"})
    reg.contract(SRC + "c_key", props=[], params=dict(k=Int), returns=Int, ensures={"t": "True"})
    # NaN is not equal to itself
    reg.contract(SRC + "c_nan", props=[], params=dict(x=Float), returns=Bool, ensures={"FALSE": "result"})
    # a callee's modifies clause havocs the caller's array; its precondition is an obligation at the call
    reg.contract(SRC + "c_helper", props=[], params=dict(v=Arr(Int), i=Int), requires={"i": "0 <= i and i < len(v)"},
                 modifies=["v"], ensures={"z": "v[i] == 0"})
    reg.contract(SRC + "c_call", props=[], params=dict(v=Arr(Int), n=Int), requires={"n": "len(v) >= 1"},
                 modifies=["v"], returns=Int, ensures={"FALSE": "result == old(v)[0]"})
    # a write through a row view of a matrix
    reg.contract(SRC + "c_view", props=[], params=dict(m=Arr(Int, 2), i=Int),
                 requires={"i": "0 <= i and i < len(m) and len(m[0]) >= 1"}, modifies=["m"], returns=Int,
                 ensures={"FALSE": "result == old(m)[0][0]"})
    return reg


# obligation-name fragments that must NOT come back unsat, per canary function
EXPECT_OPEN = {
    "c_alias": ["ensures.FALSE"], "c_havoc": ["ensures.FALSE"], "c_break": ["ensures.FALSE"],
    "c_append": ["ensures.FALSE"], "c_div": ["safety"], "c_key": ["safety.key"], "c_nan": ["ensures.FALSE"],
    "c_call": ["ensures.FALSE", "pre."], "c_view": ["ensures.FALSE"],
}


def functions_wrongly_proved(timeout_ms=2500):
    """(list of 'function: clause' whose deliberately false / unprovable obligation was discharged, number of obligations)"""
    reg = _fn_registry()
    root = os.path.dirname(os.path.dirname(os.path.abspath(__file__)))
    jobs, owners = [], []
    problems = []
    for c in reg.by_key.values():
        short = c.key.split("::")[-1]
        if short not in EXPECT_OPEN:
            continue
        try:
            eng, vcs, _sha = driver.gen_function_vcs(reg, c, root=root)
        except Exception as e:      # a canary the engine no longer accepts: report, do not guess
            problems.append("%s: canary not executable (%s: %s)" % (short, type(e).__name__, str(e)[:120]))
            continue
        seen = {frag: False for frag in EXPECT_OPEN[short]}
        for vc in vcs:
            for frag in EXPECT_OPEN[short]:
                if frag in vc.name:
                    seen[frag] = True
                    if getattr(vc, "trivial", False):       # discharged by the simplifier alone
                        problems.append("%s: %s discharged by the simplifier" % (short, vc.name))
                        continue
                    hyps = list(vc.hyps) + [h for h in eng.scope_constraints]
                    hyps += solve.spec_closure(eng, reg.specs, hyps + [vc.goal])
                    jobs.append((solve.to_smt2(hyps, vc.goal), timeout_ms, None, 0))
                    owners.append((short, frag, vc.name))
        for frag, ok in seen.items():
            if not ok:
                problems.append("%s: expected obligation %s was not generated" % (short, frag))
    res = solve.discharge(jobs, procs=min(8, max(1, len(jobs))))
    # an obligation is split per path: the false clause must stay open on at least one path
    by = {}
    for (short, frag, _n), r in zip(owners, res):
        by.setdefault((short, frag), []).append(r["result"])
    for (short, frag), rs in by.items():
        if all(r == "unsat" for r in rs):
            problems.append("%s: %s PROVED" % (short, frag))
    return problems, len(jobs)

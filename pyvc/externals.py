"""pyvc.externals — assumed contracts of library functions the verified code calls (trusted base, DESIGN §2.4)."""
import ast

import z3

from pyvc import sx
from pyvc.sx import Unsupported, Ref, PyObj, to_z3, I, R

USED = set()        # names of external contracts actually relied upon in this run (reported as trusted base)


def _dtype(eng, st, node, default="real"):
    for kw in node.keywords:
        if kw.arg == "dtype":
            n = kw.value
            name = n.id if isinstance(n, ast.Name) else (n.attr if isinstance(n, ast.Attribute) else None)
            canon = eng.imports.get(name, name) if name else None
            if canon in ("int", "numpy.int32", "numpy.int64", "int32", "int64", "np.int32"):
                return "int"
            if canon in ("float", "numpy.float64", "float64"):
                return "real"
            raise Unsupported("dtype %s" % canon)
    return default


def const_array(elem, dims, value):
    t = to_z3(value)
    if elem == "real" and z3.is_int(t):
        t = z3.ToReal(t)
    for _ in dims:
        t = z3.K(I, t)
    return t


def call(eng, st, canon, node, guard):
    if canon == "isinstance":
        args = [eng.ev(node.args[0], st, guard)]
    else:
        args = [eng.ev(a, st, guard) for a in node.args]
    if canon == "len":
        USED.add("len")
        a = args[0]
        if sx.is_str(a):
            n = sx.STRLEN(a)
            st.pc.append(n >= 0)
            return n
        if isinstance(a, Ref) and eng.is_set(st, a):
            USED.add("len(set) = cardinality (uninterpreted, >= 0)")
            sarr = eng.sel(st, a)
            cnt = sx.CARD(sarr)
            x_, y_ = z3.Int("ca!%d" % next(sx._fresh)), z3.Int("cb!%d" % next(sx._fresh))
            st.pc.append(cnt >= 0)
            # facts about cardinality that the verified code relies on (trusted): fewer than 2 members => no two distinct
            st.pc.append(z3.Implies(cnt < 2, z3.ForAll([x_, y_], z3.Implies(z3.And(z3.Select(sarr, x_), z3.Select(sarr, y_)),
                                                                            x_ == y_))))
            return cnt
        if isinstance(a, Ref):
            return eng.ref_len(st, a)
        if isinstance(a, tuple):
            return len(a)
        if isinstance(a, sx.Vec):
            return a.length
        raise Unsupported("len of %r" % (a,))
    if canon == "set" and not args:
        return PyObj("opaqueset", None)
    if canon in ("min", "max") and len(args) == 2:
        a, b = to_z3(args[0]), to_z3(args[1])
        if z3.is_int(a) and z3.is_real(b):
            a = z3.ToReal(a)
        if z3.is_int(b) and z3.is_real(a):
            b = z3.ToReal(b)
        return z3.If(a <= b, a, b) if canon == "min" else z3.If(a >= b, a, b)
    if canon == "abs":
        a = to_z3(args[0])
        return z3.If(a >= 0, a, -a)
    if canon == "int":
        a = args[0]
        if isinstance(a, int) or (sx.is_z3(a) and z3.is_int(a)):
            return a
        raise Unsupported("int() of a non-integer")
    if canon.endswith("Element") and len(args) == 1 and not isinstance(args[0], (Ref, tuple, PyObj)):
        USED.add("Element(x) preserves identity and equality of element ids (A-elem)")
        return args[0]
    if canon == "float":
        if isinstance(args[0], PyObj) and args[0].kind == "str" and args[0].val.lower() == "nan":
            return sx.FL.nan
        if isinstance(args[0], PyObj) and args[0].kind == "str" and args[0].val.lower() in ("inf", "+inf", "infinity"):
            USED.add("float('inf') is only compared (modelled as a real above every finite float; arithmetic on it is refused)")
            return sx.PY_INF
        if sx.is_fl(args[0]):
            return args[0]
        a = to_z3(args[0])
        return z3.ToReal(a) if z3.is_int(a) else a
    if canon == "str" and len(args) == 1 and not isinstance(args[0], (Ref, tuple)):
        USED.add("str(x): an opaque string")
        return sx.fresh("str", sx.STR)
    if canon in ("isnan", "math.isnan"):
        a = args[0]
        if sx.is_fl(a):
            return sx.FL.is_nan(a)
        if isinstance(a, PyObj) and a.kind == "float":
            return a.val != a.val
        return False
    if canon == "isinstance":
        USED.add("isinstance on values of the declared parameter types (A-typed)")
        v = args[0]
        tname = node.args[1].id if isinstance(node.args[1], ast.Name) else None
        if tname == "list":
            return isinstance(v, (Ref, tuple))
        if tname == "float":
            return sx.is_fl(v) or isinstance(v, sx.Fraction) or (sx.is_z3(v) and z3.is_real(v))
        if tname == "int":
            return isinstance(v, int) and not isinstance(v, bool) or (sx.is_z3(v) and z3.is_int(v))
        raise Unsupported("isinstance(_, %s)" % tname)
    if canon in ("numpy.zeros", "numpy.ones", "numpy.full"):
        USED.add(canon)
        shp = args[0]
        dims = list(shp) if isinstance(shp, tuple) else [shp]
        elem = _dtype(eng, st, node, "real")
        val = 0 if canon == "numpy.zeros" else 1 if canon == "numpy.ones" else args[1]
        for d in dims:
            eng.emit("safety.alloc@L%s" % node.lineno, "safety", st, to_z3(d) >= 0, node.lineno, guard,
                     note="non-negative array size")
        return eng.new_array(st, "new", elem, len(dims), shape=[to_z3(d) for d in dims],
                             arr=const_array(elem, dims, val))
    if canon in ("numpy.max", "numpy.amax", "numpy.amin", "numpy.min"):
        USED.add(canon)
        a = args[0]
        if not isinstance(a, Ref) or eng.ref_ndim(st, a) != 1:
            raise Unsupported("max of non-1D")
        n = eng.ref_len(st, a)
        eng.emit("safety.nonempty@L%s" % node.lineno, "safety", st, n > 0, node.lineno, guard, note="max of empty array")
        ho = st.heap[a.base]
        m = sx.fresh("extremum", sx.zsort(ho.elem))
        k = sx.fresh("argext", I)
        j = z3.Int("j!%d" % next(sx._fresh))
        arr = eng.sel(st, a)
        if canon in ("numpy.max", "numpy.amax"):
            st.pc.append(z3.ForAll([j], z3.Implies(z3.And(0 <= j, j < n), z3.Select(arr, j) <= m)))
        else:
            st.pc.append(z3.ForAll([j], z3.Implies(z3.And(0 <= j, j < n), z3.Select(arr, j) >= m)))
        st.pc.append(z3.And(0 <= k, k < n, z3.Select(arr, k) == m))
        return m
    if canon in ("numpy.count_nonzero", "numpy.sum") and eng.as_vec(st, args[0]) is not None \
            and not isinstance(args[0], Ref):
        canon = "numpy.count_nonzero"       # the sum of a boolean vector is its number of true entries
    if canon == "numpy.count_nonzero":
        USED.add("numpy.count_nonzero = number of true entries")
        v = eng.as_vec(st, args[0])
        if v is None:
            raise Unsupported("count_nonzero of a non-vector")
        k = eng.cnz_seen = getattr(eng, "cnz_seen", 0) + 1
        if k > len(eng.contract.vec_counts):
            raise sx.ContractError("count_nonzero #%d has no spec in the sidecar (vec_counts)" % k)
        sname, arg_srcs = eng.contract.vec_counts[k - 1]
        spec = eng.specs[sname]
        sargs = [eng.evc(a, st, guard) for a in arg_srcs]
        fn = eng.fn_key.split("::")[-1]
        j = sx.fresh("cnzj", I)
        at_j = spec.apply(eng, st, sargs + [j])
        at_j1 = spec.apply(eng, st, sargs + [j + 1])
        at_0 = spec.apply(eng, st, sargs + [0])
        # the sidecar's counting spec must be, pointwise, the vector expression that the code counts
        eng.emit("%s.count_nonzero%d.is_%s.zero" % (fn, k, sname), "assert", st, at_0 == 0, node.lineno, guard)
        eng.emit("%s.count_nonzero%d.is_%s.step" % (fn, k, sname), "assert", st,
                 z3.Implies(z3.And(j >= 0, j < v.length), at_j1 == at_j + z3.If(sx.to_bool(v.at(j)), 1, 0)), node.lineno, guard,
                 note="pointwise: %s counts exactly the entries the code counts" % sname)
        return spec.apply(eng, st, sargs + [v.length])
    if canon == "numpy.vdot":
        USED.add("numpy.vdot = sum of products (unrolled for a literal length)")
        a, b = args
        if isinstance(b, tuple) and isinstance(a, Ref):
            n = len(b)
            eng.emit("%s.safety.vdot_len@L%s" % (eng.fn_key.split("::")[-1], node.lineno - eng.fndef.lineno), "safety", st,
                     eng.ref_len(st, a) == n, node.lineno, guard, note="vdot operands of equal length")
            tot = 0
            for k in range(n):
                tot = eng.arith(ast.Add(), tot, eng.arith(ast.Mult(), eng.sel(st, a, [k]), b[k], st, node.lineno, guard),
                                st, node.lineno, guard)
            return tot
        raise Unsupported("vdot of these operands")
    raise Unsupported("call to %s at line %s (no contract, no external model)" % (canon, node.lineno))


def method(eng, st, recv, meth, node, guard):
    args = [eng.ev(a, st, guard) for a in node.args]
    if sx.is_str(recv):
        USED.add("str.%s" % meth)
        if meth in ("strip", "replace", "lower", "upper", "lstrip", "rstrip"):
            return sx.fresh("str", sx.STR)
        if meth == "split":
            return PyObj("strlist", None)
        if meth in ("endswith", "startswith", "isdigit"):
            return sx.fresh("strpred", sx.B)
        if meth in ("find", "rfind"):
            # integer contract: -1, or an index within [start, end) (defaults 0, len); arguments must be non-negative
            n = sx.STRLEN(recv)
            st.pc.append(n >= 0)
            lo = to_z3(args[1]) if len(args) > 1 else z3.IntVal(0)
            hi = to_z3(args[2]) if len(args) > 2 else n
            fn = eng.fn_key.split("::")[-1]
            if len(args) > 1:
                eng.emit("%s.safety.find_args@+%s" % (fn, node.lineno - eng.fndef.lineno), "safety", st,
                         z3.And(lo >= 0, hi >= 0), node.lineno, guard, note="find/rfind bounds are non-negative (no wrap-around)")
            r = sx.fresh(meth, I)
            st.pc.append(z3.Or(r == -1, z3.And(lo <= r, r < hi, r < n)))
            if len(args) == 1 and isinstance(args[0], PyObj) and args[0].kind == "str":
                # full-range searches of the same character in the same string: find <= rfind, found together
                key = (recv.get_id(), args[0].val)
                memo = eng.__dict__.setdefault("find_memo", {})
                other = memo.get(key, {}).get("rfind" if meth == "find" else "find")
                memo.setdefault(key, {})[meth] = r
                if other is not None:
                    f_, rf_ = (r, other) if meth == "find" else (other, r)
                    st.pc.append(z3.And((f_ == -1) == (rf_ == -1), z3.Implies(f_ != -1, f_ <= rf_)))
            return r
        raise Unsupported("string method %s" % meth)
    if isinstance(recv, PyObj) and recv.kind in ("opaqueset", "opaquelist") and meth in ("add", "append"):
        return PyObj("none")
    if meth == "append" and isinstance(recv, Ref) and st.heap[recv.base].kind == "list" and not recv.prefix:
        USED.add("list.append")
        ho = st.heap[recv.base]
        v = args[0]
        if isinstance(v, (Ref, tuple, PyObj)):
            if ho.elem is None and ho.arr is None:      # items not modelled (objects): the list only has a length
                st.heap[recv.base] = ho.replace(shape=(ho.shape[0] + 1,))
                return PyObj("none")
            raise Unsupported("append of a non-scalar")
        if ho.elem is None:
            kind = "float" if sx.is_fl(v) else ("real" if sx.is_real(v) else ("bool" if isinstance(v, bool) or (sx.is_z3(v) and z3.is_bool(v)) else "int"))
            ho = ho.replace(elem=kind, arr=sx.fresh(recv.base, sx.arr_sort(kind, 1)))
        n = ho.shape[0]
        st.heap[recv.base] = ho.replace(arr=z3.Store(ho.arr, n, sx.coerce(v, ho.elem)), shape=(n + 1,))
        return PyObj("none")
    if meth == "extend" and isinstance(recv, Ref) and st.heap[recv.base].kind == "list" and not recv.prefix \
            and len(args) == 1 and isinstance(args[0], PyObj) and args[0].kind == "opaque":
        ho = st.heap[recv.base]
        if ho.elem is None and ho.arr is None:      # items not modelled: the list grows by an unknown amount
            USED.add("list.extend by an unmodelled iterable: the length does not decrease")
            n_ = sx.fresh(recv.base + ".len'ext", I)
            st.pc.append(n_ >= ho.shape[0])
            st.heap[recv.base] = ho.replace(shape=(n_,))
            return PyObj("none")
        raise Unsupported("extend of a modelled list by an unmodelled iterable")
    if meth == "clear" and isinstance(recv, Ref) and st.heap[recv.base].kind == "list" and not recv.prefix and not args:
        USED.add("list.clear")
        ho = st.heap[recv.base]
        st.heap[recv.base] = ho.replace(shape=(z3.IntVal(0),))
        return PyObj("none")
    if meth == "add" and isinstance(recv, Ref) and eng.is_set(st, recv):
        USED.add("set.add")
        ho = st.heap[recv.base]
        x = to_z3(args[0])
        if recv.prefix:
            i = recv.prefix[0]
            st.heap[recv.base] = ho.replace(arr=z3.Store(ho.arr, i, z3.Store(z3.Select(ho.arr, i), x, z3.BoolVal(True))))
        else:
            st.heap[recv.base] = ho.replace(arr=z3.Store(ho.arr, x, z3.BoolVal(True)))
        return PyObj("none")
    if meth == "pop" and isinstance(recv, Ref) and st.heap[recv.base].kind in ("setlist", "list") and not recv.prefix \
            and len(args) == 1:
        USED.add("list.pop(i)")
        ho = st.heap[recv.base]
        i = to_z3(args[0])
        n = ho.shape[0]
        eng.emit("%s.safety.pop@L%s" % (eng.fn_key.split("::")[-1], node.lineno - eng.fndef.lineno), "safety", st,
                 z3.And(0 <= i, i < n), node.lineno, guard, note="pop index in range")
        new = sx.fresh(recv.base + "'pop", ho.arr.sort())
        j = z3.Int("pj!%d" % next(sx._fresh))
        st.pc.append(z3.ForAll([j], z3.Select(new, j) == z3.If(j < i, z3.Select(ho.arr, j), z3.Select(ho.arr, j + 1)),
                               patterns=[z3.Select(new, j)]))
        st.heap[recv.base] = ho.replace(arr=new, shape=(n - 1,) + tuple(ho.shape[1:]))
        return PyObj("none")
    if meth == "fill" and isinstance(recv, Ref):
        USED.add("ndarray.fill")
        ho = st.heap[recv.base]
        if recv.prefix:
            raise Unsupported("fill on a view")
        dims = list(ho.shape)
        st.heap[recv.base] = ho.replace(arr=const_array(ho.elem, dims, args[0]))
        return PyObj("none")
    raise Unsupported("method %s at line %s" % (meth, node.lineno))

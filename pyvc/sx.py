"""pyvc.sx — verification-condition generation by symbolic execution of the REAL function source.

The function's FunctionDef is taken from the file in /repo on every run (see extract.py).  Statements are executed
symbolically, path by path (one set of VCs per path).  Loops are cut by the inductive invariants of the sidecar contract
(or unrolled when the trip count is a literal), calls to functions under contract are replaced by the callee's contract
(modular verification), safety obligations (subscripts in range, division by non-zero, call arity) are emitted along the
way.  All integers are mathematical, all floats are reals (assumptions A-int / A-float).
"""
import ast
import itertools
from fractions import Fraction

import z3

I, R, B = z3.IntSort(), z3.RealSort(), z3.BoolSort()


class Unsupported(Exception):
    """construct outside the modelled subset -> the obligation is UNDECIDED (never a violation)"""


class ContractError(Exception):
    """the sidecar contract does not fit the code (unbound name, bad type) -> UNDECIDED"""


# ---------------------------------------------------------------------------------------------------------------------
from pyvc.types import Ty, Int, Real, Bool, Arr, List, Float  # noqa: E402,F401


_fd = z3.Datatype("PyFloat")
_fd.declare("nan")
_fd.declare("fin", ("val", R))
FL = _fd.create()       # Python float with NaN: nan | fin(real)


PY_INF = z3.Real("py_inf")      # float('inf') where it is only compared: a real above every finite value met


def zsort(kind):
    return {"int": I, "real": R, "bool": B, "float": FL}[kind]


STR = z3.DeclareSort("PyStr")
STRLEN = z3.Function("strlen", STR, I)


def is_str(v):
    return is_z3(v) and v.sort() == STR


CARD = z3.Function("card", z3.ArraySort(I, B), I)     # cardinality of a finite set (len of a Python set): trusted


def is_fl(v):
    return is_z3(v) and v.sort() == FL


def lift_fl(v):
    if is_fl(v):
        return v
    if isinstance(v, PyObj) and v.kind == "float" and v.val != v.val:
        return FL.nan
    t = to_z3(v)
    if z3.is_int(t):
        t = z3.ToReal(t)
    return FL.fin(t)


def arr_sort(kind, ndim):
    s = zsort(kind)
    for _ in range(ndim):
        s = z3.ArraySort(I, s)
    return s


# ---------------------------------------------------------------------------------------------------------------------
class HeapObj:
    __slots__ = ("arr", "shape", "elem", "ndim", "kind", "dom")

    def __init__(self, arr, shape, elem, ndim, kind="arr", dom=None):
        self.arr, self.shape, self.elem, self.ndim, self.kind = arr, tuple(shape), elem, ndim, kind
        self.dom = dom      # dicts: key-membership array (arr holds the values)

    def replace(self, **kw):
        o = HeapObj(self.arr, self.shape, self.elem, self.ndim, self.kind, self.dom)
        for k, v in kw.items():
            setattr(o, k, v)
        return o


class Ref:
    """reference to a heap array (or to a sub-array view of it: prefix = indices already applied)"""
    __slots__ = ("base", "prefix")

    def __init__(self, base, prefix=()):
        self.base, self.prefix = base, tuple(prefix)

    def __repr__(self):
        return "Ref(%s%s)" % (self.base, "".join("[%s]" % p for p in self.prefix))


class PyObj:
    """opaque marker values (None, strings, functions)"""

    def __init__(self, kind, val=None):
        self.kind, self.val = kind, val


class Vec:
    """a numpy elementwise expression over 1-D arrays: length + (index term -> element term)"""

    def __init__(self, length, at):
        self.length, self.at = length, at


class State:
    def __init__(self, env=None, heap=None, pc=None, old=None, facts=None):
        self.env = env if env is not None else {}
        self.heap = heap if heap is not None else {}
        self.pc = pc if pc is not None else []
        self.old = old              # State at function entry (for old())
        self.facts = facts if facts is not None else []     # instantiation hints (ground terms)

    def fork(self, extra=None):
        s = State(dict(self.env), dict(self.heap), list(self.pc), self.old, list(self.facts))
        if extra is not None:
            s.pc.append(extra)
        return s


class VC:
    def __init__(self, name, kind, hyps, goal, fn, line=None, note=""):
        self.name, self.kind, self.hyps, self.goal, self.fn, self.line, self.note = name, kind, hyps, goal, fn, line, note
        self.inputs = None      # filled by the driver: named input constants for model read-back


class _Counter:
    """fresh-name counter; reset at the start of every function / lemma so that the SMT text of an obligation does not
    depend on what was generated before it (same text => same solver behaviour in every property's run)"""

    def __init__(self):
        self.n = 0

    def __next__(self):
        self.n += 1
        return self.n

    def reset(self):
        self.n = 0


_fresh = _Counter()


def fresh(prefix, sort):
    return z3.Const("%s!%d" % (prefix, next(_fresh)), sort)


def is_z3(v):
    return isinstance(v, z3.ExprRef)


def to_z3(v):
    if is_z3(v):
        return v
    if isinstance(v, bool):
        return z3.BoolVal(v)
    if isinstance(v, int):
        return z3.IntVal(v)
    if isinstance(v, float):
        return z3.RealVal(str(Fraction(repr(v)))) if v == v and abs(v) != float("inf") else _bad("non-finite float")
    if isinstance(v, Fraction):
        return z3.RealVal(str(v))
    raise Unsupported("cannot convert %r to a term" % (v,))


def _bad(msg):
    raise Unsupported(msg)


def to_bool(v):
    if isinstance(v, bool):
        return z3.BoolVal(v)
    if is_z3(v):
        if z3.is_bool(v):
            return v
        if z3.is_int(v) or z3.is_real(v):
            return v != 0
    if isinstance(v, (int, float)):
        return z3.BoolVal(bool(v))
    raise Unsupported("truthiness of %r" % (v,))


def is_real(v):
    return isinstance(v, (float, Fraction)) or (is_z3(v) and z3.is_real(v))


def coerce(v, kind):
    """coerce a scalar value to the sort of an array element / variable"""
    if kind == "float":
        return lift_fl(v)
    t = to_z3(v)
    if kind == "real" and z3.is_int(t):
        return z3.ToReal(t)
    if kind == "int" and z3.is_real(t):
        raise Unsupported("real stored into int array")
    if kind == "int" and z3.is_bool(t):
        return z3.If(t, 1, 0)
    return t


def simp_bool(c):
    c = z3.simplify(c)
    if z3.is_true(c):
        return True
    if z3.is_false(c):
        return False
    return None


# ---------------------------------------------------------------------------------------------------------------------
class Engine:
    """one Engine per function under verification"""

    def __init__(self, fn_key, fndef, module_imports, contract, registry, specs, concrete=False, small_scope=None):
        self.small_scope = small_scope      # K: refutation mode, bounded quantifiers are expanded over [-1, K]
        self.scope_constraints = []
        self.fn_key, self.fndef, self.imports = fn_key, fndef, module_imports
        self.contract, self.registry, self.specs = contract, registry, specs
        self.vcs = []
        self.concrete = concrete        # concrete mode: loops are executed, no VCs (CPython cross-check)
        self.loop_ord = {}
        k = 0
        for node in self._preorder(fndef):
            if isinstance(node, (ast.While, ast.For)):
                k += 1
                self.loop_ord[id(node)] = k
        self.spec_apps_decls = {}
        self.npaths = 0
        self.alias = {}     # view variable -> root array variable (x = y[...]), whole function, transitive
        for node in ast.walk(fndef):
            if isinstance(node, ast.Assign) and len(node.targets) == 1 and isinstance(node.targets[0], ast.Name) \
                    and isinstance(node.value, ast.Subscript):
                root = node.value.value
                while isinstance(root, ast.Subscript):
                    root = root.value
                if isinstance(root, ast.Name):
                    self.alias[node.targets[0].id] = root.id
        self.cur_src = "?"
        self.lemmas_used = set()
        self.ufs = {}       # uninterpreted functions standing for the opaque calls of the contract
        for d in (getattr(contract, "opaque_calls", None) or {}).values():
            if "fn" in d:
                if d["fn"] not in self.ufs:
                    doms = [zsort(k_) for k_ in d.get("arg_kinds", ["int"] * len(d["args"]))]
                    if d.get("with_recv"):
                        doms = [I] + doms
                    rng_ = zsort(d.get("ret", "real"))
                    if doms:
                        self.ufs[d["fn"]] = z3.Function("uf_" + d["fn"], *(doms + [rng_]))
                    else:
                        self.ufs[d["fn"]] = (lambda c_=z3.Const("uf_" + d["fn"], rng_): c_)
        self.spec_depth = 0         # > 0 while evaluating contract / spec expressions (total: no safety VCs)

    def evc(self, src, st, guard=()):
        """evaluate a contract (DSL) expression; z3 arrays are total, so spec expressions carry no safety VCs"""
        self.spec_depth += 1
        try:
            return self.ev(parse_expr(src), st, guard)
        finally:
            self.spec_depth -= 1

    def _preorder(self, node):
        yield node
        for ch in ast.iter_child_nodes(node):
            yield from self._preorder(ch)

    # ---- VC emission ----------------------------------------------------------------------------------------------
    def emit(self, name, kind, st, goal, line=None, guard=(), note=""):
        if kind == "safety" and self.spec_depth > 0:
            return
        if self.concrete:
            g = simp_bool(z3.And(*[to_bool(x) for x in list(st.pc) + list(guard)] + [z3.BoolVal(True)]))
            if g is False:
                return
            ok = simp_bool(to_bool(goal))
            if ok is not True:
                raise AssertionError("concrete-mode check failed: %s (%s) line %s" % (name, kind, line))
            return
        goal = to_bool(goal)
        if z3.is_true(z3.simplify(goal)):
            triv = True
        else:
            triv = False
        vc = VC(name, kind, list(st.pc) + [to_bool(g) for g in guard] + list(st.facts), goal, self.fn_key, line, note)
        vc.trivial = triv
        self.vcs.append(vc)

    # ---- heap helpers -----------------------------------------------------------------------------------------------
    def new_array(self, st, name, elem, ndim, shape=None, arr=None, kind="arr"):
        base = "%s#%d" % (name, next(_fresh))
        if arr is None:
            arr = z3.Const(base, arr_sort(elem, ndim))
        if shape is None:
            shape = [z3.Const("%s.len%d" % (base, d), I) for d in range(ndim)]
            for s in shape:
                st.pc.append(s >= 0)
        st.heap[base] = HeapObj(arr, shape, elem, ndim, kind)
        return Ref(base)

    def sel(self, st, ref, idxs=()):
        ho = st.heap[ref.base]
        t = ho.arr
        for p in list(ref.prefix) + list(idxs):
            t = z3.Select(t, to_z3(p))
        return t

    def ref_ndim(self, st, ref):
        return st.heap[ref.base].ndim - len(ref.prefix)

    def ref_len(self, st, ref, d=0):
        return st.heap[ref.base].shape[len(ref.prefix) + d]

    def store(self, st, ref, idxs, val):
        ho = st.heap[ref.base]
        path = [to_z3(p) for p in list(ref.prefix) + list(idxs)]
        if len(path) != ho.ndim:
            raise Unsupported("partial-array assignment")
        val = coerce(val, ho.elem)

        def rec(arr, k):
            if k == len(path) - 1:
                return z3.Store(arr, path[k], val)
            return z3.Store(arr, path[k], rec(z3.Select(arr, path[k]), k + 1))
        st.heap[ref.base] = ho.replace(arr=rec(ho.arr, 0))

    def index_safety(self, st, ref, idx, line, guard, d=0, what="index"):
        n = self.ref_len(st, ref, d)
        i = to_z3(idx)
        self.emit("%s.safety.%s(%s)" % (self.fn_key.split("::")[-1], what, self.cur_src), "safety", st,
                  z3.And(i >= 0, i < n), line, guard, note="subscript within [0, len)")

    # ---- expressions ------------------------------------------------------------------------------------------------
    def ev(self, node, st, guard=()):
        m = getattr(self, "ev_" + type(node).__name__, None)
        if m is None:
            raise Unsupported("expression %s at line %s" % (type(node).__name__, getattr(node, "lineno", "?")))
        return m(node, st, guard)

    def ev_Constant(self, node, st, guard):
        v = node.value
        if v is None:
            return PyObj("none")
        if isinstance(v, str):
            return PyObj("str", v)
        if isinstance(v, (bool, int)):
            return v
        if isinstance(v, float):
            return Fraction(repr(v)) if v == v and abs(v) != float("inf") else PyObj("float", v)
        raise Unsupported("constant %r" % (v,))

    def ev_Name(self, node, st, guard):
        if node.id in st.env:
            v = st.env[node.id]
            if isinstance(v, PyObj) and v.kind == "undefined":
                raise Unsupported("use of loop variable %s after its loop" % node.id)
            return v
        if node.id in ("True", "False"):
            return node.id == "True"
        if node.id == "INF" and self.spec_depth > 0:
            return PY_INF
        if node.id in self.imports or node.id in self.registry.by_name:
            return PyObj("func", node.id)
        raise ContractError("unbound name %s (line %s)" % (node.id, getattr(node, "lineno", "?")))

    def ev_UnaryOp(self, node, st, guard):
        v = self.ev(node.operand, st, guard)
        if isinstance(node.op, ast.USub):
            if isinstance(v, (PyObj, Ref, tuple)):
                raise Unsupported("negation of non-scalar")
            return -v
        if isinstance(node.op, ast.UAdd):
            return v
        if isinstance(node.op, ast.Not):
            b = to_bool(v)
            return z3.Not(b)
        raise Unsupported("unary op")

    def arith(self, op, a, b, st, line, guard):
        if any(is_z3(x) and x.eq(PY_INF) for x in (a, b)):
            raise Unsupported("arithmetic on float('inf') at line %s" % line)
        if isinstance(op, ast.Mult) and isinstance(a, Ref) and isinstance(b, PyObj) and b.kind == "colvec" \
                and self.ref_ndim(st, a) == 1:
            # numpy broadcasting  row[k] * col[:, newaxis]  ->  out[i][k] = col[i] * row[k]
            from pyvc import externals
            externals.USED.add("numpy broadcasting: vector * column")
            col = b.val
            out = self.new_array(st, "bcast", "real", 2, shape=[self.ref_len(st, col), self.ref_len(st, a)])
            i_, k_ = z3.Int("bi!%d" % next(_fresh)), z3.Int("bk!%d" % next(_fresh))
            cell = z3.Select(z3.Select(st.heap[out.base].arr, i_), k_)
            ci, rk = z3.Select(self.sel(st, col), i_), z3.Select(self.sel(st, a), k_)
            if z3.is_int(ci):
                ci = z3.ToReal(ci)
            if z3.is_int(rk):
                rk = z3.ToReal(rk)
            st.pc.append(z3.ForAll([i_, k_], cell == rk * ci, patterns=[cell]))
            return out
        if (isinstance(a, (Vec, Ref)) or isinstance(b, (Vec, Ref))) and not isinstance(a, (PyObj, tuple)) \
                and not isinstance(b, (PyObj, tuple)) and (self.as_vec(st, a) is not None or self.as_vec(st, b) is not None) \
                and isinstance(op, (ast.Add, ast.Sub)):
            return self.vec_op(st, a, b, lambda x, y: self.arith(op, x, y, st, line, guard), line, guard)
        if is_fl(a) or is_fl(b) or (isinstance(a, PyObj) and a.kind == "float") or (isinstance(b, PyObj) and b.kind == "float"):
            fa, fb = lift_fl(a), lift_fl(b)
            fn_ = self.fn_key.split("::")[-1]
            if isinstance(op, ast.Div):
                self.emit("%s.safety.div@L%s" % (fn_, line - self.fndef.lineno), "safety", st,
                          z3.Implies(FL.is_fin(fb), FL.val(fb) != 0), line, guard, note="float division by non-zero")
                body = FL.val(fa) / FL.val(fb)
            elif isinstance(op, ast.Add):
                body = FL.val(fa) + FL.val(fb)
            elif isinstance(op, ast.Sub):
                body = FL.val(fa) - FL.val(fb)
            elif isinstance(op, ast.Mult):
                body = FL.val(fa) * FL.val(fb)
            else:
                raise Unsupported("float operator")
            return z3.If(z3.Or(FL.is_nan(fa), FL.is_nan(fb)), FL.nan, FL.fin(body))
        if isinstance(a, PyObj) or isinstance(b, PyObj) or isinstance(a, Ref) or isinstance(b, Ref) \
                or isinstance(a, (Vec, tuple)) or isinstance(b, (Vec, tuple)):
            raise Unsupported("arithmetic on non-scalar at line %s" % line)
        if isinstance(a, bool):
            a = int(a)
        if isinstance(b, bool):
            b = int(b)
        if is_z3(a) and z3.is_bool(a):
            a = z3.If(a, 1, 0)
        if is_z3(b) and z3.is_bool(b):
            b = z3.If(b, 1, 0)
        if is_z3(a) or is_z3(b):
            a, b = to_z3(a), to_z3(b)
        if isinstance(op, ast.Add):
            return a + b
        if isinstance(op, ast.Sub):
            return a - b
        if isinstance(op, ast.Mult):
            if is_z3(a) and is_z3(b) and getattr(self.contract, "abstract_mul", False) \
                    and not z3.is_int_value(a) and not z3.is_rational_value(a) \
                    and not z3.is_int_value(b) and not z3.is_rational_value(b):
                # A-mul: a product of two symbolic terms is an application of an uninterpreted function (a sound
                # abstraction for proving; no property of multiplication is used)
                ra = z3.ToReal(a) if z3.is_int(a) else a
                rb = z3.ToReal(b) if z3.is_int(b) else b
                return z3.Function("amul", R, R, R)(ra, rb)
            return a * b
        if isinstance(op, ast.Div):
            self.emit("%s.safety.div@L%s" % (self.fn_key.split("::")[-1], line - self.fndef.lineno), "safety", st, to_z3(b) != 0, line, guard, note="division by non-zero")
            if not is_z3(a) and not is_z3(b):
                return Fraction(a) / Fraction(b)
            za, zb = to_z3(a), to_z3(b)
            if z3.is_int(za):
                za = z3.ToReal(za)
            if z3.is_int(zb):
                zb = z3.ToReal(zb)
            return za / zb
        if isinstance(op, (ast.FloorDiv, ast.Mod)):
            if is_real(a) or is_real(b):
                raise Unsupported("// or % on reals")
            if not is_z3(a) and not is_z3(b):
                return a // b if isinstance(op, ast.FloorDiv) else a % b
            # SMT-LIB div/mod are Euclidean; they coincide with Python's floor versions for a positive divisor
            self.emit("%s.safety.divpos@L%s" % (self.fn_key.split("::")[-1], line - self.fndef.lineno), "safety", st, to_z3(b) > 0, line, guard,
                      note="floor division modelled for positive divisors only")
            return (to_z3(a) / to_z3(b)) if isinstance(op, ast.FloorDiv) else (to_z3(a) % to_z3(b))
        raise Unsupported("binary op %s" % type(op).__name__)

    def ev_BinOp(self, node, st, guard):
        a = self.ev(node.left, st, guard)
        b = self.ev(node.right, st, guard)
        return self.arith(node.op, a, b, st, node.lineno, guard)

    def cmp(self, op, a, b):
        if is_str(a) or is_str(b):
            if isinstance(op, (ast.Eq, ast.NotEq)):
                return fresh("streq", B)        # content of strings is not modelled
            raise Unsupported("ordering of strings")
        if is_fl(a) or is_fl(b) or (isinstance(a, PyObj) and a.kind == "float") or (isinstance(b, PyObj) and b.kind == "float"):
            fa, fb = lift_fl(a), lift_fl(b)
            both = z3.And(FL.is_fin(fa), FL.is_fin(fb))
            va, vb = FL.val(fa), FL.val(fb)
            if isinstance(op, ast.Lt):
                return z3.And(both, va < vb)
            if isinstance(op, ast.LtE):
                return z3.And(both, va <= vb)
            if isinstance(op, ast.Gt):
                return z3.And(both, va > vb)
            if isinstance(op, ast.GtE):
                return z3.And(both, va >= vb)
            if isinstance(op, ast.Eq):
                return z3.And(both, va == vb)
            if isinstance(op, ast.NotEq):
                return z3.Not(z3.And(both, va == vb))
            raise Unsupported("float comparison")
        if isinstance(a, PyObj) or isinstance(b, PyObj):
            if isinstance(op, (ast.Is, ast.Eq)) or isinstance(op, (ast.IsNot, ast.NotEq)):
                same = isinstance(a, PyObj) and isinstance(b, PyObj) and a.kind == b.kind and a.val == b.val
                return same if isinstance(op, (ast.Is, ast.Eq)) else not same
            raise Unsupported("comparison with opaque value")
        if isinstance(a, bool) and not is_z3(b):
            a = int(a)
        za, zb = (a, b)
        if is_z3(a) or is_z3(b):
            za, zb = to_z3(a), to_z3(b)
            if z3.is_bool(za) and not z3.is_bool(zb):
                za = z3.If(za, 1, 0)
            if z3.is_bool(zb) and not z3.is_bool(za):
                zb = z3.If(zb, 1, 0)
        if isinstance(op, ast.Lt):
            return za < zb
        if isinstance(op, ast.LtE):
            return za <= zb
        if isinstance(op, ast.Gt):
            return za > zb
        if isinstance(op, ast.GtE):
            return za >= zb
        if isinstance(op, ast.Eq):
            return za == zb
        if isinstance(op, ast.NotEq):
            return za != zb
        raise Unsupported("comparison %s" % type(op).__name__)

    def ev_Compare(self, node, st, guard):
        left = self.ev(node.left, st, guard)
        out = []
        for op, rn in zip(node.ops, node.comparators):
            right = self.ev(rn, st, guard)
            if isinstance(op, (ast.In, ast.NotIn)) and isinstance(right, Ref) and len(node.ops) == 1:
                ho = st.heap[right.base]
                if ho.kind == "pairset" and isinstance(left, tuple) and len(left) == 2:
                    m = self.sel(st, right, [to_z3(left[0]), to_z3(left[1])])
                elif self.is_set(st, right) and not isinstance(left, (tuple, Ref, PyObj)):
                    m = self.sel(st, right, [to_z3(left)])
                elif ho.kind == "dict" and not isinstance(left, (tuple, Ref, PyObj)):
                    ho = self.dict_keyed(st, right, to_z3(left))
                    m = z3.Select(ho.dom, to_z3(left))
                else:
                    raise Unsupported("membership test of this shape")
                return m if isinstance(op, ast.In) else z3.Not(m)
            if (isinstance(left, Vec) or isinstance(right, Vec) or
                    (isinstance(left, Ref) and self.ref_ndim(st, left) == 1 and self.spec_depth == 0) or
                    (isinstance(right, Ref) and self.ref_ndim(st, right) == 1 and self.spec_depth == 0)) \
                    and len(node.ops) == 1:
                return self.vec_op(st, left, right, lambda x, y, op=op: to_bool(self.cmp(op, x, y)), node.lineno, guard)
            out.append(self.cmp(op, left, right))
            left = right
        if len(out) == 1:
            return out[0]
        return z3.And(*[to_bool(o) for o in out])

    def ev_BoolOp(self, node, st, guard):
        guard = list(guard)
        vals = []
        for v in node.values:
            b = to_bool(self.ev(v, st, guard))
            vals.append(b)
            guard.append(b if isinstance(node.op, ast.And) else z3.Not(b))
        return z3.And(*vals) if isinstance(node.op, ast.And) else z3.Or(*vals)

    def ev_IfExp(self, node, st, guard):
        c = to_bool(self.ev(node.test, st, guard))
        sc = simp_bool(c)
        if sc is True:
            return self.ev(node.body, st, guard)
        if sc is False:
            return self.ev(node.orelse, st, guard)
        a = self.ev(node.body, st, list(guard) + [c])
        b = self.ev(node.orelse, st, list(guard) + [z3.Not(c)])
        za, zb = to_z3(a), to_z3(b)
        if z3.is_int(za) and z3.is_real(zb):
            za = z3.ToReal(za)
        if z3.is_int(zb) and z3.is_real(za):
            zb = z3.ToReal(zb)
        return z3.If(c, za, zb)

    def ev_Tuple(self, node, st, guard):
        return tuple(self.ev(e, st, guard) for e in node.elts)

    def ev_Dict(self, node, st, guard):
        if node.keys:
            raise Unsupported("non-empty dict literal")
        base = "dict#%d" % next(_fresh)
        st.heap[base] = HeapObj(None, [], None, 1, "dict", dom=z3.K(I, z3.BoolVal(False)))
        return Ref(base)

    def dict_keyed(self, st, ref, key):
        """a dict literal `{}` takes the sort of its keys at first use (int ids by default, opaque strings)"""
        ho = st.heap[ref.base]
        if key.sort() != ho.dom.sort().domain():
            if ho.arr is None and ho.dom.eq(z3.K(I, z3.BoolVal(False))):
                ho = ho.replace(dom=z3.K(key.sort(), z3.BoolVal(False)))
                st.heap[ref.base] = ho
            else:
                raise Unsupported("dict with keys of two kinds")
        return ho

    def dict_val_arr(self, st, ref, like=None):
        ho = st.heap[ref.base]
        if ho.arr is None:
            kind = "real" if (like is not None and is_real(like)) else "int"
            ho = ho.replace(arr=fresh(ref.base + ".val", z3.ArraySort(ho.dom.sort().domain(), zsort(kind))), elem=kind)
            st.heap[ref.base] = ho
        return ho

    def ev_ListComp(self, node, st, guard):
        # only the shape  [{Element(x) for x in b} for b in <list of sets>]  (elementwise copy of a list of sets;
        # the Element constructor preserves identity: assumption A-elem)
        if len(node.generators) == 1 and isinstance(node.elt, ast.SetComp) and len(node.elt.generators) == 1 \
                and not node.generators[0].ifs and not node.elt.generators[0].ifs:
            outer, inner = node.generators[0], node.elt.generators[0]
            e = node.elt.elt
            if isinstance(outer.target, ast.Name) and isinstance(inner.iter, ast.Name) and inner.iter.id == outer.target.id \
                    and isinstance(inner.target, ast.Name) and isinstance(e, ast.Call) and isinstance(e.func, ast.Name) \
                    and e.func.id == "Element" and len(e.args) == 1 and isinstance(e.args[0], ast.Name) \
                    and e.args[0].id == inner.target.id:
                src = self.ev(outer.iter, st, guard)
                if isinstance(src, Ref) and st.heap[src.base].kind == "setlist" and not src.prefix:
                    from pyvc import externals
                    externals.USED.add("comprehension [{Element(x) for x in b} for b in buckets]: elementwise copy (A-elem)")
                    ho = st.heap[src.base]
                    return self.new_array(st, "copy", "bool", 2, shape=ho.shape, arr=ho.arr, kind="setlist")
        if getattr(self.contract, "opaque_glue", False):
            return PyObj("opaque", None)
        raise Unsupported("list comprehension at line %s" % node.lineno)

    def ev_SetComp(self, node, st, guard):
        if getattr(self.contract, "opaque_glue", False):
            return PyObj("opaque", None)
        raise Unsupported("set comprehension at line %s" % node.lineno)

    ev_DictComp = ev_SetComp

    def ev_List(self, node, st, guard):
        if not node.elts:
            # a fresh growable list (element sort fixed by the first append)
            base = "list#%d" % next(_fresh)
            st.heap[base] = HeapObj(None, [z3.IntVal(0)], None, 1, "list")
            return Ref(base)
        # a list literal that is only read (e.g. passed to vdot) or whose items are lists: an immutable tuple
        return tuple(self.ev(e, st, guard) for e in node.elts)

    def as_vec(self, st, v):
        if isinstance(v, Vec):
            return v
        if isinstance(v, Ref) and self.ref_ndim(st, v) == 1:
            arr = self.sel(st, v)
            return Vec(self.ref_len(st, v), lambda i, arr=arr: z3.Select(arr, i))
        return None

    def vec_op(self, st, a, b, fn, line, guard):
        va, vb = self.as_vec(st, a), self.as_vec(st, b)
        from pyvc import externals
        externals.USED.add("numpy elementwise operation on 1-D arrays")
        if va is not None and vb is not None:
            self.emit("%s.safety.samelen@L%s" % (self.fn_key.split("::")[-1], line - self.fndef.lineno), "safety", st,
                      va.length == vb.length, line, guard, note="elementwise operation on arrays of equal length")
            return Vec(va.length, lambda i: fn(va.at(i), vb.at(i)))
        if va is not None:
            return Vec(va.length, lambda i: fn(va.at(i), b))
        return Vec(vb.length, lambda i: fn(a, vb.at(i)))

    def ev_Subscript(self, node, st, guard):
        if self.spec_depth == 0:
            self.cur_src = ast.unparse(node)
        base = self.ev(node.value, st, guard)
        sl = node.slice
        if isinstance(base, tuple):
            idx = self.ev(sl, st, guard)
            if isinstance(idx, int):
                return base[idx]
            raise Unsupported("symbolic index into tuple")
        if is_str(base):
            if isinstance(sl, ast.Slice):
                for part in (sl.lower, sl.upper):
                    if part is not None:
                        self.ev(part, st, guard)
                from pyvc import externals
                externals.USED.add("string slicing never raises (result opaque)")
                return fresh("slice", STR)
            raise Unsupported("string indexing (may raise IndexError)")
        if isinstance(base, PyObj) and base.kind == "strlist":
            idx = self.ev(sl, st, guard)
            if idx == -1:      # split(...)[-1]: split never returns an empty list
                return fresh("piece", STR)
            raise Unsupported("indexing a list of strings")
        if isinstance(base, PyObj) and base.kind == "opaque" and getattr(self.contract, "opaque_glue", False):
            if not isinstance(sl, ast.Slice):
                self.ev(sl, st, guard)
            return PyObj("opaque", None)
        if not isinstance(base, Ref):
            raise Unsupported("subscript of non-array at line %s" % node.lineno)
        if st.heap[base.base].kind == "dict" and not base.prefix:
            key = to_z3(self.ev(sl, st, guard))
            self.dict_keyed(st, base, key)
            ho = self.dict_val_arr(st, base)
            self.emit("%s.safety.key(%s)" % (self.fn_key.split("::")[-1], ast.unparse(node)), "safety", st,
                      z3.Select(ho.dom, key), node.lineno, guard, note="dict lookup on a present key")
            if ho.ndim == 2:        # a dict of fixed-width rows: the value is a view of the row
                return Ref(base.base, (key,))
            return z3.Select(ho.arr, key)
        if isinstance(sl, ast.Slice):
            raise Unsupported("slice at line %s" % node.lineno)
        if isinstance(sl, ast.Tuple) and len(sl.elts) == 2 and isinstance(sl.elts[0], ast.Slice) \
                and sl.elts[0].lower is None and sl.elts[0].upper is None and isinstance(sl.elts[1], ast.Name) \
                and self.imports.get(sl.elts[1].id) == "numpy.newaxis" and self.ref_ndim(st, base) == 1:
            return PyObj("colvec", base)        # v[:, newaxis]
        idx = self.ev(sl, st, guard)
        idxs = list(idx) if isinstance(idx, tuple) else [idx]
        ref = base
        for k, i in enumerate(idxs):
            if isinstance(i, (PyObj, Ref)):
                raise Unsupported("non-integer subscript")
            self.index_safety(st, ref, i, node.lineno, guard)
            ref = Ref(ref.base, ref.prefix + (to_z3(i),))
        if self.ref_ndim(st, ref) == 0:
            return self.sel(st, ref)
        return ref

    def ev_Attribute(self, node, st, guard):
        v = self.ev(node.value, st, guard)
        if isinstance(v, Ref) and node.attr == "shape":
            n = self.ref_ndim(st, v)
            return tuple(self.ref_len(st, v, d) for d in range(n))
        if isinstance(v, Ref) or is_str(v) or (isinstance(v, PyObj) and v.kind in ("opaqueset", "opaquelist")):
            return PyObj("method", (v, node.attr))
        if isinstance(v, PyObj) and v.kind == "func" and self.imports.get(v.val, v.val) in ("numpy", "math", "random"):
            return PyObj("func", self.imports.get(v.val, v.val) + "." + node.attr)
        if isinstance(v, PyObj) and v.kind == "object":
            key = "%s.%s" % (v.val, node.attr)
            if key in st.env:
                return st.env[key]
            if getattr(self.contract, "opaque_glue", False):
                return PyObj("opaque", None)
            raise Unsupported("read of unset attribute %s" % key)
        if isinstance(v, PyObj) and v.kind == "opaque" and getattr(self.contract, "opaque_glue", False):
            return PyObj("opaque", None)
        raise Unsupported("attribute %s at line %s" % (node.attr, node.lineno))

    def ev_Lambda(self, node, st, guard):
        return PyObj("lambda", (node, st))

    def ev_Call(self, node, st, guard):
        from pyvc import externals
        # DSL forms first
        if isinstance(node.func, ast.Name):
            nm = node.func.id
            if nm in ("forall", "exists"):
                return self.quant(nm, node, st, guard)
            if nm == "implies":
                a = to_bool(self.ev(node.args[0], st, guard))
                b = to_bool(self.ev(node.args[1], st, list(guard) + [a]))
                return z3.Implies(a, b)
            if nm == "iff":
                return to_bool(self.ev(node.args[0], st, guard)) == to_bool(self.ev(node.args[1], st, guard))
            if nm == "ite":
                return self.ev_IfExp(ast.IfExp(node.args[0], node.args[1], node.args[2]), st, guard)
            if nm == "has" and self.spec_depth > 0:
                d = self.ev(node.args[0], st, guard)
                return z3.Select(st.heap[d.base].dom, to_z3(self.ev(node.args[1], st, guard)))
            if nm == "card" and self.spec_depth > 0:
                sref = self.ev(node.args[0], st, guard)
                return CARD(self.sel(st, sref))
            if nm == "choose" and self.spec_depth > 0:
                lamn = node.args[0]
                lo, hi = [to_z3(self.ev(a, st, guard)) for a in node.args[1:3]]
                m = fresh("choice", I)
                st_q, st_m = st.fork(), st.fork()
                bv = z3.Int("c!q%d" % next(_fresh))
                st_q.env[lamn.args.args[0].arg] = bv
                st_m.env[lamn.args.args[0].arg] = m
                ex = z3.Exists([bv], z3.And(lo <= bv, bv < hi, to_bool(self.ev(lamn.body, st_q, guard))))
                st.pc.append(z3.Implies(ex, z3.And(lo <= m, m < hi, to_bool(self.ev(lamn.body, st_m, guard)))))
                return m
            if nm == "lam" and self.spec_depth > 0:
                lamn = node.args[0]
                bv = z3.Int("l!q%d" % next(_fresh))
                st_q = st.fork()
                st_q.env[lamn.args.args[0].arg] = bv
                body = to_z3(self.ev(lamn.body, st_q, guard))
                elem = "real" if z3.is_real(body) else ("bool" if z3.is_bool(body) else "int")
                ref = self.new_array(st, "lam", elem, 1)
                cellv = z3.Select(st.heap[ref.base].arr, bv)
                st.pc.append(z3.ForAll([bv], cellv == body, patterns=[cellv]))
                return ref
            if nm == "old":
                if st.old is None:
                    raise ContractError("old() outside a postcondition")
                o = st.old
                v = self.ev(node.args[0], State(o.env, o.heap, st.pc, None), guard)
                if isinstance(v, Ref):
                    # a reference into the OLD heap: materialise as a frozen heap object of the current state
                    key = "old:" + v.base
                    if key not in st.heap:
                        st.heap[key] = o.heap[v.base]
                    return Ref(key, v.prefix)
                return v
            if nm in self.specs:
                args = [self.ev(a, st, guard) for a in node.args]
                return self.specs[nm].apply(self, st, args)
            if nm in self.registry.lemmas and self.spec_depth > 0:
                return self.lemma_call(self.registry.lemmas[nm], node, st, guard)
            if self.spec_depth > 0 and nm in self.ufs:
                return self.ufs[nm](*[to_z3(self.ev(a, st, guard)) for a in node.args])
        oc = getattr(self.contract, "opaque_calls", None) or {}
        cname = node.func.id if isinstance(node.func, ast.Name) else (node.func.attr if isinstance(node.func, ast.Attribute) else None)
        if self.spec_depth == 0 and oc and cname is not None and isinstance(node.func, ast.Attribute):
            # a dotted key (`self._aux.run`) is more specific than the bare method name
            full = ast.unparse(node.func)
            dotted = [k_ for k_ in oc if "." in k_ and (full == k_ or full.endswith("." + k_))]
            if dotted:
                cname = max(dotted, key=len)
        if self.spec_depth == 0 and cname in oc and cname not in st.env:
            from pyvc import externals
            d = oc[cname]
            if d.get("count"):      # ghost counter of the calls made to this callee
                st.env[d["count"]] = to_z3(st.env[d["count"]]) + 1
            recv = None
            if isinstance(node.func, ast.Attribute):
                rn = node.func.value
                if not (isinstance(rn, ast.Name) and rn.id not in st.env):      # a class name: nothing to evaluate
                    recv = self.ev(rn, st, guard)
                    if d.get("with_recv"):
                        if not (is_z3(recv) and z3.is_int(recv)):
                            raise Unsupported("opaque method %s: the receiver is not an item known by identity" % cname)
                    elif not (isinstance(recv, PyObj) and recv.kind in ("object", "opaque")):
                        raise Unsupported("opaque call %s on a modelled receiver" % cname)
                    if d.get("recv") is not None and ast.unparse(rn) != d["recv"]:
                        raise Unsupported("opaque call %s on receiver %s (contract: %s)" % (cname, ast.unparse(rn), d["recv"]))
            args = [self.ev(a, st, guard) for a in node.args]
            for kw in node.keywords:
                self.ev(kw.value, st, guard)
            ret = d.get("ret", "real")
            if ret == "obj":
                externals.USED.add("%s(...) returns an object the fragment does not look into" % cname)
                return PyObj("opaque", None)
            if ret == "tuple":
                externals.USED.add("%s(...) returns %d objects the fragment does not look into" % (cname, d["n"]))
                return tuple(PyObj("opaque", None) for _ in range(d["n"]))
            if ret == "list":
                externals.USED.add("%s(...) returns a list of items known by identity only" % cname)
                return self.new_array(st, "opq_" + cname, "int", 1, kind="list")
            externals.USED.add("%s(...) is a pure function (%s) of its arguments of rank %s (A-pure-call)"
                               % (cname, d["fn"], d["args"]))
            zargs = [to_z3(args[i]) for i in d["args"]]
            zargs = [z3.ToReal(z_) if k_ == "real" and z3.is_int(z_) else z_
                     for z_, k_ in zip(zargs, d.get("arg_kinds", ["int"] * len(zargs)))]
            if d.get("with_recv"):
                zargs = [recv] + zargs
            return self.ufs[d["fn"]](*zargs)
        fv = self.ev(node.func, st, guard) if not isinstance(node.func, ast.Name) else (
            st.env.get(node.func.id) if node.func.id in st.env else PyObj("func", node.func.id))
        if isinstance(fv, PyObj) and fv.kind == "method":
            recv, meth = fv.val
            return externals.method(self, st, recv, meth, node, guard)
        if isinstance(fv, PyObj) and fv.kind == "func":
            name = fv.val
            callee = self.registry.by_name.get(name)
            if callee is not None and name not in st.env:
                return self.call_contract(callee, node, st, guard)
            canon = self.imports.get(name, name)
            return externals.call(self, st, canon, node, guard)
        if isinstance(fv, PyObj) and fv.kind == "object":
            for a in node.args:
                self.ev(a, st, guard)
            from pyvc import externals
            externals.USED.add("call of a callable parameter: opaque result")
            return PyObj("opaque", None)
        raise Unsupported("call at line %s" % node.lineno)

    def quant(self, which, node, st, guard):
        lam = node.args[0]
        if not isinstance(lam, ast.Lambda):
            raise ContractError("forall/exists need a lambda")
        names = [a.arg for a in lam.args.args]
        bounds = [self.ev(a, st, guard) for a in node.args[1:]]
        if not bounds:
            # unbounded quantifier (over all integers: used for set members)
            if self.small_scope is not None or self.concrete:
                raise Unsupported("unbounded quantifier in bounded mode")
            bvs = [z3.Int("%s!q" % n_) for n_ in names]
            st2 = st.fork()
            for n_, bv in zip(names, bvs):
                st2.env[n_] = bv
            self.spec_depth += 1
            try:
                body = to_bool(self.ev(lam.body, st2, guard))
            finally:
                self.spec_depth -= 1
            return z3.ForAll(bvs, body) if which == "forall" else z3.Exists(bvs, body)
        if len(bounds) != 2 * len(names) and not (len(bounds) == 2 and len(names) >= 1):
            raise ContractError("forall(lambda i[, j]: body, lo, hi[, lo2, hi2])")
        if len(bounds) == 2 and len(names) > 1:
            bounds = bounds * len(names)
        if self.concrete:
            los = [z3.simplify(to_z3(b)).as_long() for b in bounds[0::2]]
            his = [z3.simplify(to_z3(b)).as_long() for b in bounds[1::2]]
            res = []
            for combo in itertools.product(*[range(lo, hi) for lo, hi in zip(los, his)]):
                st2 = st.fork()
                for n_, v in zip(names, combo):
                    st2.env[n_] = v
                res.append(to_bool(self.ev(lam.body, st2, guard)))
            return z3.And(*res) if which == "forall" else z3.Or(*res)
        if self.small_scope is not None:
            K = self.small_scope
            parts = []
            for k in range(len(names)):
                self.scope_constraints.append(z3.And(to_z3(bounds[2 * k]) >= -1, to_z3(bounds[2 * k + 1]) <= K + 1))
            self.spec_depth += 1
            try:
                for combo in itertools.product(range(-1, K + 1), repeat=len(names)):
                    st2 = st.fork()
                    rngc = []
                    for k, (n_, cval) in enumerate(zip(names, combo)):
                        st2.env[n_] = cval
                        rngc.append(z3.And(to_z3(bounds[2 * k]) <= cval, cval < to_z3(bounds[2 * k + 1])))
                    rc = z3.simplify(z3.And(*rngc))
                    if z3.is_false(rc):
                        continue
                    body = to_bool(self.ev(lam.body, st2, list(guard) + [rc]))
                    parts.append(z3.Implies(rc, body) if which == "forall" else z3.And(rc, body))
            finally:
                self.spec_depth -= 1
            if which == "forall":
                return z3.And(*parts) if parts else z3.BoolVal(True)
            return z3.Or(*parts) if parts else z3.BoolVal(False)
        bvs = [z3.Int("%s!q" % n_) for n_ in names]     # alpha-equivalent formulas get identical terms
        st2 = st.fork()
        rng = []
        for k, (n_, bv) in enumerate(zip(names, bvs)):
            st2.env[n_] = bv
            rng.append(z3.And(to_z3(bounds[2 * k]) <= bv, bv < to_z3(bounds[2 * k + 1])))
        rng_c = z3.And(*rng)
        self.spec_depth += 1
        try:
            body = to_bool(self.ev(lam.body, st2, list(guard) + [rng_c]))
        finally:
            self.spec_depth -= 1
        if which == "forall":
            return z3.ForAll(bvs, z3.Implies(rng_c, body))
        return z3.Exists(bvs, z3.And(rng_c, body))

    def hint_fact(self, src, st, guard=(), where="hint"):
        """a sidecar hint: lemma calls introduce their (proved) statements; any other formula must itself be proved
        from the current state before it is assumed (cut rule)"""
        tree = parse_expr(src)
        has_lemma = any(isinstance(n, ast.Call) and isinstance(n.func, ast.Name) and n.func.id in self.registry.lemmas
                        for n in ast.walk(tree))
        fact = to_bool(self.evc(src, st, guard))
        if not has_lemma:
            self.emit("%s.%s(%s)" % (self.fn_key.split("::")[-1], where, src[:60]), "assert", st, fact, guard=guard, note=src)
        return fact

    def lemma_call(self, lm, node, st, guard):
        """lemma instantiation (Dafny-style lemma call): its hypotheses become obligations here, its statement a fact"""
        args = [self.ev(a, st, guard) for a in node.args]
        if len(args) != len(lm.params):
            raise ContractError("lemma %s arity" % lm.name)
        lst = State({}, st.heap, st.pc, None)
        for p, a in zip(lm.params, args):
            lst.env[p] = a
        if lm.induction is not None:
            self.emit("%s.lemma_call.%s.base" % (self.fn_key.split("::")[-1], lm.name), "lemma-pre", st,
                      to_z3(lst.env[lm.induction]) >= to_z3(self.evc(lm.base, lst)), guard=guard, note=lm.base)
        for hname, src in lm.requires.items():
            self.emit("%s.lemma_call.%s.%s" % (self.fn_key.split("::")[-1], lm.name, hname), "lemma-pre", st,
                      to_bool(self.evc(src, lst, guard)),
                      guard=guard, note=src)
        self.lemmas_used.add(lm.name)
        if getattr(lm, "intro", None):
            ivars, irng = [], []
            for iv, (lo, hi) in lm.intro.items():
                x = z3.Int("lc!%s!%d" % (iv, next(_fresh)))
                ivars.append(x)
                irng.append(z3.And(to_z3(self.evc(lo, lst, guard)) <= x, x < to_z3(self.evc(hi, lst, guard))))
                lst.env[iv] = x
            return z3.ForAll(ivars, z3.Implies(z3.And(*irng), to_bool(self.evc(lm.statement, lst, guard))))
        return to_bool(self.evc(lm.statement, lst, guard))

    # ---- calls to functions under contract (modular) ----------------------------------------------------------------
    def call_contract(self, callee, node, st, guard):
        params = callee.param_names
        if node.keywords:
            raise Unsupported("keyword arguments in call to %s" % callee.name)
        if len(node.args) != len(params):
            # arity obligation: reported as a refuted safety VC
            self.emit("%s.safety.arity(%s)@+%s" % (self.fn_key.split("::")[-1], callee.name,
                                                   node.lineno - self.fndef.lineno), "safety", st, z3.BoolVal(False), node.lineno,
                      guard, note="call passes %d arguments, %s takes %d" % (len(node.args), callee.name, len(params)))
            raise Unsupported("arity mismatch")
        args = [self.ev(a, st, guard) for a in node.args]
        cst = State({}, st.heap, list(st.pc), None, st.facts)
        for p, a in zip(params, args):
            cst.env[p] = a
        # ghost parameters of the callee are existential at the call site: taken from the caller's `call_ghost` hints
        for g, ty in callee.ghost.items():
            hint = (self.contract.call_ghost or {}).get((callee.name, g))
            if hint is None:
                raise ContractError("no ghost argument %s for call to %s" % (g, callee.name))
            cst.env[g] = self.evc(hint, st, guard)
        for cname, src in callee.requires.items():
            goal = to_bool(self.evc(src, cst, guard))
            self.emit("%s.call.%s.pre.%s@+%s" % (self.fn_key.split("::")[-1], callee.name, cname,
                                                  node.lineno - self.fndef.lineno), "precondition", st, goal, node.lineno,
                      guard, note=src)
        # havoc what the callee may modify
        pre = State(dict(cst.env), dict(st.heap), list(st.pc), None)
        for m in callee.modifies:
            ref = cst.env[m]
            if not isinstance(ref, Ref):
                raise ContractError("modifies names a non-array")
            ho = st.heap[ref.base]
            if ref.prefix:
                raise Unsupported("callee modifies a view")
            st.heap[ref.base] = ho.replace(arr=fresh(ref.base + "'", arr_sort(ho.elem, ho.ndim)))
        post = State(dict(cst.env), st.heap, st.pc, pre, st.facts)
        res = None
        if callee.returns is not None:
            res = fresh("ret_" + callee.name, zsort(callee.returns.kind))
            post.env["result"] = res
        for cname, src in list(callee.ensures.items()) + list(callee.assumed.items()):
            fact = to_bool(self.evc(src, post, guard))
            st.pc.append(z3.Implies(z3.And(*[to_bool(g) for g in guard] + [z3.BoolVal(True)]), fact))
        # ghost updates of the caller (ghost code lives in the sidecar, never in /repo)
        upd = (self.contract.ghost_after or {}).get(callee.name)
        if upd:
            gst = st.fork()
            for g in callee.ghost:
                gst.env["g_" + g] = cst.env[g]
            gst.heap = st.heap
            gst.pc = st.pc
            newvals = {gv: self.evc(src, gst, guard) for gv, src in upd.items()}
            for gv, val in newvals.items():
                cur = st.env.get(gv)
                if isinstance(cur, Ref) and isinstance(val, Ref):
                    st.heap[cur.base] = st.heap[cur.base].replace(arr=gst.heap[val.base].arr)
                elif isinstance(val, Ref):
                    # a new ghost array: a snapshot (copy) of the value, not an alias
                    ho = gst.heap[val.base]
                    st.env[gv] = self.new_array(st, "ghost_" + gv, ho.elem, ho.ndim - len(val.prefix),
                                                shape=ho.shape[len(val.prefix):], arr=self.sel(gst, val), kind=ho.kind)
                else:
                    st.env[gv] = val
        for hsrc in (getattr(self.contract, "call_hints", None) or {}).get(callee.name, []):
            hst = st.fork()
            hst.heap, hst.pc = st.heap, st.pc
            if res is not None:
                hst.env["call_result"] = res
            st.pc.append(self.hint_fact(hsrc, hst, guard, where="call_hint.%s" % callee.name))
        return res if res is not None else PyObj("none")

    # ---- statements -------------------------------------------------------------------------------------------------
    def run_block(self, stmts, st):
        """returns list of (kind, state, value); kind in normal/return/break/continue/raise"""
        states = [st]
        out = []
        for s in stmts:
            nxt = []
            for cur in states:
                for kind, s2, val in self.run_stmt(s, cur):
                    if kind == "normal":
                        nxt.append(s2)
                    else:
                        out.append((kind, s2, val))
            states = nxt
            if not states:
                break
        out.extend(("normal", s2, None) for s2 in states)
        return out

    def run_stmt(self, s, st):
        self.npaths += 1
        if self.npaths > 200000:
            raise Unsupported("path explosion")
        m = getattr(self, "st_" + type(s).__name__, None)
        if m is None:
            raise Unsupported("statement %s at line %s" % (type(s).__name__, s.lineno))
        return m(s, st)

    def st_Pass(self, s, st):
        return [("normal", st, None)]

    def st_Expr(self, s, st):
        if isinstance(s.value, ast.Constant):
            return [("normal", st, None)]
        if isinstance(s.value, ast.Call) and isinstance(s.value.func, ast.Name) and s.value.func.id == "print":
            return [("normal", st, None)]
        self.ev(s.value, st)
        return [("normal", st, None)]

    def assign(self, target, val, st, line):
        if isinstance(target, ast.Name):
            lt = (getattr(self.contract, "local_types", None) or {}).get(target.id)
            if lt is not None and isinstance(val, Ref) and st.heap[val.base].kind == "list" \
                    and st.heap[val.base].elem is None:
                ho = st.heap[val.base]
                st.heap[val.base] = ho.replace(elem=lt.elem, arr=fresh(val.base, arr_sort(lt.elem, 1)))
            st.env[target.id] = val
        elif isinstance(target, ast.Tuple):
            if not isinstance(val, tuple) or len(val) != len(target.elts):
                raise Unsupported("tuple assignment")
            for t, v in zip(target.elts, val):
                self.assign(t, v, st, line)
        elif isinstance(target, ast.Subscript):
            self.cur_src = ast.unparse(target)
            base = self.ev(target.value, st)
            if not isinstance(base, Ref):
                raise Unsupported("subscript store into non-array")
            if st.heap[base.base].kind == "dict" and not base.prefix and st.heap[base.base].ndim == 2:
                ho = st.heap[base.base]
                key = to_z3(self.ev(target.slice, st))
                width = ho.shape[1].as_long()
                if not (isinstance(val, tuple) and len(val) == width):
                    raise Unsupported("store into a dict of %d-rows of something else" % width)
                row = fresh(base.base + ".row", arr_sort(ho.elem, 1))       # a fresh list object
                for k_, v_ in enumerate(val):
                    row = z3.Store(row, k_, coerce(v_, ho.elem))
                st.heap[base.base] = ho.replace(arr=z3.Store(ho.arr, key, row), dom=z3.Store(ho.dom, key, z3.BoolVal(True)))
                return
            if st.heap[base.base].kind == "dict" and not base.prefix:
                key = to_z3(self.ev(target.slice, st))
                self.dict_keyed(st, base, key)
                ho = self.dict_val_arr(st, base, like=val)
                st.heap[base.base] = ho.replace(arr=z3.Store(ho.arr, key, coerce(val, ho.elem)),
                                                dom=z3.Store(ho.dom, key, z3.BoolVal(True)))
                return
            idx = self.ev(target.slice, st)
            idxs = list(idx) if isinstance(idx, tuple) else [idx]
            ref = base
            for i in idxs[:-1]:
                self.index_safety(st, ref, i, line, ())
                ref = Ref(ref.base, ref.prefix + (to_z3(i),))
            self.index_safety(st, ref, idxs[-1], line, (), what="store")
            if isinstance(val, Ref):
                raise Unsupported("array-valued store")
            ho_ = st.heap[ref.base]
            if ho_.kind == "arr" and ho_.elem == "int" and is_z3(val) and z3.is_real(val):
                # numpy casts a float stored into an integer array by truncation: modelled only for integral values
                # (obligation), for which the cast is exact
                from pyvc import externals
                externals.USED.add("a float stored into an integer numpy array is proved integral, then stored exactly")
                wit = (getattr(self.contract, "int_witness", None) or {}).get(self.cur_src)
                if wit is not None:     # ghost witness: the integer the stored float is equal to
                    w = to_z3(self.evc(wit, st))
                    self.emit("%s.safety.integral_store(%s)" % (self.fn_key.split("::")[-1], self.cur_src), "safety", st,
                              val == z3.ToReal(w), line, (), note="float stored into an int array equals the integer witness")
                    val = w
                else:
                    self.emit("%s.safety.integral_store(%s)" % (self.fn_key.split("::")[-1], self.cur_src), "safety", st,
                              z3.IsInt(val), line, (), note="float stored into an int array is a whole number")
                    val = z3.ToInt(val)
            self.store(st, ref, [idxs[-1]], val)
        elif isinstance(target, ast.Attribute):
            obj = self.ev(target.value, st)
            if not (isinstance(obj, PyObj) and obj.kind == "object"):
                raise Unsupported("attribute store on a non-object")
            st.env["%s.%s" % (obj.val, target.attr)] = val
        else:
            raise Unsupported("assignment target %s" % type(target).__name__)

    def st_Assign(self, s, st):
        val = self.ev(s.value, st)
        for t in s.targets:
            self.assign(t, val, st, s.lineno)
            self.after_assign(t, st, s.lineno)
        return [("normal", st, None)]

    def after_assign(self, t, st, line):
        """cut-point equalities on a freshly assigned local: proved, then the local is re-bound to the spec-level term"""
        if not isinstance(t, ast.Name):
            return
        spec = (getattr(self.contract, "after_assign", None) or {}).get(t.id)
        if not spec:
            return
        fn = self.fn_key.split("::")[-1]
        val = st.env[t.id]
        if isinstance(val, tuple):
            if len(spec) != len(val):
                raise ContractError("after_assign %s: length mismatch" % t.id)
            new = []
            for k, (v, src) in enumerate(zip(val, spec)):
                term = self.evc(src, st)
                self.emit("%s.after_assign.%s[%d]" % (fn, t.id, k), "assert", st, self.cmp(ast.Eq(), v, term), line, note=src)
                new.append(term)
            st.env[t.id] = tuple(new)
        else:
            term = self.evc(spec if isinstance(spec, str) else spec[0], st)
            self.emit("%s.after_assign.%s" % (fn, t.id), "assert", st, self.cmp(ast.Eq(), val, term), line, note=str(spec))
            st.env[t.id] = term

    def st_AnnAssign(self, s, st):
        if s.value is not None:
            self.assign(s.target, self.ev(s.value, st), st, s.lineno)
            self.after_assign(s.target, st, s.lineno)
        return [("normal", st, None)]

    def st_AugAssign(self, s, st):
        if isinstance(s.target, ast.Subscript) and isinstance(s.target.slice, ast.Compare):
            base = self.ev(s.target.value, st)
            mask = self.ev(s.target.slice, st)
            if isinstance(base, Ref) and isinstance(mask, Vec) and self.ref_ndim(st, base) == 1 and not base.prefix:
                from pyvc import externals
                externals.USED.add("numpy boolean-mask augmented assignment a[mask] op= v (pointwise)")
                val = self.ev(s.value, st)
                ho = st.heap[base.base]
                old = ho.arr
                new = fresh(base.base + "'m", arr_sort(ho.elem, 1))
                i_ = z3.Int("mi!%d" % next(_fresh))
                upd = self.arith(s.op, z3.Select(old, i_), val, st, s.lineno, ())
                st.pc.append(z3.ForAll([i_], z3.Select(new, i_) == z3.If(z3.And(0 <= i_, i_ < ho.shape[0], to_bool(mask.at(i_))),
                                                                      coerce(upd, ho.elem), z3.Select(old, i_)),
                                       patterns=[z3.Select(new, i_)]))
                st.heap[base.base] = ho.replace(arr=new)
                return [("normal", st, None)]
            raise Unsupported("masked assignment of this shape")
        cur = self.ev(s.target, st)
        val = self.ev(s.value, st)
        self.assign(s.target, self.arith(s.op, cur, val, st, s.lineno, ()), st, s.lineno)
        return [("normal", st, None)]

    def st_Return(self, s, st):
        v = self.ev(s.value, st) if s.value is not None else PyObj("none")
        return [("return", st, v)]

    def st_Break(self, s, st):
        return [("break", st, None)]

    def st_Continue(self, s, st):
        return [("continue", st, None)]

    def st_Raise(self, s, st):
        name = None
        if isinstance(s.exc, ast.Call) and isinstance(s.exc.func, ast.Name):
            name = s.exc.func.id
        elif isinstance(s.exc, ast.Name):
            name = s.exc.id
        return [("raise", st, PyObj("exc", name))]

    def st_Assert(self, s, st):
        c = to_bool(self.ev(s.test, st))
        self.emit("%s.assert@+%s" % (self.fn_key.split("::")[-1], s.lineno - self.fndef.lineno), "assert", st, c, s.lineno)
        st.pc.append(c)
        return [("normal", st, None)]

    def st_If(self, s, st):
        c = to_bool(self.ev(s.test, st))
        sc = simp_bool(c)
        if sc is True:
            return self.run_block(s.body, st)
        if sc is False:
            return self.run_block(s.orelse, st) if s.orelse else [("normal", st, None)]
        out = self.run_block(s.body, st.fork(c))
        st2 = st.fork(z3.Not(c))
        out += self.run_block(s.orelse, st2) if s.orelse else [("normal", st2, None)]
        return out

    # ---- loops ------------------------------------------------------------------------------------------------------
    def modified_in(self, stmts, st):
        """names assigned and heap bases written (syntactically) in a block, including callee modifies"""
        names, bases = set(), set()

        def target(t):
            if isinstance(t, ast.Name):
                names.add(t.id)
            elif isinstance(t, (ast.Tuple, ast.List)):
                for e in t.elts:
                    target(e)
            elif isinstance(t, ast.Subscript):
                root = t.value
                while isinstance(root, ast.Subscript):
                    root = root.value
                if isinstance(root, ast.Name):
                    nm = root.id
                    for _ in range(10):
                        bases.add(nm)
                        if nm not in self.alias:
                            break
                        nm = self.alias[nm]
                elif isinstance(root, ast.Attribute) and isinstance(root.value, ast.Name):
                    bases.add("%s.%s" % (root.value.id, root.attr))      # an attribute of an object parameter
                else:
                    raise Unsupported("store through a complex expression")

        for node in stmts:
            for n in ast.walk(node):
                if isinstance(n, ast.Assign):
                    for t in n.targets:
                        target(t)
                elif isinstance(n, (ast.AugAssign, ast.AnnAssign)):
                    if not (isinstance(n, ast.AnnAssign) and n.value is None):
                        target(n.target)
                elif isinstance(n, ast.For):
                    target(n.target)
                elif isinstance(n, ast.Call):
                    if isinstance(n.func, ast.Name) and n.func.id in self.registry.by_name:
                        callee = self.registry.by_name[n.func.id]
                        for gv in (self.contract.ghost_after or {}).get(callee.name, {}):
                            if isinstance(st.env.get(gv), Ref):
                                bases.add(gv)
                            else:
                                names.add(gv)
                        for m in callee.modifies:
                            k = callee.param_names.index(m)
                            if k < len(n.args) and isinstance(n.args[k], ast.Name):
                                bases.add(n.args[k].id)
                            else:
                                raise Unsupported("callee-modified argument is not a plain name")
                    elif isinstance(n.func, ast.Attribute) and n.func.attr in ("fill", "append", "pop", "clear", "sort",
                                                                               "add", "remove", "insert", "extend",
                                                                               "update"):
                        root = n.func.value
                        while isinstance(root, ast.Subscript):
                            root = root.value
                        if isinstance(root, ast.Name):
                            bases.add(root.id)
        return names, bases

    def havoc(self, st, names, bases, tag):
        for nm in sorted(names):
            if nm in st.env:
                v = st.env[nm]
                if isinstance(v, Ref):
                    # the name may be re-bound to another view inside the loop: keep it only if not re-assigned
                    raise Unsupported("array variable %s re-bound inside a loop under invariant" % nm)
                if isinstance(v, (PyObj, tuple)):
                    raise Unsupported("non-scalar variable %s modified in loop" % nm)
                z = to_z3(v)
                st.env[nm] = fresh("%s@%s" % (nm, tag), z.sort())
            # names first defined inside the loop are not live at the head
        seen = set()
        for nm in sorted(bases):
            v = st.env.get(nm)
            if not isinstance(v, Ref):
                continue        # a local array created inside the loop
            if v.base in seen:
                continue
            seen.add(v.base)
            ho = st.heap[v.base]
            shape = ho.shape
            if ho.kind == "dict":
                ho = self.dict_val_arr(st, v)
                st.heap[v.base] = ho.replace(arr=fresh("%s@%s" % (v.base, tag), ho.arr.sort()),
                                             dom=fresh("%s.dom@%s" % (v.base, tag), ho.dom.sort()))
                continue
            if ho.kind in ("list", "setlist"):
                n_ = fresh("%s.len@%s" % (v.base, tag), I)
                st.pc.append(n_ >= 0)
                shape = (n_,) + tuple(ho.shape[1:])
                if ho.elem is None:         # a list whose items are not modelled: only its length exists
                    st.heap[v.base] = ho.replace(shape=shape)
                    continue
            st.heap[v.base] = ho.replace(arr=fresh("%s@%s" % (v.base, tag), arr_sort(ho.elem, ho.ndim)), shape=shape)

    def loop_spec(self, node):
        k = self.loop_ord[id(node)]
        return k, (self.contract.loops or {}).get(k)

    def inv_terms(self, spec, st, extra_env=None, auto=None):
        out = []
        if auto is not None:
            out.append((auto[0], auto[1], auto[2](st)))
        st2 = st.fork()
        if extra_env:
            st2.env.update(extra_env)
        for name, src in spec.get("inv", {}).items():
            out.append((name, src, to_bool(self.evc(src, st2))))
        st.heap.update({k: v for k, v in st2.heap.items() if k.startswith("old:")})
        return out

    def st_While(self, s, st):
        if s.orelse:
            raise Unsupported("while-else")
        if self.concrete:
            return self.concrete_loop(s, st)
        k, spec = self.loop_spec(s)
        if spec is None:
            raise ContractError("while loop #%d (line %d) has no invariant in the sidecar" % (k, s.lineno))
        return self.cut_loop(s, st, k, spec, cond=lambda stt: to_bool(self.ev(s.test, stt)), body=s.body, step=None,
                             hidden={})

    def concrete_loop(self, s, st):
        out = []
        cur = [st]
        for _ in range(100000):
            nxt = []
            for c in cur:
                t = simp_bool(to_bool(self.ev(s.test, c)))
                if t is None:
                    raise Unsupported("symbolic loop condition in concrete mode")
                if not t:
                    out.append(("normal", c, None))
                    continue
                for kind, s2, val in self.run_block(s.body, c):
                    if kind in ("normal", "continue"):
                        nxt.append(s2)
                    elif kind == "break":
                        out.append(("normal", s2, None))
                    else:
                        out.append((kind, s2, val))
            cur = nxt
            if not cur:
                return out
        raise Unsupported("concrete loop did not finish")

    def cut_loop(self, s, st, k, spec, cond, body, step, hidden, auto=None, exit_cond=None, extra_bases=()):
        """Standard invariant cut.  hidden: env additions visible to invariants (e.g. the for-loop counter)."""
        fn = self.fn_key.split("::")[-1]
        tag = "L%d" % k
        # ghost snapshots taken at loop entry (visible to the invariants of this loop)
        for sname, ssrc in (spec.get("snap") or {}).items():
            v = self.evc(ssrc, st)
            if isinstance(v, Ref):
                ho = st.heap[v.base]
                st.env[sname] = self.new_array(st, "snap_" + sname, ho.elem, ho.ndim - len(v.prefix),
                                               shape=ho.shape[len(v.prefix):], arr=self.sel(st, v), kind=ho.kind)
            else:
                st.env[sname] = v
        # 1. establishment
        for name, src, t in self.inv_terms(spec, st, auto=auto):
            self.emit("%s.loop%d.inv.%s.establish" % (fn, k, name), "invariant-establish", st, t, s.lineno, note=src)
        # 2. havoc
        names, bases = self.modified_in(body, st)
        for h in hidden:
            names.add(h)
        bases |= set(extra_bases)
        head = st.fork()
        self.havoc(head, names, bases, tag)
        for name, src, t in self.inv_terms(spec, head, auto=auto):
            head.pc.append(t)
        out = []
        # 3. one arbitrary iteration
        it = head.fork()
        c = cond(it)
        it.pc.append(c)
        for hk, hsrc in enumerate((self.contract.hints or {}).get(k, [])):
            it.pc.append(self.hint_fact(hsrc, it, where="loop%d.hint" % k))
        var0 = None
        if spec.get("variant"):
            var0 = to_z3(self.evc(spec["variant"], it))
        for kind, s2, val in self.run_block(body, it):
            if kind in ("normal", "continue"):
                if step is not None:
                    step(s2)
                for name, src, t in self.inv_terms(spec, s2, auto=auto):
                    self.emit("%s.loop%d.inv.%s.preserve" % (fn, k, name), "invariant-preserve", s2, t, s.lineno, note=src)
                if var0 is not None:
                    var1 = to_z3(self.evc(spec["variant"], s2))
                    self.emit("%s.loop%d.variant" % (fn, k), "termination", s2, z3.And(var0 >= 0, var1 < var0), s.lineno,
                              note=spec["variant"])
            elif kind == "break":
                out.append(("normal", s2, None))
            else:
                out.append((kind, s2, val))
        # 4. exit
        ex = head.fork()
        ex.pc.append(exit_cond(ex) if exit_cond is not None else z3.Not(cond(ex)))
        out.append(("normal", ex, None))
        for hsrc in (getattr(self.contract, "exit_hints", None) or {}).get(k, []):
            for kind, s2, val in out:
                if kind == "normal":
                    s2.pc.append(self.hint_fact(hsrc, s2, where="loop%d.exit_hint" % k))
        # cut-point assertions right after the loop (proved on every normal exit, then assumed)
        for aname, asrc in (self.contract.after_loop or {}).get(k, {}).items():
            for kind, s2, val in out:
                if kind == "normal":
                    t = to_bool(self.evc(asrc, s2))
                    self.emit("%s.after_loop%d.%s" % (fn, k, aname), "assert", s2, t, s.lineno, note=asrc)
                    s2.pc.append(t)
        return out

    def st_For(self, s, st):
        if s.orelse:
            raise Unsupported("for-else")
        it = s.iter
        if isinstance(it, ast.Call) and isinstance(it.func, ast.Name) and it.func.id == "range" and "range" not in st.env:
            return self.for_range(s, st)
        k = self.loop_ord[id(s)]
        n_unroll = (getattr(self.contract, "unroll", None) or {}).get(k)
        if n_unroll is not None and isinstance(s.target, ast.Name):
            seq = self.ev(it, st)
            if isinstance(seq, Ref) and self.ref_ndim(st, seq) == 1:
                fn = self.fn_key.split("::")[-1]
                self.emit("%s.loop%d.unwind(%d)" % (fn, k, n_unroll), "unwinding", st, self.ref_len(st, seq) == n_unroll,
                          s.lineno, note="the loop runs exactly %d times" % n_unroll)
                out, cur = [], [st]
                for i in range(n_unroll):
                    nxt = []
                    for c in cur:
                        c.env[s.target.id] = self.sel(c, seq, [i])
                        for kind, s2, val in self.run_block(s.body, c):
                            if kind in ("normal", "continue"):
                                nxt.append(s2)
                            elif kind == "break":
                                out.append(("normal", s2, None))
                            else:
                                out.append((kind, s2, val))
                    cur = nxt
                out.extend(("normal", c, None) for c in cur)
                return out
        if isinstance(it, ast.Call) and isinstance(it.func, ast.Name) and \
                self.imports.get(it.func.id) == "itertools.combinations" and isinstance(s.target, ast.Tuple) \
                and len(s.target.elts) == 2 and len(it.args) == 2 and isinstance(it.args[1], ast.Constant) \
                and it.args[1].value == 2 and not self.concrete:
            seq = self.ev(it.args[0], st)
            if isinstance(seq, Ref) and self.is_set(st, seq):
                return self.for_pairs(s, st, seq)
        if isinstance(it, ast.Call) and isinstance(it.func, ast.Name) and it.func.id == "enumerate" and len(it.args) == 1 \
                and isinstance(s.target, ast.Tuple) and len(s.target.elts) == 2 \
                and all(isinstance(e, ast.Name) for e in s.target.elts) and "enumerate" not in st.env and not self.concrete:
            seq = self.ev(it.args[0], st)
            if isinstance(seq, Ref) and st.heap[seq.base].kind in ("setlist", "list") and not seq.prefix:
                return self.for_list(s, st, seq, index_name=s.target.elts[0].id, item_name=s.target.elts[1].id)
        if isinstance(it, ast.Call) and isinstance(it.func, ast.Attribute) and it.func.attr == "items" and not it.args \
                and isinstance(s.target, ast.Tuple) and len(s.target.elts) == 2 \
                and all(isinstance(e, ast.Name) for e in s.target.elts) and not self.concrete:
            d = self.ev(it.func.value, st)
            if isinstance(d, Ref) and st.heap[d.base].kind == "dict" and not d.prefix and st.heap[d.base].ndim == 1 \
                    and st.heap[d.base].arr is not None:
                return self.for_items(s, st, d)
        if isinstance(s.target, ast.Name) and not self.concrete:
            seq = self.ev(it, st)
            if isinstance(seq, PyObj) and seq.kind == "strlist":
                return self.for_opaque(s, st)
            if isinstance(seq, Ref) and self.is_set(st, seq):
                return self.for_set(s, st, seq)
            if isinstance(seq, Ref) and st.heap[seq.base].kind in ("setlist", "list") and not seq.prefix:
                return self.for_list(s, st, seq)
        raise Unsupported("for over %s at line %s" % (ast.dump(it)[:40], s.lineno))

    def for_opaque(self, s, st):
        """iteration over a finite list whose content is not modelled: the body is checked for one arbitrary item
        (safety, raises) from an arbitrary state of the variables it modifies; such a loop always terminates"""
        names, bases = self.modified_in(s.body, st)
        head = st.fork()
        self.havoc(head, {n_ for n_ in names if n_ in head.env and is_z3(head.env[n_]) or isinstance(head.env.get(n_), (int, bool))},
                   bases, "LO%d" % self.loop_ord[id(s)])
        out = []
        it = head.fork()
        it.env[s.target.id] = fresh(s.target.id, STR)
        for kind, s2, val in self.run_block(s.body, it):
            if kind in ("return", "raise"):
                out.append((kind, s2, val))
        ex = head.fork()
        ex.env[s.target.id] = PyObj("undefined")
        out.append(("normal", ex, None))
        return out

    def for_pairs(self, s, st, seq):
        """for a, b in combinations(S, 2): every unordered pair of distinct members exactly once, in some orientation
        and order; the ghost pair-set seen_pairs holds the pairs already visited (as yielded)"""
        from pyvc import externals
        externals.USED.add("itertools.combinations(set, 2): each unordered pair of distinct members once")
        k, spec = self.loop_spec(s)
        if spec is None:
            raise ContractError("for loop #%d (line %d) over pairs has no invariant in the sidecar" % (k, s.lineno))
        va, vb = s.target.elts[0].id, s.target.elts[1].id
        gname = "seen_pairs"
        empty = z3.K(I, z3.K(I, z3.BoolVal(False)))
        st.env[gname] = self.new_array(st, gname, "bool", 2, arr=empty, kind="pairset")
        gbase = st.env[gname].base
        sbase, sprefix = seq.base, seq.prefix

        def members(stt):
            return self.sel(stt, Ref(sbase, sprefix))

        def seen(stt, a, b):
            return z3.Select(z3.Select(stt.heap[gbase].arr, a), b)

        def cond(stt):
            a, b = fresh(va, I), fresh(vb, I)
            stt.env[va], stt.env[vb] = a, b
            m = members(stt)
            stt.pc.append(z3.And(z3.Select(m, a), z3.Select(m, b), a != b, z3.Not(seen(stt, a, b)), z3.Not(seen(stt, b, a))))
            return z3.BoolVal(True)

        def exit_cond(stt):
            a, b = z3.Int("pa!%d" % next(_fresh)), z3.Int("pb!%d" % next(_fresh))
            m = members(stt)
            return z3.ForAll([a, b], z3.Implies(z3.And(z3.Select(m, a), z3.Select(m, b), a != b),
                                                z3.Or(seen(stt, a, b), seen(stt, b, a))))

        def step(stt):
            ho = stt.heap[gbase]
            a, b = to_z3(stt.env[va]), to_z3(stt.env[vb])
            stt.heap[gbase] = ho.replace(arr=z3.Store(ho.arr, a, z3.Store(z3.Select(ho.arr, a), b, z3.BoolVal(True))))

        def auto(stt):
            a, b = z3.Int("pa!%d" % next(_fresh)), z3.Int("pb!%d" % next(_fresh))
            m = members(stt)
            return z3.ForAll([a, b], z3.Implies(seen(stt, a, b), z3.And(z3.Select(m, a), z3.Select(m, b), a != b)))
        res = self.cut_loop(s, st, k, spec, cond=cond, body=s.body, step=step, hidden={},
                            auto=("seen_pairs_members", "seen pairs are pairs of distinct members", auto),
                            exit_cond=exit_cond, extra_bases={gname})
        for kind, s2, val in res:
            if kind == "normal":
                s2.env[va] = s2.env[vb] = PyObj("undefined")
        return res

    def for_list(self, s, st, seq, index_name=None, item_name=None):
        """iteration over a list, in order; the ghost idx_<var> is the index of the current item
        (`for i, v in enumerate(seq)`: i is that index)"""
        k, spec = self.loop_spec(s)
        if spec is None:
            raise ContractError("for loop #%d (line %d) over a list has no invariant in the sidecar" % (k, s.lineno))
        v = item_name or s.target.id
        g = "idx_" + v
        st.env[g] = z3.IntVal(0)
        base = seq.base

        def bind(stt):
            i = to_z3(stt.env[g])
            ho = stt.heap[base]
            stt.env[v] = Ref(base, (i,)) if ho.ndim > 1 else z3.Select(ho.arr, i)
            if index_name is not None:
                stt.env[index_name] = i

        def cond(stt):
            bind(stt)
            return to_z3(stt.env[g]) < stt.heap[base].shape[0]

        def step(stt):
            stt.env[g] = to_z3(stt.env[g]) + 1
        auto = lambda stt: z3.And(0 <= to_z3(stt.env[g]), to_z3(stt.env[g]) <= stt.heap[base].shape[0])     # noqa: E731
        res = self.cut_loop(s, st, k, spec, cond=cond, body=s.body, step=step, hidden={g: True},
                            auto=("index", "0 <= idx <= len", auto))
        for kind, s2, val in res:
            if kind == "normal":
                s2.env[v] = PyObj("undefined")
        return res

    def is_set(self, st, ref):
        ho = st.heap[ref.base]
        return (ho.kind == "set" and not ref.prefix) or (ho.kind == "setlist" and len(ref.prefix) == 1)

    def for_set(self, s, st, seq):
        """iteration over a set in an arbitrary order; the ghost set seen_<var> holds the elements already visited"""
        k, spec = self.loop_spec(s)
        if spec is None:
            raise ContractError("for loop #%d (line %d) over a set has no invariant in the sidecar" % (k, s.lineno))
        v = s.target.id
        gname = "seen_" + v
        empty = z3.K(I, z3.BoolVal(False))
        st.env[gname] = self.new_array(st, gname, "bool", 1, arr=empty, kind="set")
        gbase = st.env[gname].base
        seq_prefix, seq_base = seq.prefix, seq.base

        def members(stt):
            return self.sel(stt, Ref(seq_base, seq_prefix))

        def cond(stt):
            # an unvisited member remains: the loop variable is bound to an arbitrary such member
            x = fresh(v, I)
            stt.env[v] = x
            stt.pc.append(z3.Select(members(stt), x))
            stt.pc.append(z3.Not(z3.Select(stt.heap[gbase].arr, x)))
            return z3.BoolVal(True)

        def exit_cond(stt):
            j = z3.Int("sj!%d" % next(_fresh))
            return z3.ForAll([j], z3.Implies(z3.Select(members(stt), j), z3.Select(stt.heap[gbase].arr, j)))

        def step(stt):
            ho = stt.heap[gbase]
            stt.heap[gbase] = ho.replace(arr=z3.Store(ho.arr, to_z3(stt.env[v]), z3.BoolVal(True)))

        def auto(stt):
            j = z3.Int("sj!%d" % next(_fresh))
            return z3.ForAll([j], z3.Implies(z3.Select(stt.heap[gbase].arr, j), z3.Select(members(stt), j)))
        res = self.cut_loop(s, st, k, spec, cond=cond, body=s.body, step=step, hidden={},
                            auto=("seen_subset", "seen ⊆ set", auto), exit_cond=exit_cond, extra_bases={gname})
        for kind, s2, val in res:
            if kind == "normal":
                s2.env[v] = PyObj("undefined")
        return res

    def for_items(self, s, st, d):
        """`for k, v in d.items()`: the keys in an arbitrary order (as for sets, ghost seen_<k>), v = d[k]"""
        k, spec = self.loop_spec(s)
        if spec is None:
            raise ContractError("for loop #%d (line %d) over dict items has no invariant in the sidecar" % (k, s.lineno))
        kv, vv = s.target.elts[0].id, s.target.elts[1].id
        gname = "seen_" + kv
        st.env[gname] = self.new_array(st, gname, "bool", 1, arr=z3.K(I, z3.BoolVal(False)), kind="set")
        gbase, dbase = st.env[gname].base, d.base
        from pyvc import externals
        externals.USED.add("dict.items(): every key once, in an arbitrary order, with its value")

        def cond(stt):
            x = fresh(kv, I)
            stt.env[kv] = x
            stt.env[vv] = z3.Select(stt.heap[dbase].arr, x)
            stt.pc.append(z3.Select(stt.heap[dbase].dom, x))
            stt.pc.append(z3.Not(z3.Select(stt.heap[gbase].arr, x)))
            return z3.BoolVal(True)

        def exit_cond(stt):
            j = z3.Int("dj!%d" % next(_fresh))
            return z3.ForAll([j], z3.Implies(z3.Select(stt.heap[dbase].dom, j), z3.Select(stt.heap[gbase].arr, j)))

        def step(stt):
            ho = stt.heap[gbase]
            stt.heap[gbase] = ho.replace(arr=z3.Store(ho.arr, to_z3(stt.env[kv]), z3.BoolVal(True)))

        def auto(stt):
            j = z3.Int("dj!%d" % next(_fresh))
            return z3.ForAll([j], z3.Implies(z3.Select(stt.heap[gbase].arr, j), z3.Select(stt.heap[dbase].dom, j)))
        res = self.cut_loop(s, st, k, spec, cond=cond, body=s.body, step=step, hidden={},
                            auto=("seen_subset", "seen ⊆ keys", auto), exit_cond=exit_cond, extra_bases={gname})
        for kind, s2, val in res:
            if kind == "normal":
                s2.env[kv] = PyObj("undefined")
                s2.env[vv] = PyObj("undefined")
        return res

    def for_range(self, s, st):
        if not isinstance(s.target, ast.Name):
            raise Unsupported("for target")
        v = s.target.id
        args = [self.ev(a, st) for a in s.iter.args]
        if len(args) == 1:
            lo, hi = 0, args[0]
        elif len(args) == 2:
            lo, hi = args
        else:
            raise Unsupported("range with step")
        for n in ast.walk(ast.Module(body=s.body, type_ignores=[])):
            if isinstance(n, (ast.Assign, ast.AugAssign)):
                ts = n.targets if isinstance(n, ast.Assign) else [n.target]
                for t in ts:
                    if isinstance(t, ast.Name) and t.id == v:
                        raise Unsupported("loop variable assigned in body")
        k, spec = self.loop_spec(s)
        lo_s, hi_s = z3.simplify(to_z3(lo)), z3.simplify(to_z3(hi))
        concrete_bounds = z3.is_int_value(lo_s) and z3.is_int_value(hi_s)
        if self.concrete or (spec is None and concrete_bounds and hi_s.as_long() - lo_s.as_long() <= 12):
            if not concrete_bounds:
                raise Unsupported("symbolic range in concrete mode")
            out, cur = [], [st]
            for i in range(lo_s.as_long(), hi_s.as_long()):
                nxt = []
                for c in cur:
                    c.env[v] = i
                    for kind, s2, val in self.run_block(s.body, c):
                        if kind in ("normal", "continue"):
                            nxt.append(s2)
                        elif kind == "break":
                            out.append(("normal", s2, None))
                        else:
                            out.append((kind, s2, val))
                cur = nxt
            out.extend(("normal", c, None) for c in cur)
            return out
        if spec is None:
            raise ContractError("for loop #%d (line %d) has no invariant in the sidecar" % (k, s.lineno))
        zlo, zhi = to_z3(lo), to_z3(hi)
        top = z3.If(zhi >= zlo, zhi, zlo)
        st.env[v] = zlo
        spec2 = dict(spec)
        inv = dict(spec.get("inv", {}))
        spec2["inv"] = inv
        auto = lambda stt: z3.And(zlo <= to_z3(stt.env[v]), to_z3(stt.env[v]) <= top)   # noqa: E731

        def step(stt):
            stt.env[v] = to_z3(stt.env[v]) + 1
        res = self.cut_loop(s, st, k, spec2, cond=lambda stt: to_z3(stt.env[v]) < zhi, body=s.body, step=step,
                            hidden={v: True}, auto=("range", "range(%s)" % v, auto))
        # after the loop Python leaves v at its last value, not at the exit counter: forbid its use
        for kind, s2, val in res:
            if kind == "normal":
                s2.env[v] = PyObj("undefined")
        return res

    # ---- whole function ---------------------------------------------------------------------------------------------
    def run_function(self):
        c = self.contract
        st = State()
        params = [a.arg for a in self.fndef.args.args]
        frag = getattr(c, "fragment", None)
        if frag is None and params != c.param_names:
            raise ContractError("parameter list changed: code %s, contract %s" % (params, c.param_names))
        inputs = {}
        for p in list(c.params) + list(c.ghost):
            ty = c.params.get(p) or c.ghost[p]
            if ty.kind == "obj":
                st.env[p] = PyObj("object", p)
                continue
            if ty.kind == "str":
                st.env[p] = z3.Const("in_" + p, STR)
                continue
            if p in (c.fixed or {}):
                st.env[p] = c.fixed[p]
                continue
            if ty.kind == "intdict":
                base = "in_%s#%d" % (p, next(_fresh))
                st.heap[base] = HeapObj(z3.Const(base, arr_sort(ty.elem, 1)), [z3.IntVal(0)], ty.elem, 1, "dict",
                                        dom=z3.Const(base + ".dom", z3.ArraySort(I, B)))
                st.env[p] = Ref(base)
                continue
            if ty.kind == "rowdict":
                base = "in_%s#%d" % (p, next(_fresh))
                st.heap[base] = HeapObj(z3.Const(base, arr_sort(ty.elem, 2)), [z3.IntVal(0), z3.IntVal(ty.width)], ty.elem, 2,
                                        "dict", dom=z3.Const(base + ".dom", z3.ArraySort(I, B)))
                st.env[p] = Ref(base)
                continue
            if ty.kind in ("arr", "list", "set", "setlist", "pairset"):
                ref = self.new_array(st, "in_" + p, ty.elem, ty.ndim, kind=ty.kind)
                st.env[p] = ref
                inputs[p] = ("arr", ref.base, ty)
            else:
                z = z3.Const("in_" + p, zsort(ty.kind))
                st.env[p] = z
                inputs[p] = ("scalar", z, ty)
        for key, ty in (c.fields or {}).items():
            if ty.kind == "obj":
                st.env[key] = PyObj("object", key)
            elif ty.kind == "intdict":
                base = "in_%s#%d" % (key, next(_fresh))
                st.heap[base] = HeapObj(z3.Const(base, arr_sort(ty.elem, 1)), [z3.IntVal(0)], ty.elem, 1, "dict",
                                        dom=z3.Const(base + ".dom", z3.ArraySort(I, B)))
                st.env[key] = Ref(base)
            elif ty.kind in ("arr", "list"):
                ref = self.new_array(st, "in_" + key, ty.elem, ty.ndim, kind=ty.kind)
                st.env[key] = ref
                inputs[key] = ("arr", ref.base, ty)
            else:
                z = z3.Const("in_" + key, zsort(ty.kind))
                st.env[key] = z
                inputs[key] = ("scalar", z, ty)
        self.inputs = inputs
        self.entry_heap = dict(st.heap)
        self.requires_ids = {}
        for name, src in c.requires.items():
            t_ = to_bool(self.evc(src, st))
            self.requires_ids[name] = t_.get_id()
            st.pc.append(t_)
        for d in (getattr(c, "opaque_calls", None) or {}).values():
            if d.get("below_inf"):
                xs = [z3.Int("u!q%d" % i) for i in range(len(d["args"]))]
                app = self.ufs[d["fn"]](*xs)
                st.pc.append(z3.ForAll(xs, app < PY_INF, patterns=[app]))       # results are finite floats
        self.requires_terms = list(st.pc)
        for gv, src in (c.ghost_vars or {}).items():
            v = self.evc(src, st)
            if isinstance(v, Ref):
                ho = st.heap[v.base]
                st.env[gv] = self.new_array(st, "ghost_" + gv, ho.elem, ho.ndim, shape=ho.shape, arr=self.sel(st, v))
            else:
                st.env[gv] = v
        for hsrc in getattr(c, "entry_hints", None) or []:
            st.pc.append(self.hint_fact(hsrc, st, where="entry_hint"))
        entry = State(dict(st.env), dict(st.heap), list(st.pc), None)
        st.old = entry
        body = self.fndef.body
        if frag is not None and "body_of_loop" in frag:
            # the body of the k-th loop of the function (pre-order), as a straight block: one arbitrary iteration
            tgt = [n for n in self._preorder(self.fndef) if isinstance(n, (ast.While, ast.For))]
            if frag["body_of_loop"] > len(tgt):
                raise ContractError("fragment: the function has no loop #%d" % frag["body_of_loop"])
            body = tgt[frag["body_of_loop"] - 1].body
        elif frag is not None and "head" in frag:
            while body and isinstance(body[0], ast.Expr) and isinstance(body[0].value, ast.Constant):
                body = body[1:]
            if frag["head"] == "guard":
                # the refusal guard: everything up to and including the first top-level statement that can raise
                # (robust against declarations / comments added in front of it)
                at = next((i for i, n_ in enumerate(body) if any(isinstance(x, ast.Raise) for x in ast.walk(n_))), None)
                if at is None:
                    raise ContractError("fragment: the function has no statement that raises")
                body = body[:at + 1]
            else:
                if frag["head"] > len(body):
                    raise ContractError("fragment: the function has fewer than %d statements" % frag["head"])
                body = body[:frag["head"]]
        elif frag is not None:
            loops = [n for n in body if isinstance(n, (ast.While, ast.For))]
            if frag["loop"] > len(loops):
                raise ContractError("fragment: the function has no top-level loop #%d" % frag["loop"])
            at = body.index(loops[frag["loop"] - 1])
            npre = frag.get("prelude", 0)       # the statements right before the loop that belong to the fragment
            if npre > at:
                raise ContractError("fragment: fewer than %d statements precede the loop" % npre)
            body = body[at - npre:at + 1]
        outcomes = self.run_block(body, st)
        fn = self.fn_key.split("::")[-1]
        nret = 0
        for kind, s2, val in outcomes:
            if kind in ("break", "continue"):
                raise Unsupported("break/continue outside loop")
            if kind == "raise":
                exc = val.val
                allowed = c.raises or {}
                if exc in (getattr(c, "may_raise", None) or []):
                    continue
                if exc in allowed:
                    s3 = s2.fork()
                    s3.old = entry
                    cond = to_bool(self.evc(allowed[exc], State(dict(entry.env), s3.heap, s3.pc, None)))
                    self.emit("%s.raises.%s.only_when" % (fn, exc), "postcondition", s3, cond, note=allowed[exc])
                else:
                    self.emit("%s.no_raise(%s)" % (fn, exc), "postcondition", s2, z3.BoolVal(False),
                              note="path raises %s, which the contract does not allow" % exc)
                continue
            nret += 1
            s2.old = entry
            post = s2.fork()
            # parameters keep their names; `result` is the returned value
            if not (isinstance(val, PyObj) and val.kind == "none"):
                post.env["result"] = val
            elif val is None:
                pass
            # raising conditions: on a normal return none of the raise conditions may hold (iff)
            for exc, src in (c.raises or {}).items():
                cond = to_bool(self.evc(src, State(dict(entry.env), post.heap, post.pc, None)))
                self.emit("%s.raises.%s.whenever" % (fn, exc), "postcondition", post, z3.Not(cond), note=src)
            for name, src in c.ensures.items():
                p2 = post.fork()
                p2.old = entry
                # parameters in postconditions denote their ENTRY values for scalars, current heap for arrays
                # (fragments: the live-in variables are ordinary variables, they denote their current values and
                # old(x) their values at the entry of the fragment)
                for p in c.param_names:
                    if frag is None and (not isinstance(entry.env[p], (Ref, PyObj)) or p in (c.fixed or {})):
                        p2.env[p] = entry.env[p]
                goal = to_bool(self.evc(src, p2))
                self.emit("%s.ensures.%s" % (fn, name), "postcondition", p2, goal, note=src)
            # frame: arrays not listed in modifies are unchanged
            for p, (k_, base, ty) in inputs.items():
                if k_ == "arr" and p not in c.modifies and p in c.params:
                    if not post.heap[base].arr.eq(entry.heap[base].arr):
                        self.emit("%s.frame.%s" % (fn, p), "frame", post, post.heap[base].arr == entry.heap[base].arr,
                                  note="%s is not in modifies" % p)
        self.nreturns = nret
        return self.vcs


_parse_cache = {}


def parse_expr(src):
    if src not in _parse_cache:
        _parse_cache[src] = ast.parse(src.strip(), mode="eval").body
    return _parse_cache[src]

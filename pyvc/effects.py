"""pyvc.effects — syntactic frame obligations over the whole package (property C15, also C01/C02 history-independence).

Obligation, per function of /repo/corankco:  *no statement mutates an object that is reachable from an input value*
(a parameter holding a dataset / scoring scheme / ranking, or `self` inside a non-mutator method of the value classes
Dataset, Ranking, ScoringScheme, Element).  "Reachable" is a syntactic may-alias (taint) analysis: attributes, subscripts,
iteration variables and results of non-allocating calls of a tainted value are tainted; results of constructors,
comprehensions, copies and of the accessors documented to allocate (get_positions, get_bucket_ids, unified_rankings, ...)
are fresh.  Mutations: attribute / subscript stores, augmented assignments to tainted names (in-place for sets, lists,
arrays) and calls of mutating methods.

Verdicts: `discharged` (no such statement) or `undecided` (a may-mutation site was found: the bounded tier decides —
this analysis over-approximates, so a finding here is never reported as a violation on its own).
"""
import ast
import os

VALUE_CLASSES = {"Dataset", "Ranking", "ScoringScheme", "Element", "KemenyComputingFactory", "OrderedPartition", "Consensus"}
# algorithm classes: an algorithm object is a configuration (constructor arguments); computing a consensus, answering the
# applicability predicate or naming itself does not write to it, so that what it answers cannot depend on earlier calls
ALGORITHM_CLASSES = {"BioCo", "BioConsert", "BordaCount", "CopelandMethod", "ExactAlgorithm", "ExactAlgorithmBase",
                     "ExactAlgorithmCplex", "ExactAlgorithmCplexForPaperOptim1", "ExactAlgorithmPulp", "KwikSortAbs",
                     "KwikSortRandom", "PairwiseBasedAlgorithm", "ParCons", "PickAPerm", "RankAggAlgorithm"}
MUTATORS = {"__init__", "remove_empty_rankings", "remove_elements", "remove_elements_rate_presence_lower_than",
            "_analyse_rankings", "name"}
WATCH = {"dataset", "scoring_scheme", "ranking", "rankings", "input_ranking", "ranking_consensus", "r_input", "other",
         "dataset_to_consider", "list_datasets", "penalties", "buckets", "elements_to_keep",
         "elements_to_remove", "id_elements_to_keep", "new_dataset", "sub_problem"}
# functions whose declared purpose is to modify an argument (their sidecar contract lists it under `modifies`)
DECLARED_MODIFIES = {
    "corankco/ranking.py::Ranking.__add_left": "ranking is the generator's own working vector (contract: modifies=[ranking])",
    "corankco/ranking.py::Ranking.__add_right": "same", "corankco/ranking.py::Ranking.__change_left": "same",
    "corankco/ranking.py::Ranking.__change_right": "same", "corankco/ranking.py::Ranking.__remove_element": "same",
    "corankco/ranking.py::Ranking.__put_element_first": "same",
    "corankco/consensus.py::Consensus.__calculate_score": "memoises the score in the object's own feature dict (lazy "
                                                          "evaluation is the documented behaviour of kemeny_score)",
}
MUTATING_METHODS = {"append", "add", "pop", "clear", "update", "remove", "sort", "fill", "extend", "insert", "discard",
                    "intersection_update", "difference_update", "symmetric_difference_update", "setdefault", "popitem",
                    "reverse", "put", "itemset", "resize"}
FRESH_CALLS = {"set", "list", "dict", "tuple", "frozenset", "sorted", "str", "int", "float", "len", "zeros", "ones", "full",
               "asarray", "array", "deepcopy", "copy", "enumerate", "zip", "range", "combinations", "groupby", "Counter",
               "vstack", "column_stack", "where", "argsort", "cumsum", "concatenate", "sort", "amin", "count_nonzero",
               "vdot", "shape", "isinstance", "any", "all", "min", "max", "sum", "abs", "repr", "name_file", "print",
               "iter", "reversed", "map", "filter", "join"}
FRESH_METHODS = {"deepcopy", "get_positions", "get_bucket_ids", "unified_rankings", "unified_dataset", "sub_problem_from_elements",
                 "sub_problem_from_ids", "copy", "flatten", "transpose", "tolist", "intersection", "union", "difference",
                 "keys", "values", "items", "get", "strip", "split", "replace", "format", "description", "get_nickname",
                 "get_full_name", "compute_consensus_rankings", "get_kemeny_score", "components", "is_equivalent_to",
                 "is_equivalent_to_on_complete_rankings_only", "can_be_int", "isdigit", "reshape", "astype", "find",
                 "rfind", "startswith", "endswith", "value", "__mul__", "is_scoring_scheme_relevant_when_incomplete_rankings",
                 "pairwise_cost_matrix", "graph_of_elements", "graph_of_elements_with_robust_arcs", "which_index_is",
                 "topk_ranking", "issuperset", "issubset", "join", "lower", "upper", "index", "count"}
# accessors returning scalars / immutables: their result carries no mutable input state
SCALAR_ATTRS = {"nb_elements", "nb_rankings", "is_complete", "without_ties", "name", "type", "value", "kemeny_score",
                "necessarily_optimal", "nb_consensus", "shape", "size", "_type", "_value", "_name", "_is_complete",
                "_without_ties"}


class FnEffects(ast.NodeVisitor):
    def __init__(self, fn, cls):
        self.fn, self.cls = fn, cls
        self.tainted = set()
        self.sites = []
        params = [a.arg for a in fn.args.args + fn.args.kwonlyargs]
        for p in params:
            if p in WATCH:
                self.tainted.add(p)
        is_setter = any(isinstance(d, ast.Attribute) and d.attr == "setter" for d in fn.decorator_list)
        if (cls in VALUE_CLASSES or cls in ALGORITHM_CLASSES) and params[:1] == ["self"] and fn.name not in MUTATORS \
                and not is_setter:
            self.tainted.add("self")

    # ---- taint of an expression
    def is_tainted(self, e):
        if isinstance(e, ast.Name):
            return e.id in self.tainted
        if isinstance(e, ast.Attribute):
            if e.attr in SCALAR_ATTRS:
                return False
            return self.is_tainted(e.value)
        if isinstance(e, ast.Subscript):
            return self.is_tainted(e.value)
        if isinstance(e, ast.Starred):
            return self.is_tainted(e.value)
        if isinstance(e, ast.IfExp):
            return self.is_tainted(e.body) or self.is_tainted(e.orelse)
        if isinstance(e, ast.Call):
            f = e.func
            if isinstance(f, ast.Name):
                if f.id in FRESH_CALLS or f.id[:1].isupper():
                    return False
                return any(self.is_tainted(a) for a in e.args)      # unknown function: may return its argument
            if isinstance(f, ast.Attribute):
                if f.attr in FRESH_METHODS or f.attr[:1].isupper():
                    return False
                return self.is_tainted(f.value) or any(self.is_tainted(a) for a in e.args)
            return True
        if isinstance(e, ast.Tuple):
            return any(self.is_tainted(x) for x in e.elts)
        return False        # constants, comprehensions, arithmetic, comparisons: fresh values

    def bind(self, target, tainted):
        if isinstance(target, ast.Name):
            if tainted:
                self.tainted.add(target.id)
            else:
                self.tainted.discard(target.id)
        elif isinstance(target, (ast.Tuple, ast.List)):
            for t in target.elts:
                self.bind(t, tainted)

    def site(self, node, what):
        self.sites.append("L%d: %s  [%s]" % (node.lineno - self.fn.lineno, ast.unparse(node)[:90], what))

    # ---- statements
    def visit_Assign(self, node):
        for t in node.targets:
            if isinstance(t, (ast.Attribute, ast.Subscript)) and self.is_tainted(t.value):
                self.site(node, "store into an input-reachable object")
        t_val = self.is_tainted(node.value)
        for t in node.targets:
            self.bind(t, t_val)
        self.generic_visit(node)

    def visit_AnnAssign(self, node):
        if node.value is not None:
            if isinstance(node.target, (ast.Attribute, ast.Subscript)) and self.is_tainted(node.target.value):
                self.site(node, "store into an input-reachable object")
            self.bind(node.target, self.is_tainted(node.value))
        self.generic_visit(node)

    def visit_AugAssign(self, node):
        t = node.target
        if isinstance(t, (ast.Attribute, ast.Subscript)) and self.is_tainted(t.value):
            self.site(node, "augmented store into an input-reachable object")
        elif isinstance(t, ast.Name) and t.id in self.tainted:
            self.site(node, "in-place operator on an input-reachable object")
        self.generic_visit(node)

    def visit_For(self, node):
        self.bind(node.target, self.is_tainted(node.iter))
        self.generic_visit(node)

    def visit_comprehension(self, node):
        self.bind(node.target, self.is_tainted(node.iter))
        self.generic_visit(node)

    def visit_With(self, node):
        self.generic_visit(node)

    def visit_Call(self, node):
        f = node.func
        if isinstance(f, ast.Attribute) and f.attr in MUTATING_METHODS and self.is_tainted(f.value):
            self.site(node, "mutating method on an input-reachable object")
        self.generic_visit(node)

    def visit_Delete(self, node):
        for t in node.targets:
            if isinstance(t, (ast.Attribute, ast.Subscript)) and self.is_tainted(t.value):
                self.site(node, "del on an input-reachable object")

    def visit_FunctionDef(self, node):
        if node is self.fn:
            self.generic_visit(node)
        # nested functions are analysed with the enclosing taint set
        else:
            self.generic_visit(node)

    visit_Lambda = ast.NodeVisitor.generic_visit


def analyse_repo(repo):
    """returns list of (relpath::qualname, sites)"""
    out = []
    root = os.path.join(repo, "corankco")
    for dirpath, _dirs, files in os.walk(root):
        for fn in sorted(files):
            if not fn.endswith(".py"):
                continue
            path = os.path.join(dirpath, fn)
            rel = os.path.relpath(path, repo)
            try:
                tree = ast.parse(open(path, encoding="utf-8").read())
            except SyntaxError:
                continue

            def walk(body, cls, prefix):
                for n in body:
                    if isinstance(n, ast.ClassDef):
                        walk(n.body, n.name, prefix + n.name + ".")
                    elif isinstance(n, ast.FunctionDef):
                        fe = FnEffects(n, cls)
                        # two passes so that taint flowing backwards through loops is seen
                        fe.visit(n)
                        fe.sites = []
                        fe.visit(n)
                        out.append(("%s::%s%s" % (rel, prefix, n.name), sorted(set(fe.sites)), bool(fe.tainted)))
            walk(tree.body, None, "")
    return out


# which functions' frame obligations serve which property
PROP_FILTER = {
    "C15": lambda key: True,
    "C01": lambda key: "kemeny_score_computation.py" in key,
    "C02": lambda key: "pairwisebasedalgorithm.py" in key or key.endswith("Dataset.get_positions")
    or key.endswith("Dataset.get_bucket_ids"),
    "C16": lambda key: ("dataset.py::Dataset." in key or "ranking.py::Ranking." in key or "element.py" in key),
    # asking a partition (consistent_with, accessors, printing) leaves it as it was
    "C07": lambda key: "ordered_partition.py::OrderedPartition." in key,
    # an algorithm object is not written to by the calls that use it (no state carried from one call to the next)
    "C03": lambda key: "/algorithms/" in key,
    "C04": lambda key: "/algorithms/" in key or "consensus.py" in key,
    "C05": lambda key: "/algorithms/exact/" in key,
    "C06": lambda key: "/algorithms/parcons/" in key or "ordered_partition.py" in key,
    "C08": lambda key: "/algorithms/bioconsert/" in key,
    "C09": lambda key: "/algorithms/bioconsert/" in key,
    "C10": lambda key: "/algorithms/pickaperm/" in key,
    "C11": lambda key: "/algorithms/kwiksort/" in key,
    "C12": lambda key: "/algorithms/borda/" in key,
    "C13": lambda key: "/algorithms/copeland/" in key,
    "C14": lambda key: "/algorithms/" in key and "is_scoring_scheme_relevant" in key,
}


def obligations(repo, prop=None):
    res = []
    for key, sites, watched in analyse_repo(repo):
        if not watched:
            continue
        if prop is not None and not PROP_FILTER.get(prop, lambda k: False)(key):
            continue
        if key in DECLARED_MODIFIES:
            sites = []
        res.append({"name": "frame(%s)" % key, "kind": "frame-effect", "function": key, "paths": 1,
                    "status": "discharged" if not sites else "undecided", "solver": "ast-effect-analysis", "time_s": 0.0,
                    "note": "no statement mutates an input-reachable object" if not sites else "; ".join(sites)[:600],
                    "reason": "" if not sites else "may-mutation site(s): " + "; ".join(sites)[:600]})
    return res


if __name__ == "__main__":
    import sys
    for o in obligations(sys.argv[1] if len(sys.argv) > 1 else "/repo"):
        if o["status"] != "discharged":
            print(o["name"], "::", o["reason"])
    print(len(obligations(sys.argv[1] if len(sys.argv) > 1 else "/repo")), "functions with watched inputs")


# ---------------------------------------------------------------------------------------------------------------------
# call-arity obligations (C14.arity): every call `x.<name>(...)` of a method name that has ONE signature shape across
# all its definitions in the package passes a matching number of arguments.
ARITY_NAMES = {"is_scoring_scheme_relevant_when_incomplete_rankings": ["C14"],
               "compute_consensus_rankings": ["C14", "C03"], "get_kemeny_score": ["C01"],
               "sub_problem_from_elements": ["C16"], "sub_problem_from_ids": ["C16"]}


def _signature(fn):
    a = fn.args
    names = [x.arg for x in a.args]
    if names[:1] in (["self"], ["cls"]):
        names = names[1:]
    nreq = len(names) - len(a.defaults)
    return (nreq, len(names), tuple(names), a.vararg is not None, a.kwarg is not None)


def arity_obligations(repo, prop=None):
    defs, calls = {}, []
    root = os.path.join(repo, "corankco")
    for dirpath, _dirs, files in os.walk(root):
        for fn in sorted(files):
            if not fn.endswith(".py"):
                continue
            path = os.path.join(dirpath, fn)
            rel = os.path.relpath(path, repo)
            try:
                tree = ast.parse(open(path, encoding="utf-8").read())
            except SyntaxError:
                continue
            for node in ast.walk(tree):
                if isinstance(node, ast.ClassDef):
                    for m in node.body:
                        if isinstance(m, ast.FunctionDef) and m.name in ARITY_NAMES:
                            defs.setdefault(m.name, []).append(("%s::%s.%s" % (rel, node.name, m.name), _signature(m)))
                if isinstance(node, ast.Call) and isinstance(node.func, ast.Attribute) and node.func.attr in ARITY_NAMES:
                    calls.append((rel, node))
    out = []
    for rel, node in calls:
        name = node.func.attr
        if prop is not None and prop not in ARITY_NAMES[name]:
            continue
        sigs = {s[1][:2] + (s[1][3], s[1][4]) for s in defs.get(name, [])}
        oname = "arity(%s.%s @ %s:+%d)" % (ast.unparse(node.func.value)[:30], name, rel, node.lineno)
        rec = {"name": oname, "kind": "call-arity", "function": rel, "paths": 1, "solver": "ast-signature-check",
               "time_s": 0.0, "note": ast.unparse(node)[:120]}
        if len(sigs) != 1 or any(isinstance(a, ast.Starred) for a in node.args) or any(k.arg is None for k in node.keywords):
            rec.update(status="undecided", reason="several signature shapes or a starred call: not decided syntactically")
        else:
            nreq, nmax, var, kw = next(iter(sigs))
            params = defs[name][0][1][2]
            npos = len(node.args)
            kws = [k.arg for k in node.keywords]
            given = set(params[:npos]) | set(kws)
            ok = (npos <= nmax or var) and all(k in params or kw for k in kws) and all(p in given for p in params[:nreq]) \
                and len(set(params[:npos]) & set(kws)) == 0
            rec.update(status="discharged" if ok else "refuted",
                       reason="" if ok else "call passes %d positional %s keyword arguments; every definition takes %s"
                       % (npos, kws, list(params)))
        out.append(rec)
    return out

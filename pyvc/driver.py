"""pyvc.driver — per-property T1 run: extract, generate VCs, discharge, guards, verdicts."""
import importlib
import json
import os
import pkgutil
import time
import traceback

import z3

from pyvc import dsl, extract, solve, sx, externals

REPO = os.environ.get("CORANKCO_REPO", "/repo")
Z3_MS = int(os.environ.get("PYVC_Z3_MS", "20000"))
CVC5_MS = int(os.environ.get("PYVC_CVC5_MS", "30000"))
PRUNED_MS = int(os.environ.get("PYVC_PRUNED_MS", "6000"))     # budget of the first attempt (relevant hypotheses only)


def load_registry():
    reg = dsl.Registry()
    import contracts
    for m in sorted(pkgutil.iter_modules(contracts.__path__), key=lambda m: m.name):
        mod = importlib.import_module("contracts." + m.name)
        if hasattr(mod, "register"):
            mod.register(reg)
    return reg


def props_of_obligation(contract, oname):
    for prefix, props in contract.obligations_for.items():
        if prefix in oname:
            return props
    return contract.props


def lemma_formula(eng, reg, lm, env_override=None, for_use=False):
    """the lemma statement as a closed, universally quantified formula"""
    st = sx.State()
    vs = []
    for p, ty in lm.params.items():
        if ty.kind in ("arr", "list", "set", "setlist", "pairset"):
            v = z3.Const("lm!%s!%s" % (lm.name, p), sx.arr_sort(ty.elem, ty.ndim))
            base = "lm:%s:%s" % (lm.name, p)
            st.heap[base] = sx.HeapObj(v, [z3.Int("lmlen!%s!%s!%d" % (lm.name, p, d)) for d in range(ty.ndim)],
                                       ty.elem, ty.ndim)
            st.env[p] = sx.Ref(base)
        else:
            v = z3.Const("lm!%s!%s" % (lm.name, p), sx.zsort(ty.kind))
            st.env[p] = v
        vs.append(v)
    if env_override:
        st.env.update(env_override)
    hyps = [sx.to_bool(eng.evc(src, st)) for src in lm.requires.values()]
    ivars, irng = [], []
    for iv, (lo, hi) in lm.intro.items():
        x = z3.Int("lm!%s!%s" % (lm.name, iv))
        st.env[iv] = x
        ivars.append(x)
        irng.append(z3.And(sx.to_z3(eng.evc(lo, st)) <= x, x < sx.to_z3(eng.evc(hi, st))))
    body = sx.to_bool(eng.evc(lm.statement, st))
    if ivars:
        if for_use:
            body = z3.ForAll(ivars, z3.Implies(z3.And(*irng), body))
        else:       # proof: an arbitrary value in the range
            hyps = hyps + irng
    return vs, st, hyps, body


def lemma_vcs(reg, lm):
    sx._fresh.reset()
    eng = sx.Engine("lemma::" + lm.name, _dummy_fn(), {}, None, reg, reg.specs)
    vcs = []
    vs, st, hyps, body = lemma_formula(eng, reg, lm)
    prior = [lemma_as_axiom(reg, other) for other in lm.use_lemmas]

    def with_hints(hint_srcs, ctx_hyps, env):
        """evaluate lemma calls under the given hypotheses: their preconditions become VCs, their statements facts"""
        hst = sx.State(dict(env), dict(st.heap), list(ctx_hyps), None)
        facts = []
        eng.vcs = []
        for h in hint_srcs:
            hn = sx.parse_expr(h)
            import ast as _ast
            if isinstance(hn, _ast.Call) and isinstance(hn.func, _ast.Name) and hn.func.id == lm.name:
                # a call of the lemma inside its own proof is the induction hypothesis: only at the current value
                # of the induction variable (the statement is being proved at that value + 1)
                pos = list(lm.params).index(lm.induction) if lm.induction else -1
                ok = pos >= 0 and isinstance(hn.args[pos], _ast.Name) and hn.args[pos].id == lm.induction
                if not ok:
                    raise sx.ContractError("circular lemma call in the proof of %s" % lm.name)
            has_lemma = any(isinstance(n_, _ast.Call) and isinstance(n_.func, _ast.Name) and n_.func.id in reg.lemmas
                            for n_ in _ast.walk(hn))
            fact = sx.to_bool(eng.evc(h, hst))
            if not has_lemma:       # a plain formula used as a hint must itself be proved first (cut)
                eng.emit("plainhint(%s)" % h[:50], "assert", hst, fact, note=h)
            facts.append(fact)
            hst.pc.append(fact)
        pre = eng.vcs
        eng.vcs = []
        for vc in pre:
            vc.name = "lemma.%s.hint.%s" % (lm.name, vc.name)
            vc.fn = "lemma::" + lm.name
            vc.trivial = False
        return facts, pre

    def mk(name, h, g):
        vc = sx.VC(name, "lemma", h, g, "lemma::" + lm.name, note=lm.statement)
        vc.trivial = False
        return vc
    if lm.induction is None:
        facts, pre = with_hints(lm.hints, prior + hyps, st.env)
        vcs += pre
        vcs.append(mk("lemma.%s" % lm.name, prior + hyps + facts, body))
    else:
        k = st.env[lm.induction]
        base = sx.to_z3(eng.evc(lm.base, st))
        env_b = dict(st.env)
        env_b[lm.induction] = base
        _, _, hb, bb = lemma_formula(eng, reg, lm, {lm.induction: base})
        facts, pre = with_hints(lm.base_hints, prior + hb, env_b)
        vcs += pre
        vcs.append(mk("lemma.%s.base" % lm.name, prior + hb + facts, bb))
        _, _, hs, bs = lemma_formula(eng, reg, lm, {lm.induction: k + 1})
        # induction hypothesis: the statement at k for all values of the other parameters THAT THE BASE DOES NOT MENTION.
        # (For fixed values of the parameters occurring in the base expression b, this is ordinary induction from b on
        # the predicate "for all the remaining parameters ..."; quantifying the hypothesis over a parameter of b as well
        # would assume the statement below other bases — there is no first integer to start from — and is unsound.)
        in_base = {t.get_id() for t in solve._walk(base, set())} if z3.is_expr(base) else set()
        others = [v for v in vs if not v.eq(k) and v.get_id() not in in_base]
        ih = z3.Implies(z3.And(*hyps + [k >= base]), body)
        ihq = z3.ForAll(others, ih) if others else ih
        ctx = prior + [k >= base, ihq, ih] + hs
        facts, pre = with_hints(lm.hints, ctx, st.env)
        vcs += pre
        vcs.append(mk("lemma.%s.step" % lm.name, ctx + facts, bs))
    return eng, vcs


def _dummy_fn():
    import ast
    return ast.parse("def _():\n    pass").body[0]


def lemma_as_axiom(reg, name):
    lm = reg.lemmas[name]
    eng = sx.Engine("lemma::" + lm.name, _dummy_fn(), {}, None, reg, reg.specs)
    vs, st, hyps, body = lemma_formula(eng, reg, lm, for_use=True)
    if lm.induction is not None:        # proved for induction variable >= base only
        hyps = hyps + [st.env[lm.induction] >= sx.to_z3(eng.evc(lm.base, st))]
    return z3.ForAll(vs, z3.Implies(z3.And(*hyps + [z3.BoolVal(True)]), body))


_SHAPES = None


def expected_shape(key):
    global _SHAPES
    if _SHAPES is None:
        try:
            with open(os.path.join(os.path.dirname(os.path.dirname(os.path.abspath(__file__))), "contracts", "shapes.json")) as f:
                _SHAPES = json.load(f)
        except (OSError, ValueError):
            _SHAPES = {}
    return _SHAPES.get(key)


def gen_function_vcs(reg, c, small_scope=None, root=None):
    fndef, imports, sha, line = extract.load(root or REPO, c.path, c.qualname)
    want = expected_shape(c.key) if root is None else None
    if want is not None and extract.loop_shape(fndef) != want:
        # the invariants are keyed by loop ordinal: on another loop structure they do not talk about the same loops
        raise sx.Unsupported("loop structure changed (contract written for '%s', found '%s'): invariants not applicable"
                             % (want, extract.loop_shape(fndef)))
    sx._fresh.reset()
    eng = sx.Engine(c.key, fndef, imports, c, reg, reg.specs, small_scope=small_scope)
    vcs = eng.run_function()
    return eng, vcs, sha


SMALL_K = 3


def refute_small_scope(reg, c, names):
    """Second pass for obligations the solver left open: bounded quantifiers expanded over [-1, K], recursive specs
    unfolded completely, no quantified axiom: a `sat` answer is a genuine counter-model of the obligation."""
    try:
        eng, vcs, _sha = gen_function_vcs(reg, c, small_scope=SMALL_K)
    except (sx.Unsupported, sx.ContractError, LookupError, SyntaxError):
        return {}
    readback = _readback(eng)
    jobs, meta = [], []
    for vc in vcs:
        if vc.name not in names or getattr(vc, "trivial", False):
            continue
        hyps = list(vc.hyps) + list(eng.scope_constraints)
        hyps += solve.spec_closure(eng, reg.specs, hyps + [vc.goal], fuel=SMALL_K + 4, quantified=False)
        jobs.append((solve.to_smt2(hyps, vc.goal), Z3_MS, readback, 0))
        meta.append(vc)
    res = solve.discharge(jobs)
    out = {}
    for vc, r in zip(meta, res):
        if r["result"] == "sat" and vc.name not in out:
            out[vc.name] = {"model": r.get("model"), "line": vc.line}
    return out


def _readback(eng):
    readback = {}
    for p, (k_, base_or_z, ty) in eng.inputs.items():
        if k_ == "scalar":
            readback[p] = ("scalar", base_or_z.decl().name())
        else:
            ho = eng.entry_heap[base_or_z]
            readback[p] = ("arr", ho.arr.decl().name(), [s_.decl().name() for s_ in ho.shape], ho.ndim)
    return readback


def run_contracts(reg, contracts, lemmas, want_models=True):
    """returns (results per obligation, functions info, crashes, solver time)"""
    jobs, meta = [], []
    retry = []
    twin = {}       # index of the all-hypotheses job -> index of its relevant-hypotheses twin
    functions, notes = [], []
    undecided_fn = {}
    for c in contracts:
        try:
            eng, vcs, sha = gen_function_vcs(reg, c)
        except (sx.Unsupported, sx.ContractError, LookupError, SyntaxError) as e:
            undecided_fn[c.key] = "%s: %s" % (type(e).__name__, e)
            functions.append({"function": c.key, "status": "outside-engine", "reason": str(e)})
            continue
        except Exception as e:      # the engine met code it cannot handle: the function is undecided, never a verdict
            undecided_fn[c.key] = "engine error %s: %s" % (type(e).__name__, str(e)[:300])
            functions.append({"function": c.key, "status": "outside-engine", "reason": undecided_fn[c.key]})
            continue
        functions.append({"function": c.key, "source_sha256_16": sha, "vcs": len(vcs), "return_paths": eng.nreturns})
        uses = reg.uses.get(c.key, [])
        if isinstance(uses, dict):          # {substring of the obligation name: [lemmas]}; "" = every obligation
            ax_for = {k: [lemma_as_axiom(reg, nm) for nm in v] for k, v in uses.items()}
        else:
            ax_for = {"": [lemma_as_axiom(reg, nm) for nm in uses]}
        readback = _readback(eng)
        # canary: the precondition must be satisfiable
        cover_goal = z3.BoolVal(False)
        for vc in vcs + [sx.VC("%s.cover.requires" % c.key.split("::")[-1], "cover", eng.requires_terms, cover_goal, c.key)]:
            if getattr(vc, "trivial", False) and vc.kind != "cover":
                meta.append((c, vc, None))
                continue
            axioms = [a for k, v in ax_for.items() if k in vc.name for a in v]
            base_hyps = list(vc.hyps) + axioms
            if vc.kind == "cover":
                hyps = base_hyps + solve.spec_closure(eng, reg.specs, base_hyps + [vc.goal])
                jobs.append((solve.to_smt2(hyps, vc.goal), 3000, None, 0))
                meta.append((c, vc, len(jobs) - 1))
                continue
            extra = [nm for k, v in (getattr(c, "focus", None) or {}).items() if k in vc.name for nm in v]
            pruned, dropped = solve.prune_hyps(reg.specs, base_hyps, vc.goal, extra)
            omit = {eng.requires_ids.get(rq) for rq, users in (getattr(c, "needed_by", None) or {}).items()
                    if not any(u in vc.name for u in users)}
            if omit - {None}:
                kept = [h for h in pruned if h.get_id() not in omit]
                if len(kept) != len(pruned):
                    pruned, dropped = kept, True
            full = base_hyps + solve.spec_closure(eng, reg.specs, base_hyps + [vc.goal])
            full_smt = solve.to_smt2(full, vc.goal)
            if dropped:
                # two cheap attempts side by side: relevant hypotheses only / all hypotheses; whichever proves the
                # goal discharges it (both are sound); what stays open gets the long budget and cvc5 afterwards
                hp = pruned + solve.spec_closure(eng, reg.specs, pruned + [vc.goal])
                jobs.append((solve.to_smt2(hp, vc.goal), min(Z3_MS, PRUNED_MS), None, 0))
                twin[len(jobs)] = len(jobs) - 1
                jobs.append((full_smt, min(Z3_MS, PRUNED_MS), readback if want_models else None, 0))
                retry.append((len(jobs) - 1, c, vc, full_smt, eng, readback))
            else:
                jobs.append((full_smt, Z3_MS, readback if want_models else None, CVC5_MS))
            meta.append((c, vc, len(jobs) - 1))
    for lm in lemmas:
        try:
            eng, vcs = lemma_vcs(reg, lm)
        except Exception as e:
            undecided_fn["lemma::" + lm.name] = "%s: %s" % (type(e).__name__, str(e)[:300])
            continue
        for vc in vcs:
            hyps = list(vc.hyps)
            hyps += solve.spec_closure(eng, reg.specs, hyps + [vc.goal])
            zms = 1500 if getattr(lm, "prefer", None) == "cvc5" and vc.name.endswith(".step") else Z3_MS
            jobs.append((solve.to_smt2(hyps, vc.goal), zms, None, CVC5_MS))
            meta.append((lm, vc, len(jobs) - 1))
    t0 = time.time()
    res = solve.discharge(jobs)
    # merge the twins, then a second attempt (long budget, cvc5) for what is still open
    jobs2, idx2 = [], []
    for j, c, vc, full_smt, eng, readback in retry:
        if res[j]["result"] != "unsat" and res[twin[j]]["result"] == "unsat":
            res[j] = dict(res[twin[j]], z3_s=res[j].get("z3_s", 0) + res[twin[j]].get("z3_s", 0))
        elif res[j]["result"] == "unknown":
            jobs2.append((full_smt, Z3_MS, readback if want_models else None, CVC5_MS))
            idx2.append(j)
    for j, r in zip(idx2, solve.discharge(jobs2)):
        r["z3_s"] = r.get("z3_s", 0) + res[j].get("z3_s", 0)
        res[j] = r
    # quiet retry: obligations still open (time-outs under load) get three times the budget, four at a time
    full_jobs = dict(zip(idx2, jobs2))
    skip = set(twin.values())
    cover_idx = {j for (_o, vc, j) in meta if j is not None and vc.kind == "cover"}
    again = [j for j in range(len(res)) if res[j]["result"] == "unknown" and j not in cover_idx and j not in skip]
    if again and len(again) <= 6:
        jobs3 = []
        for j in again:
            smt2, _t, rb, _c = full_jobs.get(j, jobs[j])
            jobs3.append((smt2, 3 * Z3_MS, rb, 2 * CVC5_MS))
        for j, r in zip(again, solve.discharge(jobs3, procs=4)):
            r["z3_s"] = r.get("z3_s", 0) + res[j].get("z3_s", 0)
            r["retried"] = True
            res[j] = r
    wall = time.time() - t0
    return meta, res, functions, undecided_fn, wall


def summarise(meta, res):
    """group path-VCs by obligation name"""
    obl = {}
    for owner, vc, j in meta:
        o = obl.setdefault(vc.name, {"name": vc.name, "kind": vc.kind, "function": vc.fn, "paths": 0, "status": "discharged",
                                     "solver": set(), "time_s": 0.0, "note": vc.note, "owner": owner})
        o["paths"] += 1
        if j is None:
            o["solver"].add("simplifier")
            continue
        r = res[j]
        o["time_s"] += r.get("z3_s", 0) + r.get("cvc5_s", 0)
        o["solver"].add(r["solver"])
        if vc.kind == "cover":
            # must NOT be unsat
            if r["result"] == "unsat":
                o["status"] = "vacuous"
            continue
        if r["result"] == "sat":
            o["status"] = "refuted"
            o["model"] = r.get("model")
            o["line"] = vc.line
        elif r["result"] != "unsat" and o["status"] != "refuted":
            o["status"] = "undecided"
            o["reason"] = r.get("reason", "")
    return obl


def run_property(prop, tier, seed):
    out = {"obligations": 0, "discharged": 0, "results": [], "failures": [], "crashes": [], "undecided": [],
           "functions": [], "assumptions": [], "trusted_base": [], "lemmas": [], "guards": {},
           "z3_version": z3.get_version_string(), "level_if_all_discharged": _claimed_level(prop)}
    try:
        reg = load_registry()
        contracts = [c for c in reg.by_key.values() if prop in c.props]
        lemmas = [lm for lm in reg.lemmas.values() if prop in lm.props]
        from pyvc import effects
        frame_obls = effects.obligations(REPO, prop) if prop in effects.PROP_FILTER else []
        arity_obls = [o for o in effects.arity_obligations(REPO, prop)]
        frame_obls = frame_obls + arity_obls
        if not contracts and not lemmas and not frame_obls:
            return None
        externals.USED.clear()
        meta, res, functions, undecided_fn, wall = run_contracts(reg, contracts, lemmas)
        obl = summarise(meta, res)
        # second pass (refutation mode) for obligations left open
        open_by_fn = {}
        for name, o in obl.items():
            if o["status"] == "undecided" and isinstance(o["owner"], dsl.Contract):
                open_by_fn.setdefault(o["owner"].key, set()).add(name)
        for key, names in open_by_fn.items():
            found = refute_small_scope(reg, reg.by_key[key], names)
            for name, info in found.items():
                obl[name]["status"] = "refuted"
                obl[name]["model"] = info["model"]
                obl[name]["line"] = info["line"]
                obl[name]["solver"].add("z3-small-scope(K=%d)" % SMALL_K)
        out["functions"] = functions
        out["solver_time_s"] = {"wall": round(wall, 2),
                                "z3": round(sum(r.get("z3_s", 0) for r in res), 2),
                                "cvc5": round(sum(r.get("cvc5_s", 0) for r in res), 2)}
        baseline = load_baseline()
        for name, o in sorted(obl.items()):
            owner = o.pop("owner")
            if isinstance(owner, dsl.Contract) and prop not in props_of_obligation(owner, name):
                continue
            o["solver"] = "+".join(sorted(o["solver"]))
            o["time_s"] = round(o["time_s"], 3)
            if o["kind"] == "cover":
                out["guards"][name] = "satisfiable" if o["status"] != "vacuous" else "CONTRADICTORY"
                if o["status"] == "vacuous":
                    out["crashes"].append("vacuity guard: precondition of %s is contradictory" % o["function"])
                continue
            out["obligations"] += 1
            rec = {k: o[k] for k in ("name", "kind", "function", "paths", "status", "solver", "time_s", "note")}
            if o["status"] == "discharged":
                out["discharged"] += 1
            elif o["status"] == "refuted":
                rec["model"] = o.get("model")
                fl = {"clause": name, "site": o["function"], "tier": "T1", "has_input": False,
                      "detail": "obligation refuted by the solver (%s); contract clause: %s" % (o["solver"], o["note"]),
                      "model": o.get("model"), "obligation": name, "line": o.get("line")}
                if name in baseline.get(prop, []) or not baseline:
                    out["failures"].append(fl)
                else:
                    out["failures"].append(fl)
            else:
                rec["reason"] = o.get("reason", "")
                out["undecided"].append({"name": name, "reason": o.get("reason", "")})
            out["results"].append(rec)
        for o in frame_obls:
            out["obligations"] += 1
            out["results"].append(o)
            if o["status"] == "discharged":
                out["discharged"] += 1
            elif o["status"] == "refuted":
                out["failures"].append({"clause": o["name"], "site": o["function"], "tier": "T1", "has_input": False,
                                        "detail": o["reason"] + " :: " + o["note"], "obligation": o["name"]})
            else:
                out["undecided"].append({"name": o["name"], "reason": o["reason"]})
        for key, why in undecided_fn.items():
            out["undecided"].append({"name": key, "reason": why})
            out["obligations"] += 1          # counts as an undischarged obligation: no proof-level claim this run
        out["trusted_base"] = sorted("external contract: " + u for u in externals.USED) + [
            "pyvc VC generator (/verif/pyvc, ~1.5 kLOC) and its encoding assumptions A-int, A-float",
            "z3 %s / cvc5 1.0.3 answers" % z3.get_version_string()]
        out["lemmas"] = [lm.name for lm in lemmas]
        if lemmas:
            from pyvc import canary
            bad, njobs = canary.wrongly_proved()
            out["guards"]["soundness canaries (false lemmas that must not be proved)"] = \
                "%d obligations, none proved" % njobs if not bad else "PROVED: %s" % bad
            if bad:
                out["crashes"].append("soundness canary proved (%s): the VC engine is unsound, no verdict" % bad)
        if contracts:
            from pyvc import canary
            probs, njobs = canary.functions_wrongly_proved()
            out["guards"]["soundness canaries (false clauses on tiny functions that must stay open)"] = \
                "%d obligations, all open" % njobs if not probs else "PROBLEM: %s" % probs
            if probs:
                out["crashes"].append("function-level soundness canary failed (%s): the VC engine is unsound or changed, "
                                      "no verdict" % probs)
        for c in contracts:
            short = c.key.split("::")[-1]
            frag = getattr(c, "fragment", None)
            if frag:
                what = ("the body of loop #%d (one arbitrary iteration)" % frag["body_of_loop"]) if "body_of_loop" in frag else (
                    ("the statements up to the first one that can raise" if frag["head"] == "guard" else
                     "the first %d statement(s)" % frag["head"])) if "head" in frag else (
                    "top-level loop #%d%s" % (frag["loop"], (" and the %d statements before it" % frag["prelude"])
                                              if frag.get("prelude") else ""))
                out["assumptions"].append("fragment %s: only %s of the function is verified, from the live-in variables "
                                          "%s; the rest of the function is NOT verified here" % (short, what, list(c.params)))
            for nm, d in (getattr(c, "opaque_calls", None) or {}).items():
                if "fn" in d:
                    out["assumptions"].append("%s: %s(...) is abstracted as the uninterpreted function %s (assumed pure%s; "
                                              "its value is not verified here)" % (
                                                  short, nm, d["fn"], ", finite" if d.get("below_inf") else ""))
                else:
                    out["assumptions"].append("%s: the result of %s(...) is an object the fragment does not look into; "
                                              "the call is assumed to return normally" % (short, nm))
            if getattr(c, "opaque_glue", False):
                out["assumptions"].append("%s: attribute reads, subscripts and comprehensions over unmodelled objects are "
                                          "assumed to return normally (their exceptions are not analysed)" % short)
            for nm in (getattr(c, "assumed", None) or {}):
                out["assumptions"].append("%s: ensures clause %s is assumed (checked at run time only)" % (short, nm))
    except Exception:
        out["crashes"].append(traceback.format_exc()[-3000:])
    return out


def _claimed_level(prop):
    try:
        from vlib import props
        return props.P[prop]["cat"]
    except Exception:
        return "other"


def load_baseline():
    import json
    p = os.path.join(os.path.dirname(os.path.dirname(os.path.abspath(__file__))), "obligations.baseline.json")
    if os.path.exists(p):
        with open(p) as f:
            return json.load(f)
    return {}


def replay(prop, rp):
    print("T1 replay: re-running the deductive tier for %s; obligation %s" % (prop, rp.get("obligation")))
    out = run_property(prop, "quick", 0)
    for fl in out["failures"]:
        if fl["clause"] == rp.get("obligation"):
            print("REPLAY-FAILS property=%s obligation=%s still refuted" % (prop, fl["clause"]))
            return 1
    print("obligation no longer refuted on the current tree")
    return 0

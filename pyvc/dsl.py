"""pyvc.dsl — sidecar contract objects (data only; /repo is never annotated)."""
import ast

import z3

from pyvc import sx
from pyvc.types import Int, Real, Bool, Arr, List, Ty  # noqa: F401


from pyvc.types import Contract, Lemma, _named  # noqa: E402,F401


class Spec:
    """A pure specification function.  Non-recursive specs are inlined; recursive ones become an uninterpreted
    function plus its definitional axiom, instantiated at the ground applications that occur in a VC (fuel-bounded)
    and also supplied as a quantified axiom with the application as trigger."""

    def __init__(self, src, types, ret, registry=None, opaque=False):
        self.src = src
        fn = ast.parse(src.strip()).body[0]
        assert isinstance(fn, ast.FunctionDef)
        self.name = fn.name
        self.params = [a.arg for a in fn.args.args]
        self.types = types
        self.ret = ret
        body = fn.body
        while body and isinstance(body[0], ast.Expr) and isinstance(body[0].value, ast.Constant):
            body = body[1:]
        assert len(body) == 1 and isinstance(body[0], ast.Return), "spec body must be a single return"
        self.body = body[0].value
        # opaque specs are kept as function symbols (definition supplied as an axiom) so that terms stay small
        self.recursive = opaque or any(isinstance(n, ast.Call) and isinstance(n.func, ast.Name) and n.func.id == self.name
                                       for n in ast.walk(self.body))
        self._decl = None
        self.all_specs = None     # set by Registry

    def sorts(self):
        out = []
        for p in self.params:
            ty = self.types[p]
            out.append(sx.arr_sort(ty.elem, ty.ndim) if ty.kind in ("arr", "list", "set", "setlist", "pairset") else sx.zsort(ty.kind))
        return out

    def decl(self):
        if self._decl is None:
            self._decl = z3.Function("spec_" + self.name, *(self.sorts() + [sx.zsort(self.ret.kind)]))
        return self._decl

    def zargs(self, eng, st, args):
        out = []
        for p, a in zip(self.params, args):
            ty = self.types[p]
            if ty.kind in ("arr", "list", "set", "setlist", "pairset"):
                if not isinstance(a, sx.Ref):
                    raise sx.ContractError("spec %s: argument %s must be an array" % (self.name, p))
                out.append(eng.sel(st, a))
            else:
                z = sx.to_z3(a)
                if ty.kind == "real" and z3.is_int(z):
                    z = z3.ToReal(z)
                out.append(z)
        return out

    def body_term(self, eng, zargs):
        """the body with parameters bound to the given terms"""
        st = sx.State()
        for p, z in zip(self.params, zargs):
            ty = self.types[p]
            if ty.kind in ("arr", "list", "set", "setlist", "pairset"):
                base = "spec:%s:%d" % (p, next(sx._fresh))
                st.heap[base] = sx.HeapObj(z, [z3.Int("speclen!%d" % next(sx._fresh)) for _ in range(ty.ndim)],
                                           ty.elem, ty.ndim)
                st.env[p] = sx.Ref(base)
            else:
                st.env[p] = z
        eng.spec_depth += 1
        try:
            t = eng.ev(self.body, st)
        finally:
            eng.spec_depth -= 1     # specs are total: no safety obligations inside
        t = sx.to_z3(t)
        if self.ret.kind == "real" and z3.is_int(t):
            t = z3.ToReal(t)
        if self.ret.kind == "bool":
            t = sx.to_bool(t)
        return t

    def apply(self, eng, st, args):
        if len(args) != len(self.params):
            raise sx.ContractError("spec %s arity" % self.name)
        zargs = self.zargs(eng, st, args)
        if not self.recursive:
            return self.body_term(eng, zargs)
        return self.decl()(*zargs)

    def axiom(self, eng):
        vs = [z3.Const("a!%s!%s" % (self.name, p), s) for p, s in zip(self.params, self.sorts())]
        app = self.decl()(*vs)
        return z3.ForAll(vs, app == self.body_term(eng, vs), patterns=[app])

    def instance(self, eng, zargs):
        return self.decl()(*zargs) == self.body_term(eng, list(zargs))


class Registry:
    def __init__(self):
        self.by_key, self.by_name, self.specs, self.lemmas = {}, {}, {}, {}
        self.uses = {}      # contract key -> list of lemma names assumed in its VCs

    def contract(self, *a, use_lemmas=(), **kw):
        c = Contract(*a, **kw)
        self.by_key[c.key] = c
        self.by_name[c.name] = c
        self.uses[c.key] = use_lemmas if isinstance(use_lemmas, dict) else list(use_lemmas)
        return c

    def spec(self, src, types, ret, opaque=False):
        s = Spec(src, types, ret, opaque=opaque)
        prev = self.specs.get(s.name)
        if prev is not None and getattr(prev, "src", src).strip() != src.strip():
            # one namespace for all sidecars: a second, different definition would silently replace the first
            raise ValueError("specification function %s is defined twice with different bodies" % s.name)
        self.specs[s.name] = s
        return s

    def lemma(self, *a, **kw):
        lm = Lemma(*a, **kw)
        if lm.name in self.lemmas and self.lemmas[lm.name].statement != lm.statement:
            raise ValueError("lemma %s is defined twice with different statements" % lm.name)
        self.lemmas[lm.name] = lm
        return lm

"""pyvc.extract — mechanical extraction of a function from the current /repo source (every run).

What extraction drops, exactly: decorators, type annotations, docstrings, `print` calls.  Nothing else."""
import ast
import hashlib
import os


def load(repo, relpath, qualname):
    path = os.path.join(repo, relpath)
    with open(path, encoding="utf-8") as f:
        src = f.read()
    tree = ast.parse(src)
    node = tree
    for part in qualname.split("."):
        found = None
        for ch in node.body:
            if isinstance(ch, (ast.FunctionDef, ast.ClassDef)) and ch.name == part:
                found = ch
        if found is None:
            raise LookupError("%s not found in %s" % (qualname, relpath))
        node = found
    if not isinstance(node, ast.FunctionDef):
        raise LookupError("%s is not a function" % qualname)
    seg = ast.get_source_segment(src, node) or ""
    imports = {}
    for n in tree.body:
        if isinstance(n, ast.ImportFrom) and n.module:
            for a in n.names:
                imports[a.asname or a.name] = n.module + "." + a.name
        elif isinstance(n, ast.Import):
            for a in n.names:
                imports[a.asname or a.name] = a.name
        elif isinstance(n, ast.Try):
            for m in n.body:
                if isinstance(m, ast.Import):
                    for a in m.names:
                        imports[a.asname or a.name] = a.name
    return node, imports, hashlib.sha256(seg.encode()).hexdigest()[:16], node.lineno


def loop_shape(fndef):
    """loop nest signature of a function: F = for, W = while, nesting by parentheses, in source order"""
    def rec(stmts):
        out = []
        for st in stmts:
            if isinstance(st, (ast.FunctionDef, ast.AsyncFunctionDef, ast.ClassDef)):
                continue
            if isinstance(st, (ast.For, ast.While)):
                inner = rec(st.body) + rec(st.orelse)
                out.append(("F" if isinstance(st, ast.For) else "W") + ("(" + inner + ")" if inner else ""))
                continue
            for field in ("body", "orelse", "finalbody"):
                sub = getattr(st, field, None)
                if isinstance(sub, list):
                    out.append(rec(sub))
            for h in getattr(st, "handlers", []) or []:
                out.append(rec(h.body))
        return "".join(x for x in out if x)
    return rec(fndef.body)

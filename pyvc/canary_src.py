"""Source of the function-level soundness canaries (never imported by /repo; read by pyvc.canary through the same
extraction and symbolic execution as the real code).  Each function has ONE deliberately false clause in pyvc/canary.py."""


def c_alias(a, n):
    row = a
    i = 0
    while i < n:
        row[i] = 1
        i += 1
    return a[0]


def c_havoc(n):
    x = 0
    for i in range(n):
        if i == 3:
            x = 5
    return x


def c_break(a, n):
    k = 0
    for i in range(n):
        if a[i] < 0:
            break
        k += 1
    return k


def c_append(xs):
    lst = []
    for x in xs:
        if x > 0:
            lst.append(x)
    return len(lst)


def c_div(a, b):
    return a // b


def c_key(k):
    d = {}
    d[1] = 2
    return d[k]


def c_nan(x):
    return x == x


def c_helper(v, i):
    v[i] = 0


def c_call(v, n):
    c_helper(v, n)
    return v[0]


def c_view(m, i):
    row = m[i]
    row[0] = 7
    return m[0][0]

"""pyvc.types — contract data structures (no z3 import: also loaded by the run-time contract checker)."""


# # types of the DSL
class Ty:
    def __init__(self, kind, elem=None, ndim=0):
        self.kind, self.elem, self.ndim = kind, elem, ndim

    def __repr__(self):
        return self.kind if not self.ndim else "%s[%s;%d]" % (self.kind, self.elem, self.ndim)


Int, Real, Bool = Ty("int"), Ty("real"), Ty("bool")
Float = Ty("float")    # a Python float that may be NaN (datatype nan | fin(real)); plain Real is used where NaN is impossible
Str = Ty("str")        # an opaque string (only len / find / rfind have integer contracts)
Obj = Ty("obj")      # an opaque object (e.g. `self` of a method that does not use it)


def Arr(elem, ndim=1):
    return Ty("arr", elem.kind, ndim)


def Set():
    """a set of integer ids: membership array int -> bool (no length)"""
    return Ty("set", "bool", 1)


def SetList():
    """a Python list of sets of integer ids: array (index) -> membership array, with a length"""
    return Ty("setlist", "bool", 2)


def PairSet():
    """a set of pairs of integer ids: membership array int -> int -> bool"""
    return Ty("pairset", "bool", 2)


def IntDict(elem):
    """a dict from integer ids to numbers (domain array + value array)"""
    return Ty("intdict", elem.kind, 1)


def RowDict(elem, width):
    """a dict from integer ids to fixed-width lists of numbers (e.g. points[elem] = [sum, count])"""
    t = Ty("rowdict", elem.kind, 2)
    t.width = width
    return t


def List(elem, ndim=1):
    return Ty("list", elem.kind, ndim)



def _named(clauses, prefix):
    if clauses is None:
        return {}
    if isinstance(clauses, dict):
        return dict(clauses)
    return {"%s%d" % (prefix, i + 1): c for i, c in enumerate(clauses)}


class Contract:
    def __init__(self, key, props, params, requires=None, ensures=None, modifies=(), loops=None, ghost=None,
                 returns=None, raises=None, call_ghost=None, gen=None, notes="", obligations_for=None,
                 assumed=None, after_loop=None, hints=None, rt_only=None, ghost_vars=None, ghost_after=None,
                 exit_hints=None, vec_counts=None, after_assign=None, abstract_mul=False, entry_hints=None,
                 unroll=None, fields=None, fixed=None, fragment=None, call_hints=None, focus=None, may_raise=None,
                 needed_by=None, opaque_calls=None, local_types=None, rt_harness=None, opaque_glue=False,
                 int_witness=None):
        # int_witness: {target source: expr} the integer a float stored into an int array equals (ghost witness)
        self.int_witness = dict(int_witness or {})
        # opaque_glue: attribute reads / subscripts of unmodelled objects and comprehensions the engine cannot model
        # evaluate to unmodelled objects (their possible exceptions are NOT analysed: listed as an assumption)
        self.opaque_glue = opaque_glue
        # rt_harness(raw_args) -> list of environments: runs the REAL enclosing function with the opaque callees stubbed
        # and returns the observable values the ensures clauses speak about (run-time tier / replay of fragments)
        self.rt_harness = rt_harness
        # opaque_calls: {callee name: {"ret": "obj"} | {"fn": NAME, "args": [positions], "ret": "real", "below_inf": bool}}
        # calls the fragment treats as opaque: a constructor returning an unmodelled object, or a method whose result is
        # the uninterpreted function NAME of the listed (integer-id) arguments (ASSUMED pure: listed as an assumption)
        self.opaque_calls = dict(opaque_calls or {})
        # local_types: {local name: type} element type of a local list that starts as the empty literal
        self.local_types = dict(local_types or {})
        self.may_raise = list(may_raise or [])
        # needed_by: {requires clause name: [substrings of obligation names]} — a (typically non-linear, quantified)
        # precondition that only the listed obligations need; the first solver attempt of every other obligation omits it
        self.needed_by = dict(needed_by or {})      # exceptions the function may raise (no condition is specified)
        # focus: {substring of an obligation name: [spec names]} extra spec families kept by the relevance filter of
        # the first (cheap) solver attempt; purely a performance hint (all hypotheses are used on the second attempt)
        self.focus = dict(focus or {})
        # call_hints: {callee: [lemma calls]} facts added right after each call to `callee` (after the ghost updates)
        self.call_hints = dict(call_hints or {})
        # fragment: {"loop": k} verify only the k-th loop of the function (a top-level statement of its body) in
        # isolation: `params` then declares its live-in variables; what precedes / follows the loop is not verified
        self.fragment = fragment
        self.unroll = dict(unroll or {})        # {loop ordinal: literal trip count} (checked by an unwinding assertion)
        self.fields = dict(fields or {})        # {"obj.attr": type} attributes of object parameters read by the function
        self.fixed = dict(fixed or {})          # {param: literal} verify the function for this literal value of a parameter
        self.entry_hints = list(entry_hints or [])     # lemma calls made at function entry
        # vec_counts: [(spec name, [arg exprs])] for the count_nonzero calls of the function, in source order
        self.vec_counts = list(vec_counts or [])
        self.after_assign = dict(after_assign or {})
        self.abstract_mul = abstract_mul
        self.exit_hints = exit_hints or {}      # {loop ordinal: [lemma calls]} facts added on the loop's normal exits
        # ghost_vars: {name: init expr} local ghost variables; ghost_after: {callee: {ghost var: expr}} ghost updates
        # executed right after each call to `callee` (the callee's ghost arguments are visible as g_<name>)
        self.ghost_vars = dict(ghost_vars or {})
        self.ghost_after = dict(ghost_after or {})
        self.key = key
        self.path, self.qualname = key.split("::")
        self.tag = ""
        if "#" in self.qualname:        # several contracts on one function (fragments, fixed parameters)
            self.qualname, self.tag = self.qualname.split("#", 1)
        self.name = self.qualname.split(".")[-1] + ("#" + self.tag if self.tag else "")
        self.props = list(props)
        self.params = dict(params)
        self.param_names = list(params)
        self.ghost = dict(ghost or {})
        self.requires = _named(requires, "pre")
        self.ensures = _named(ensures, "post")
        self.modifies = list(modifies)
        self.loops = {}
        for k, spec in (loops or {}).items():
            spec = dict(spec)
            spec["inv"] = _named(spec.get("inv"), "i")
            self.loops[k] = spec
        self.returns = returns
        self.raises = raises
        self.call_ghost = call_ghost
        self.gen = gen
        self.notes = notes
        # obligations_for: clause-name prefix -> property ids it serves (default: all props of the contract)
        self.obligations_for = obligations_for or {}
        # assumed: ensures clauses relied upon by callers and checked at run time, but NOT proved (listed as assumptions)
        self.assumed = _named(assumed, "assumed")
        # after_loop: {loop ordinal: {name: expr}} cut-point assertions proved right after the loop, then assumed
        self.after_loop = {k: _named(v, "a") for k, v in (after_loop or {}).items()}
        # hints: {loop ordinal: [expr]} lemma calls / arithmetic facts proved at the loop head of each iteration
        self.hints = hints or {}
        # rt_only: ensures clauses evaluated only by the run-time checker (bounded), e.g. definitional cross-checks
        self.rt_only = _named(rt_only, "rt")


class Lemma:
    """A lemma over spec functions, proved by induction on `var` (base at `base`, step k -> k+1) or directly.
    Once proved it is available (quantified, with the stated trigger terms) to the VCs of the listed contracts."""

    def __init__(self, name, params, statement, props, induction=None, base="0", requires=None, hints=None,
                 use_lemmas=(), base_hints=None, intro=None, prefer=None):
        self.prefer = prefer        # "cvc5": give z3 only a short try first (a lemma known to be cvc5's)
        self.base_hints = base_hints or []
        # intro: {var: (lo, hi)}: the lemma states  forall var in [lo, hi): statement ; it is proved for an arbitrary
        # var in the range (the hints may mention var) and used as the quantified fact
        self.intro = dict(intro or {})
        self.name, self.params, self.statement, self.props = name, dict(params), statement, list(props)
        self.induction, self.base = induction, base
        self.requires = _named(requires, "h")
        self.hints = hints or []
        self.use_lemmas = list(use_lemmas)



"""pyvc.rt — the SAME sidecar contracts, executed at run time around the REAL functions (bounded stand-in / replay vehicle).

Runs under /venv/bin/python (numpy, numba, the repo).  For each contract that has an input generator `gen(rng)`:
draw inputs (ghost arguments included), check the precondition, snapshot, call the real function (numba-compiled and,
where available, its `.py_func`), evaluate every ensures clause and the frame.  A failing clause is a concrete,
replayable counterexample.  Never counted as proved.

  python -m pyvc.rt <ID> --seed N --count K --out file.json [--replay file.json]
"""
import argparse
import ast
import contextlib
import copy
import io
import signal
import importlib
import itertools
import json
import pkgutil
import random
import sys
import time
import traceback

import numpy as np

from pyvc.types import Contract, Lemma


class Undefined(Exception):
    pass


class RtTimeout(BaseException):
    pass


def _alarm(_s, _f):
    raise RtTimeout()


UNBOUNDED = (-3, 12)       # run-time stand-in for an unbounded quantifier: a finite window (bounded tier, never a proof)


def forall(f, *bounds):
    n = f.__code__.co_argcount
    if not bounds:
        bounds = UNBOUNDED * n
    if len(bounds) == 2 and n > 1:
        bounds = bounds * n
    rngs = [range(int(bounds[2 * k]), int(bounds[2 * k + 1])) for k in range(n)]
    return all(f(*c) for c in itertools.product(*rngs))


def exists(f, *bounds):
    n = f.__code__.co_argcount
    if not bounds:
        bounds = UNBOUNDED * n
    if len(bounds) == 2 and n > 1:
        bounds = bounds * n
    rngs = [range(int(bounds[2 * k]), int(bounds[2 * k + 1])) for k in range(n)]
    return any(f(*c) for c in itertools.product(*rngs))


def ratio_ok(xs, ys):
    """exists k > 0 with x == k*y pointwise (exact, rationals)"""
    from fractions import Fraction
    k = None
    for x, y in zip(xs, ys):
        x, y = Fraction(float(x)), Fraction(float(y))
        if (x == 0) != (y == 0):
            return False
        if x != 0:
            q = x / y
            if q <= 0 or (k is not None and q != k):
                return False
            k = q
    return True


class _Lazy(ast.NodeTransformer):
    """ite / implies / iff become lazy Python forms, so that the unused branch is never evaluated"""

    def visit_Call(self, node):
        self.generic_visit(node)
        if isinstance(node.func, ast.Name):
            if node.func.id == "ite" and len(node.args) == 3:
                return ast.IfExp(test=node.args[0], body=node.args[1], orelse=node.args[2])
            if node.func.id == "implies" and len(node.args) == 2:
                return ast.BoolOp(op=ast.Or(), values=[ast.UnaryOp(op=ast.Not(), operand=node.args[0]), node.args[1]])
            if node.func.id == "iff" and len(node.args) == 2:
                return ast.Compare(left=ast.Call(ast.Name("bool", ast.Load()), [node.args[0]], []), ops=[ast.Eq()],
                                   comparators=[ast.Call(ast.Name("bool", ast.Load()), [node.args[1]], [])])
        return node


_cache = {}


def compile_expr(src):
    if src not in _cache:
        tree = ast.parse(src.strip(), mode="eval")
        tree = ast.fix_missing_locations(_Lazy().visit(tree))
        _cache[src] = compile(tree, "<contract>", "eval")
    return _cache[src]


class RtRegistry:
    def __init__(self):
        self.by_key, self.by_name, self.specs, self.lemmas = {}, {}, {}, {}
        import math
        self.globals = {"forall": forall, "exists": exists, "len": len, "min": min, "max": max, "abs": abs,
                        "isnan": math.isnan, "ratio_ok": ratio_ok, "range": range,
                        "True": True, "False": False}

    def contract(self, *a, use_lemmas=(), **kw):
        c = Contract(*a, **kw)
        self.by_key[c.key] = c
        self.by_name[c.name] = c
        return c

    def spec(self, src, types, ret, opaque=False):
        tree = ast.parse(src.strip())
        tree = ast.fix_missing_locations(_Lazy().visit(tree))
        ns = self.globals
        exec(compile(tree, "<spec>", "exec"), ns)
        name = tree.body[0].name
        self.specs[name] = ns[name]
        return ns[name]

    def lemma(self, *a, **kw):
        lm = Lemma(*a, **kw)
        self.lemmas[lm.name] = lm
        return lm


def load_registry():
    reg = RtRegistry()
    import contracts
    for m in sorted(pkgutil.iter_modules(contracts.__path__), key=lambda m: m.name):
        mod = importlib.import_module("contracts." + m.name)
        if hasattr(mod, "register"):
            mod.register(reg)
    return reg


def resolve(contract):
    modname = contract.path[:-3].replace("/", ".")
    obj = importlib.import_module(modname)
    owner = None
    for part in contract.qualname.split("."):
        if part.startswith("__") and not part.endswith("__") and isinstance(obj, type):
            part = "_%s%s" % (obj.__name__.lstrip("_"), part)      # private name mangling
        owner, obj = obj, getattr(obj, part)
    contract._owner = owner
    return obj


def to_runtime(val, ty):
    if ty.kind in ("arr", "list"):
        dt = {"int": np.int32, "real": np.float64, "bool": np.bool_, "float": np.float64}[ty.elem]
        if ty.kind == "list":
            return copy.deepcopy(val)
        return np.array(val, dtype=dt)
    if ty.kind == "int":
        return int(val)
    if ty.kind in ("real", "float"):
        return float(val)
    if ty.kind in ("obj", "str"):
        return val
    return bool(val)


def jsonable(v):
    if isinstance(v, np.ndarray):
        return v.tolist()
    if isinstance(v, (np.integer,)):
        return int(v)
    if isinstance(v, (np.floating,)):
        return float(v)
    if isinstance(v, dict):
        return {k: jsonable(x) for k, x in v.items()}
    if isinstance(v, (list, tuple)):
        return [jsonable(x) for x in v]
    return v


def check_harness(reg, c, raw_args):
    """fragment contracts: the sidecar's harness runs the real enclosing function (opaque callees stubbed) and hands
    back one environment per stub behaviour; the ensures clauses are evaluated in each"""
    fails = []
    with contextlib.redirect_stdout(io.StringIO()):
        envs = c.rt_harness(raw_args)
    if envs is None:
        return None
    for env in envs:
        g = dict(reg.globals)
        g["INF"] = float("inf")
        g.update(env)
        for name, src in list(c.ensures.items()) + list(c.rt_only.items()):
            try:
                ok = bool(eval(compile_expr(src), g))
            except NameError:
                continue
            except (IndexError, KeyError, ZeroDivisionError) as e:
                ok = False
                name = name + " (undefined: %r)" % (e,)
            if not ok:
                fails.append({"clause": "%s.ensures.%s" % (c.name, name.split(" ")[0]), "site": c.key + " [harness]",
                              "detail": {"args": jsonable(raw_args), "clause_src": src,
                                         "observed": {k: jsonable(v) for k, v in env.items() if not callable(v)},
                                         "stub": env.get("_stub")}})
        if fails:
            break
    return fails


def check_once(reg, c, raw_args, variants=("compiled", "py_func")):
    """returns list of failures for one concrete input (dict name -> raw python value, ghosts included)"""
    if getattr(c, "rt_harness", None) is not None:
        return check_harness(reg, c, raw_args)
    fn = resolve(c)
    fails = []
    impls = [("compiled", fn)]
    if hasattr(fn, "py_func"):
        impls.append(("py_func", fn.py_func))
    for vname, impl in impls:
        if vname not in variants:
            continue
        env = {}
        for p, ty in list(c.params.items()) + list(c.ghost.items()):
            env[p] = to_runtime(raw_args[p], ty)
            if ty.kind == "obj" and env[p] is None and isinstance(getattr(c, "_owner", None), type):
                env[p] = c._owner.__new__(c._owner)         # a blank instance for methods / constructors
                for key, fty in (c.fields or {}).items():
                    if key.startswith(p + "."):
                        val_ = to_runtime(raw_args[key], fty)
                        val_ = val_.tolist() if hasattr(val_, "tolist") else val_
                        try:
                            object.__setattr__(env[p], key.split(".", 1)[1], val_)
                        except AttributeError:      # a read-only property backed by a private attribute
                            object.__setattr__(env[p], "_" + key.split(".", 1)[1], val_)
                        env[key] = val_
        snap = {id(v): copy.deepcopy(v) for v in env.values() if isinstance(v, (np.ndarray, list))}
        by_name_old = {p: snap[id(v)] for p, v in env.items() if id(v) in snap}

        def old(x, _snap=snap):
            return _snap.get(id(x), x)
        g = dict(reg.globals)
        g.update({k_: v_ for k_, v_ in env.items() if "." not in k_})
        g["old"] = old
        try:
            pre_ok = all(bool(eval(compile_expr(src), g)) for src in c.requires.values())
        except (IndexError, KeyError, ZeroDivisionError):
            pre_ok = False
        if not pre_ok:
            return None         # generator produced an input outside the precondition
        try:
            signal.signal(signal.SIGALRM, _alarm)
            signal.alarm(10)
            try:
                with contextlib.redirect_stdout(io.StringIO()):
                    result = impl(*[env[p] for p in c.param_names])
            finally:
                signal.alarm(0)
        except RtTimeout:
            fails.append({"clause": "%s.terminates" % c.name, "site": c.key + " [%s]" % vname,
                          "detail": {"args": jsonable(raw_args), "note": "no answer within 10 s"}})
            continue
        except Exception as e:      # the real function raised
            exc = type(e).__name__
            if exc in (getattr(c, "may_raise", None) or []):
                continue
            if c.raises and exc in c.raises:
                cond = bool(eval(compile_expr(c.raises[exc]), g))
                if not cond:
                    fails.append({"clause": "%s.raises.%s.only_when" % (c.name, exc), "site": c.key + " [%s]" % vname,
                                  "detail": {"args": jsonable(raw_args), "raised": repr(e)}})
            else:
                fails.append({"clause": "%s.no_raise(%s)" % (c.name, exc), "site": c.key + " [%s]" % vname,
                              "detail": {"args": jsonable(raw_args), "raised": repr(e)[:300]}})
            continue
        g["result"] = result
        for exc, src in (c.raises or {}).items():
            if bool(eval(compile_expr(src), g)):
                fails.append({"clause": "%s.raises.%s.whenever" % (c.name, exc), "site": c.key + " [%s]" % vname,
                              "detail": {"args": jsonable(raw_args), "returned": jsonable(result)}})
        for name, src in list(c.ensures.items()) + list(c.assumed.items()) + list(c.rt_only.items()):
            try:
                ok = bool(eval(compile_expr(src), g))
            except NameError:
                continue            # the clause mentions a local of the function: not evaluable at run time
            except (IndexError, KeyError, ZeroDivisionError) as e:
                ok = False
                name = name + " (undefined: %r)" % (e,)
            if not ok:
                fails.append({"clause": "%s.ensures.%s" % (c.name, name.split(" ")[0]), "site": c.key + " [%s]" % vname,
                              "detail": {"args": jsonable(raw_args), "result": jsonable(result),
                                         "after": {p: jsonable(v) for p, v in env.items() if p in c.modifies},
                                         "clause_src": src}})
        for p, ty in c.params.items():
            if ty.kind in ("arr", "list") and p not in c.modifies:
                cur_, old_ = np.asarray(env[p]), np.asarray(by_name_old[p])
                same = np.array_equal(cur_, old_, equal_nan=True) if cur_.dtype.kind == "f" else np.array_equal(cur_, old_)
                if not same:
                    fails.append({"clause": "%s.frame.%s" % (c.name, p), "site": c.key + " [%s]" % vname,
                                  "detail": {"args": jsonable(raw_args), "after": jsonable(env[p])}})
    return fails


def main():
    ap = argparse.ArgumentParser()
    ap.add_argument("prop")
    ap.add_argument("--seed", type=int, default=0)
    ap.add_argument("--count", type=int, default=300)
    ap.add_argument("--out", required=True)
    ap.add_argument("--replay")
    a = ap.parse_args()
    t0 = time.time()
    out = {"fails": [], "crashes": [], "evaluations": 0, "functions": {}, "samples": []}
    try:
        reg = load_registry()
        if a.replay:
            with open(a.replay) as f:
                rp = json.load(f)
            c = reg.by_key[rp["site"].split(" [")[0]]
            fails = check_once(reg, c, rp["detail"]["args"]) or []
            out["fails"] = fails
            out["evaluations"] = 1
        else:
            for c in reg.by_key.values():
                if a.prop not in c.props or c.gen is None:
                    continue
                rng = random.Random("%s|%s" % (a.seed, c.key))
                valid = 0
                seen_clause = set()
                for k in range(a.count):
                    raw = c.gen(rng)
                    try:
                        fails = check_once(reg, c, raw)
                    except (AttributeError, ImportError, TypeError) as e:
                        # the function under contract cannot be resolved / called as the contract expects
                        # (renamed, signature changed): undecided for the run-time tier, not a harness crash
                        out.setdefault("unresolved", {})[c.key] = "%s: %s" % (type(e).__name__, str(e)[:200])
                        fails = None
                        break
                    if fails is None:
                        continue
                    valid += 1
                    if valid <= 1:
                        out["samples"].append({"function": c.name, "args": jsonable(raw)})
                    for fl in fails:
                        if fl["clause"] not in seen_clause:
                            seen_clause.add(fl["clause"])
                            out["fails"].append(fl)
                out["functions"][c.key] = {"drawn": a.count, "valid": valid}
                out["evaluations"] += valid
                if c.key in out.get("unresolved", {}):
                    continue
                if valid < max(10, a.count // 10):
                    out["crashes"].append("generator of %s satisfies its precondition on only %d of %d draws"
                                          % (c.key, valid, a.count))
    except Exception:
        out["crashes"].append(traceback.format_exc()[-3000:])
    out["wall_s"] = round(time.time() - t0, 2)
    with open(a.out, "w") as f:
        json.dump(out, f, default=str)
    return 0


if __name__ == "__main__":
    sys.exit(main())

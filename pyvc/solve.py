"""pyvc.solve — discharge VCs: z3 first (own process, time-limited), cvc5 on z3's unknowns."""
import multiprocessing as mp
import os
import subprocess
import time

import z3


def _walk(e, seen):
    stack = [e]
    while stack:
        t = stack.pop()
        k = t.get_id()
        if k in seen:
            continue
        seen.add(k)
        yield t
        if z3.is_quantifier(t):
            stack.append(t.body())
        elif z3.is_app(t):
            stack.extend(t.children())


def has_var(t):
    for s in _walk(t, set()):
        if z3.is_var(s):
            return True
    return False


def spec_closure(eng, specs, formulas, fuel=2, quantified=True):
    """definitional instances of recursive spec functions at the ground applications occurring in `formulas`"""
    decls = {s.decl().name(): s for s in specs.values() if s.recursive}
    if not decls:
        return []
    out, seen_apps, used = [], set(), set()
    frontier = list(formulas)
    visited = set()
    for _ in range(fuel):
        new = []
        for f in frontier:
            for t in _walk(f, visited):
                if z3.is_app(t) and t.decl().name() in decls:
                    used.add(t.decl().name())
                    if t.get_id() in seen_apps or has_var(t):
                        continue
                    seen_apps.add(t.get_id())
                    inst = decls[t.decl().name()].instance(eng, t.children())
                    out.append(inst)
                    new.append(inst)
        frontier = new
        if not frontier:
            break
    if quantified:
        for nm in sorted(used):
            out.append(decls[nm].axiom(eng))
    return out


def spec_names_in(t, decl_names, cache=None):
    out = set()
    for sub in _walk(t, set()):
        if z3.is_app(sub) and sub.decl().kind() == z3.Z3_OP_UNINTERPRETED and sub.decl().name() in decl_names:
            out.add(sub.decl().name())
    return out


def prune_hyps(specs, hyps, goal, extra=()):
    """Relevance filter (sound: proving from a subset of the hypotheses): drop hypotheses that talk about recursive
    spec functions which neither the goal nor the definitions it depends on mention."""
    import ast as _ast
    rec = {s.decl().name(): s for s in specs.values() if s.recursive}
    if not rec:
        return hyps, False
    deps = {}
    for nm, sp in specs.items():
        deps[nm] = {n.func.id for n in _ast.walk(sp.body) if isinstance(n, _ast.Call) and isinstance(n.func, _ast.Name)
                    and n.func.id in specs}
    want = {d[len("spec_"):] for d in spec_names_in(goal, rec)} | set(extra)
    # non-recursive specs are inlined, so their callees already occur in the goal term
    frontier = list(want)
    while frontier:
        nm = frontier.pop()
        for d in deps.get(nm, ()):
            if d not in want:
                want.add(d)
                frontier.append(d)
    keep_decls = {"spec_" + nm for nm in want}
    out, dropped = [], False
    for h in hyps:
        used = spec_names_in(h, rec)
        if used and not (used <= keep_decls):
            dropped = True
            continue
        out.append(h)
    return out, dropped


def to_smt2(hyps, goal):
    s = z3.Solver()
    for h in hyps:
        s.add(h)
    s.add(z3.Not(goal))
    return s.to_smt2()


def _consts_by_name(assertions):
    out = {}
    seen = set()
    for a in assertions:
        for t in _walk(a, seen):
            if z3.is_const(t) and t.decl().kind() == z3.Z3_OP_UNINTERPRETED:
                out[t.decl().name()] = t
    return out


def _val(v):
    if z3.is_int_value(v):
        return v.as_long()
    if z3.is_rational_value(v):
        return v.numerator_as_long() / v.denominator_as_long()
    if z3.is_true(v):
        return True
    if z3.is_false(v):
        return False
    if z3.is_algebraic_value(v):
        a = v.approx(20)
        return a.numerator_as_long() / a.denominator_as_long()
    return str(v)


def _check(job):
    smt2, timeout_ms, readback, cvc5_ms = job
    t0 = time.time()
    res = {"result": "unknown", "solver": "z3", "reason": ""}
    try:
        s = z3.Solver()
        s.set("timeout", timeout_ms)
        s.from_string(smt2)
        r = s.check()
        res["result"] = str(r)
        if r == z3.unknown:
            res["reason"] = s.reason_unknown()
        if r == z3.sat and readback:
            m = s.model()
            consts = _consts_by_name(s.assertions())
            model = {}
            for name, spec in readback.items():
                if spec[0] == "scalar":
                    c = consts.get(spec[1])
                    model[name] = _val(m.eval(c, model_completion=True)) if c is not None else None
                else:
                    _k, cname, lens, ndim = spec
                    c = consts.get(cname)
                    dims = []
                    for ln in lens:
                        lc = consts.get(ln)
                        dims.append(_val(m.eval(lc, model_completion=True)) if lc is not None else 6)
                    model[name] = {"shape": dims, "data": None}
                    if c is not None and all(isinstance(d, int) and 0 <= d <= 12 for d in dims):
                        def rd(term, k):
                            if k == ndim:
                                return _val(m.eval(term, model_completion=True))
                            return [rd(z3.Select(term, i), k + 1) for i in range(dims[k])]
                        model[name]["data"] = rd(c, 0)
            res["model"] = model
    except Exception as e:       # parser / API failure: undecided, never a verdict
        res = {"result": "unknown", "solver": "z3", "reason": "exception: %r" % (e,)}
    res["z3_s"] = round(time.time() - t0, 3)
    if res["result"] == "unknown" and cvc5_ms:
        t1 = time.time()
        try:
            p = subprocess.run(["/usr/bin/cvc5", "--lang=smt2", "--tlimit=%d" % cvc5_ms, "--full-saturate-quant"],
                               input="(set-logic ALL)\n" + smt2, capture_output=True, text=True,
                               timeout=cvc5_ms / 1000.0 + 5)
            out = p.stdout.strip().split("\n")[0] if p.stdout.strip() else ""
            if out == "unsat":
                res.update(result="unsat", solver="cvc5")
            elif out == "sat":
                res.update(result="sat", solver="cvc5", reason="cvc5 model not read back")
            else:
                res["reason"] += " | cvc5: " + (out or p.stderr.strip()[:200])
        except Exception as e:
            res["reason"] += " | cvc5 exception %r" % (e,)
        res["cvc5_s"] = round(time.time() - t1, 3)
    return res


def discharge(jobs, procs=16):
    """jobs: list of (smt2, timeout_ms, readback, cvc5_ms) -> list of result dicts (same order)"""
    if not jobs:
        return []
    ctx = mp.get_context("fork")
    with ctx.Pool(min(procs, len(jobs))) as pool:
        return pool.map(_check, jobs, chunksize=1)

"""STAND-IN for the proprietary `cplex` module (not installed, not installable in the sandbox).

It implements exactly the API calls the repository makes, validates what CPLEX would validate (aligned lengths of rows /
senses / rhs / names, known variable names, binary types) and solves the 0/1 program it is given
 * by complete depth-first enumeration of the feasible 0/1 assignments (bound propagation on every row) when the
   model has at most 30 variables (n <= 5 elements), returning ALL optimal solutions for populate_solution_pool();
 * by CBC (through PuLP) on the very same rows beyond that, with no-good cuts to enumerate all optima.
It says nothing about CPLEX itself.  It lets the repository's unmodified driver / model-building / decoding code run.
"""
STANDIN = True
__version__ = "standin-0"

DFS_MAX_VARS = 30


class CplexError(Exception):
    pass


class _Param:
    def __init__(self):
        self.value = None

    def set(self, v):
        self.value = v


class _NS:
    """attribute bag that creates parameters / namespaces on demand"""
    _leaf = ("timelimit", "workmem", "treememory", "mipgap", "absgap", "intensity", "populate", "relgap")

    def __getattr__(self, name):
        if name.startswith("__"):
            raise AttributeError(name)
        obj = _Param() if name in self._leaf else _NS()
        setattr(self, name, obj)
        return obj


class _Sense:
    minimize = 1
    maximize = -1


class _Objective:
    sense = _Sense

    def __init__(self):
        self._sense = 1

    def set_sense(self, s):
        self._sense = s


class _Variables:
    def __init__(self):
        self.obj, self.lb, self.ub, self.names, self.types = [], [], [], [], ""
        self.index = {}

    def add(self, obj=None, lb=None, ub=None, types="", names=None):
        n = len(obj)
        if not (len(lb) == len(ub) == len(names) == n) or len(types) != n:
            raise CplexError("variables.add: inconsistent argument lengths")
        for k, nm in enumerate(names):
            if nm in self.index:
                raise CplexError("duplicate variable name " + nm)
            self.index[nm] = len(self.names)
            self.names.append(nm)
            self.obj.append(float(obj[k]))
            self.lb.append(lb[k])
            self.ub.append(ub[k])
        if set(types) - {"B"}:
            raise CplexError("stand-in supports binary variables only")
        self.types += types


class _Constraints:
    def __init__(self, variables):
        self._v = variables
        self.rows = []      # (list of (var index, coef), sense, rhs)

    def add(self, lin_expr=None, senses="", rhs=None, names=None):
        if not (len(lin_expr) == len(senses) == len(rhs)):
            raise CplexError("linear_constraints.add: inconsistent argument lengths (%d rows, %d senses, %d rhs)"
                             % (len(lin_expr), len(senses), len(rhs)))
        if names is not None and len(names) != len(rhs):
            raise CplexError("linear_constraints.add: inconsistent number of names")
        for row, s, b in zip(lin_expr, senses, rhs):
            inds, coefs = row
            if len(inds) != len(coefs):
                raise CplexError("row: inconsistent lengths")
            merged = {}
            for nm, c in zip(inds, coefs):
                if nm not in self._v.index:
                    raise CplexError("unknown variable " + str(nm))
                merged[self._v.index[nm]] = merged.get(self._v.index[nm], 0.0) + float(c)
            if s not in "ELG":
                raise CplexError("bad sense " + s)
            self.rows.append((sorted(merged.items()), s, float(b)))


class _Pool:
    def __init__(self, sol):
        self._s = sol

    def get_num(self):
        return len(self._s._all)

    def get_values(self, i):
        return list(self._s._all[i])


class _Solution:
    def __init__(self):
        self._all = []
        self.pool = _Pool(self)

    def get_values(self):
        if not self._all:
            raise CplexError("no solution")
        return list(self._all[0])

    def get_objective_value(self):
        return self._obj


class Cplex:
    def __init__(self):
        self.parameters = _NS()
        self.objective = _Objective()
        self.variables = _Variables()
        self.linear_constraints = _Constraints(self.variables)
        self.solution = _Solution()

    def set_results_stream(self, _):
        pass

    set_log_stream = set_error_stream = set_warning_stream = set_results_stream

    # ------------------------------------------------------------------------------------------------------------
    def solve(self):
        sols, obj = self._optima(all_optima=False)
        self.solution._all, self.solution._obj = sols, obj

    def populate_solution_pool(self):
        sols, obj = self._optima(all_optima=True)
        self.solution._all, self.solution._obj = sols, obj

    def _optima(self, all_optima):
        nv = len(self.variables.names)
        if nv <= DFS_MAX_VARS:
            return self._dfs(all_optima)
        return self._cbc(all_optima)

    def _dfs(self, all_optima):
        nv = len(self.variables.names)
        rows = self.linear_constraints.rows
        sign = self.objective._sense
        obj = self.variables.obj
        by_var = [[] for _ in range(nv)]
        for ri, (terms, _s, _b) in enumerate(rows):
            for vi, _c in terms:
                by_var[vi].append(ri)
        # order: follow the equality rows so that propagation bites early
        order, seen = [], set()
        for terms, s, _b in rows:
            if s == "E":
                for vi, _c in terms:
                    if vi not in seen:
                        seen.add(vi)
                        order.append(vi)
        order += [v for v in range(nv) if v not in seen]
        assign = [None] * nv
        lo = [sum(min(0.0, c) for _v, c in terms) for terms, _s, _b in rows]
        hi = [sum(max(0.0, c) for _v, c in terms) for terms, _s, _b in rows]
        best = [None]
        found = []
        eps = 1e-9

        def ok(ri):
            _t, s, b = rows[ri]
            if s == "L":
                return lo[ri] <= b + eps
            if s == "G":
                return hi[ri] >= b - eps
            return lo[ri] <= b + eps and hi[ri] >= b - eps

        coefs = [dict(t) for t, _s, _b in rows]

        def rec(k):
            if k == nv:
                val = sum(obj[i] * assign[i] for i in range(nv)) * sign
                if best[0] is None or val < best[0] - eps:
                    best[0] = val
                    found[:] = [list(map(float, assign))]
                elif abs(val - best[0]) <= eps and all_optima:
                    found.append(list(map(float, assign)))
                return
            v = order[k]
            for bit in (0, 1):
                assign[v] = bit
                touched = []
                good = True
                for ri in by_var[v]:
                    c = coefs[ri][v]
                    # fixing v: its contribution becomes c*bit instead of the interval [min(0,c), max(0,c)]
                    d_lo = c * bit - min(0.0, c)
                    d_hi = c * bit - max(0.0, c)
                    lo[ri] += d_lo
                    hi[ri] += d_hi
                    touched.append((ri, d_lo, d_hi))
                    if not ok(ri):
                        good = False
                        break
                if good:
                    rec(k + 1)
                for ri, d_lo, d_hi in touched:
                    lo[ri] -= d_lo
                    hi[ri] -= d_hi
            assign[v] = None

        rec(0)
        if not found:
            raise CplexError("infeasible model")
        return found, best[0] * sign

    def _cbc(self, all_optima):
        import pulp
        names = self.variables.names
        prob = pulp.LpProblem("standin", pulp.LpMinimize if self.objective._sense == 1 else pulp.LpMaximize)
        xs = [pulp.LpVariable("v%d" % i, 0, 1, cat="Binary") for i in range(len(names))]
        prob += pulp.lpSum(self.variables.obj[i] * xs[i] for i in range(len(xs)))
        for terms, s, b in self.linear_constraints.rows:
            e = pulp.lpSum(c * xs[vi] for vi, c in terms)
            prob += (e == b) if s == "E" else (e <= b) if s == "L" else (e >= b)
        sols, best = [], None
        while True:
            prob.solve(pulp.PULP_CBC_CMD(msg=False))
            if pulp.LpStatus[prob.status] != "Optimal":
                break
            vals = [float(round(x.value())) for x in xs]
            val = sum(self.variables.obj[i] * vals[i] for i in range(len(xs)))
            if best is None:
                best = val
            elif abs(val - best) > 1e-7:
                break
            sols.append(vals)
            if not all_optima:
                break
            ones = [xs[i] for i in range(len(xs)) if vals[i] > 0.5]
            zeros = [xs[i] for i in range(len(xs)) if vals[i] < 0.5]
            prob += pulp.lpSum(ones) - pulp.lpSum(zeros) <= len(ones) - 1
        if not sols:
            raise CplexError("infeasible model")
        return sols, best

"""C14 bounded tier: declared scheme applicability is truthful; complete data is never refused.

Clauses (site = configuration name unless stated)
  C14.arity       is_scoring_scheme_relevant_when_incomplete_rankings(scheme) raised TypeError (a call that does not match
                  the callee's signature)                                                        [D5 on the unchanged tree]
  C14.total       the predicate raised anything else, or returned something that is not a bool
  C14.truthful    a LEAF algorithm's answer differs from what its documentation / the property defines as relevant:
                  PickAPerm: scheme == k * unifying scheme (one k > 0 over BOTH penalty vectors);
                  Borda: scheme == k * one of unifying(p=1), unifying(p=.5), induced(p=1), induced(p=.5);
                  every other leaf: True.  site = leaf class ("PickAPerm", "Borda", ...)             [D1 shows here]
                  C14.truthful: answers True where the definition says False (over-claims);
                  C14.truthful.denies: answers False where the definition says True
  C14.delegation  a nested configuration's answer differs from the documented rule applied to the ACTUAL answers of its
                  parts (BioConsert: all starters relevant; ParCons: the auxiliary algorithm's answer)
  C14.accept      declared relevant, yet an incomplete dataset was refused
  C14.refuse      Borda / PickAPerm / BioConsert started from them declared the scheme NOT relevant, yet computed a
                  consensus on an incomplete dataset instead of refusing with an exception
  C14.complete    a complete dataset was refused
  C14.wellformed  the consensus computed (complete dataset, or incomplete and declared relevant) is not well formed
                  (C14.wellformed.types when only the int / str typing of the names is lost, cf. C03.W.types)
  C14.crash       compute_consensus_rankings died with NameError on the absent cplex module      [D7 / D8]
  C14.exception   compute_consensus_rankings died with another undocumented exception; site "<configuration>: <type>"

When a nested configuration's own predicate fails (C14.arity), the declaration used for C14.accept / C14.refuse is the
documented rule applied to the answers of its parts, so the compute-side clauses stay checked.
"""
import random

from bounded import domains as D
from bounded import oracle as O
from bounded import C03 as base

ID = "C14"
SCHEMES = base.SCHEMES
RULE = ("'pred' cases: one per scheme (%d: presets, p=.5 variants, dyadic multiples incl. x3 and x1/8192, generic, boundary, "
        "6 schemes whose B vector is proportional to a preset while T is not): every configuration's predicate is called "
        "and compared with the definitional answer.  'compute' cases: (dataset, naming, scheme): every configuration "
        "(21 + 4 re-run through the cplex stand-in; every pivot sequence for n<=4) computes a consensus and is judged "
        "against its own declaration and the completeness of the dataset.  quick: all datasets of <= 2 rankings from R(3) "
        "x 6 rotating schemes, corner datasets x 2 namings x all schemes, 300 seeded datasets (n<=5, m<=4) x 2 schemes. "
        "distinct = distinct (dataset, naming, scheme, configuration, pivot sequence) judged; single-ranking datasets are "
        "complete and count." % len(SCHEMES))
EXHAUSTIVE = {"quick": False, "thorough": False}
SCOPE = {"quick": "%d schemes x 21 predicates; 700 datasets (n<=3, m<=2, exhaustive; 224 complete) x 6 schemes + 17 corner "
                  "datasets x 2 namings x %d schemes + 300 sampled x 2 schemes; 25 configurations" % (len(SCHEMES),
                                                                                                   len(SCHEMES)),
         "thorough": "adds 200 grid schemes {0,.5,1,2,3}^7 (predicates + 3 datasets each), all datasets n<=3 m<=2 x ALL "
                     "schemes, 3000 sampled (n<=6, m<=5) x 2 schemes"}
CHUNK = 4
# every 4th case is run a second time with its datasets reached through a history (vlib.t2run._with_histories)
VIA_EVERY = {"quick": 4, "thorough": 4}
TIMEOUT = 300
ASSUMPTIONS = base.ASSUMPTIONS

# nested configurations: label -> parts (labels); leaves are absent from the table
PARTS = {
    "BioConsert": [],
    "BioConsert[Copeland,KwikSort]": ["Copeland", "KwikSortRandom"],
    "BioConsert[PickAPerm]": ["PickAPerm"],
    "BioConsert[KwikSort,Borda]": ["KwikSortRandom", "Borda"],
    "BioConsert[BioConsert,BioConsert[Borda]]": ["BioConsert", "BioCo"],
    "BioCo": ["Borda"],
    "ParCons": ["BioConsert"],
    "ParCons(bound=0)": ["BioConsert"],
    "ParCons(bound=2,aux=KwikSort)": ["KwikSortRandom"],
    "ParCons(bound=3,aux=KwikSort)": ["KwikSortRandom"],
    "ParCons(bound=0,aux=BioCo)": ["BioCo"],
}
LEAF_SITE = {"BordaBucketId": "Borda"}
MUST_REFUSE = ("Borda", "BordaBucketId", "PickAPerm", "BioCo", "BioConsert[PickAPerm]", "BioConsert[KwikSort,Borda]",
               "BioConsert[BioConsert,BioConsert[Borda]]")
BORDA_OK = [D.unifying(1.), D.unifying(.5), D.induced(1.), D.induced(.5)]


def leaf_expected(label, scheme):
    if label == "PickAPerm":
        return O.proportional(scheme, D.unifying(1.))
    if label in ("Borda", "BordaBucketId"):
        return any(O.proportional(scheme, s) for s in BORDA_OK)
    return True


def ask(label, scheme):
    """("bool", answer) | ("arity", text) | ("total", text): the predicate of configuration `label` on `scheme`."""
    from bounded import adapt as A, algs
    with algs.cplex_mode(bool(algs.flags(label).get("standin"))):
        try:
            alg = algs.make(label)
            with A.quiet():
                ans = alg.is_scoring_scheme_relevant_when_incomplete_rankings(A.mk_scheme(scheme))
        except TypeError as e:
            return "arity", "TypeError: %s" % str(e)[:200]
        except Exception as e:
            if base.harness_exc(e):
                raise
            return "total", "%s: %s" % (type(e).__name__, str(e)[:200])
    if isinstance(ans, bool) or type(ans).__name__ in ("bool_", "bool"):
        return "bool", bool(ans)
    return "total", "returned %r (%s), not a bool" % (ans, type(ans).__name__)


def by_rule(label, scheme, cache):
    """The documented delegation rule applied to the actual answers of the parts; None when some part gave no answer."""
    if label not in PARTS:
        kind, ans = answer(label, scheme, cache)
        return ans if kind == "bool" else None
    vals = [declared(p, scheme, cache) for p in PARTS[label]]
    if any(v is None for v in vals):
        return None
    return all(vals)


def answer(label, scheme, cache):
    if label not in cache:
        cache[label] = ask(label, scheme)
    return cache[label]


def declared(label, scheme, cache):
    kind, ans = answer(label, scheme, cache)
    if kind == "bool":
        return ans
    if label in PARTS:
        return by_rule(label, scheme, cache)
    return None


def check_predseq(case):
    """ONE object per configuration is asked about a sequence of schemes (scheme objects created and dropped one after the
    other): every answer must be the one a fresh object gives for that scheme (no answer carried over between questions)"""
    from bounded import adapt as A, algs
    fails, evals = [], 0
    order = case["order"]
    for label in algs.CONFIGS:
        with algs.cplex_mode(bool(algs.flags(label).get("standin"))):
            try:
                alg = algs.make(label)
            except Exception as e:
                if base.harness_exc(e):
                    raise
                continue
            for k in order:
                scheme = SCHEMES[k]
                kind, fresh = ask(label, scheme)
                if kind != "bool":
                    continue                            # reported by the 'pred' cases
                try:
                    with A.quiet():
                        got = alg.is_scoring_scheme_relevant_when_incomplete_rankings(A.mk_scheme(scheme))
                except Exception as e:
                    if base.harness_exc(e):
                        raise
                    got = "%s: %s" % (type(e).__name__, str(e)[:100])
                evals += 1
                if got is not fresh and got != fresh:
                    fails.append({"clause": "C14.truthful.sequence", "site": label,
                                  "detail": {"scheme": scheme, "answer_of_the_reused_object": got,
                                             "answer_of_a_fresh_object": fresh,
                                             "asked_before": [SCHEMES[j] for j in order[:order.index(k)]][-3:]}})
                    break
    return {"fails": fails, "key": "predseq|%s" % order, "nkeys": max(evals - 1, 0), "evals": evals, "sample": case}


def gen_cases(tier, seed):
    kinds = list(base.NAME_KINDS)
    ns = len(SCHEMES)
    for s in SCHEMES:
        yield {"kind": "pred", "scheme": s}
    rng_o = random.Random(seed * 31 + 14)
    for _ in range(3 if tier == "quick" else 20):
        order = list(range(ns))
        rng_o.shuffle(order)
        yield {"kind": "predseq", "order": order}
    i = 0
    for d in D.all_datasets(3, 2):
        picks = range(ns) if tier == "thorough" else [(i * 6 + j * 7) % ns for j in range(6)]
        for j, si in enumerate(picks):
            kind = kinds[(i + j) % len(kinds)]
            yield {"kind": "compute", "rankings": base.named(d, kind), "scheme": SCHEMES[si], "namekind": kind,
                   "one": bool((i + j) % 2)}
        i += 1
    for ci, d in enumerate(base.CORNERS):
        for ki in range(2):
            kind = kinds[(ci + 3 * ki) % len(kinds)]
            for si, s in enumerate(SCHEMES):
                yield {"kind": "compute", "rankings": base.named(d, kind), "scheme": s, "namekind": kind,
                       "one": bool((ci + si) % 2)}
    rng = random.Random(seed * 15485863 + 5)
    for i in range(300 if tier == "quick" else 3000):
        d = D.random_dataset(rng, 5 if tier == "quick" else 6, 4 if tier == "quick" else 5, complete=(i % 3 == 0))
        if i % 11 == 0:
            d = d + [[]]
        kind = kinds[i % len(kinds)]
        for j in range(2):
            yield {"kind": "compute", "rankings": base.named(d, kind), "scheme": SCHEMES[(i * 2 + j * 17) % ns],
                   "namekind": kind, "one": bool((i + j) % 2)}
    if tier == "thorough":
        small = [base.CORNERS[8], base.CORNERS[6], [[[0], [1, 2]], [[1], [2], [0]]]]
        for gi, s in enumerate(D.grid_schemes(random.Random(seed + 99), 200)):
            yield {"kind": "pred", "scheme": s}
            for di, d in enumerate(small):
                yield {"kind": "compute", "rankings": base.named(d, kinds[(gi + di) % len(kinds)]), "scheme": s,
                       "namekind": kinds[(gi + di) % len(kinds)], "one": bool(gi % 2)}


def check_pred(case):
    from bounded import algs
    scheme = case["scheme"]
    fails, cache, evals = [], {}, 0
    for label in algs.CONFIGS:
        kind, ans = answer(label, scheme, cache)
        evals += 1
        if kind == "arity":
            fails.append({"clause": "C14.arity", "site": label, "detail": {"exception": ans}})
        elif kind == "total":
            fails.append({"clause": "C14.total", "site": label, "detail": {"problem": ans}})
    seen = set()
    for label in algs.CONFIGS:
        kind, ans = cache[label]
        if kind != "bool":
            continue
        if label in PARTS:
            exp = by_rule(label, scheme, cache) if PARTS[label] else True
            if exp is not None and ans != exp:
                fails.append({"clause": "C14.delegation", "site": label,
                              "detail": {"answer": ans, "parts": {p: declared(p, scheme, cache) for p in PARTS[label]},
                                         "expected": exp}})
        else:
            exp = leaf_expected(label, scheme)
            site = LEAF_SITE.get(label, label)
            clause = "C14.truthful" if ans else "C14.truthful.denies"
            if ans != exp and (clause, site) not in seen:
                seen.add((clause, site))
                fails.append({"clause": clause, "site": site,
                              "detail": {"configuration": label, "answer": ans, "expected": exp}})
    return {"fails": fails, "key": "pred|%s" % scheme, "nkeys": max(evals - 1, 0), "evals": evals, "sample": case}


def check_case(case):
    if case["kind"] == "pred":
        return check_pred(case)
    if case["kind"] == "predseq":
        return check_predseq(case)
    from bounded import adapt as A, algs
    rankings, scheme, one_req = case["rankings"], case["scheme"], case["one"]
    exp_r, _ = A.expected_names(rankings)
    universe = set(D.universe_of(exp_r))
    n_univ = len(universe)
    complete = D.is_complete(exp_r)
    fails, seen, evals, judged, cache = [], set(), 0, 0, {}

    def add(f):
        sig = (f["clause"], f["site"])
        if sig not in seen:
            seen.add(sig)
            fails.append(f)

    for label, bname, standin in base.config_table():
        one = True if algs.flags(bname).get("one_only") else one_req
        decl = None if complete else declared(bname, scheme, cache)
        for tag, st, p in base.runs(bname, standin, rankings, scheme, one, n_univ):
            evals += 1
            ctx = {"config": label, "one": one, "run": tag, "complete": complete, "declared_relevant": decl}
            if st == "exc":
                add(base.exc_fail("C14", label, p, ctx))
                continue
            if st == "refused" and p == "arguments":
                add({"clause": "C14.exception", "site": "%s: IncompatibleArgumentsException" % label, "detail": ctx})
                continue
            if complete:
                judged += 1
                if st == "refused":
                    add({"clause": "C14.complete", "site": label, "detail": ctx})
                    continue
            else:
                if decl is None:
                    continue                # no declaration obtainable (reported by the 'pred' cases)
                judged += 1
                if decl and st == "refused":
                    add({"clause": "C14.accept", "site": label, "detail": ctx})
                    continue
                if not decl:
                    if st == "ok" and bname in MUST_REFUSE:
                        add({"clause": "C14.refuse", "site": label,
                             "detail": dict(ctx, consensus=[A.ranking_to_raw(r) for r in p.consensus_rankings][:2])})
                    continue                # declared not relevant: nothing is promised about the result
            try:
                why = algs.well_formed(p, universe, one)
            except Exception as e:
                if base.harness_exc(e):
                    raise
                why = "result is not a list of rankings of buckets: %s: %s" % (type(e).__name__, e)
            if why is not None:
                clause = "C14.wellformed.types" if base.only_types_differ(p, universe, one) else "C14.wellformed"
                add({"clause": clause, "site": label, "detail": dict(ctx, problem=why)})
    key = "%s|%s|%s" % (rankings, scheme, one_req) if judged else None
    return {"fails": fails, "key": key, "nkeys": max(judged - 1, 0), "evals": evals, "sample": case}

"""C17 bounded tier: Dataset equality == equality of the multisets of rankings, nothing else.

Clauses
  C17.prop          (a == b)  <=>  same multiset of rankings, a ranking being the sequence of its buckets as sets
                    (tuple of frozensets of (type, value) after the documented name conversion); irrespective of the
                    order of the rankings, of bucket-member insertion / iteration order, of the way the bucket was built
                    and of the dataset names.  All ordered pairs are evaluated, so symmetry is part of it.
                    Sites:  "Dataset.__eq__ via str(set)"     unequal although equal, and the two datasets differ in the
                                                              iteration order of some bucket (hash-order dependence)
                            "Dataset.__eq__ false negative"   unequal although equal, bucket iteration orders identical
                            "Dataset.__eq__ false positive"   equal although the multisets differ
                            "Dataset.__eq__ via str(ranking): names with blanks or delimiters"
                                                              false positive that involves a name containing ' ' , { }
  C17.reflexive     d == d (same object) and d == an identically built copy
  C17.ranking_eq    Ranking.__eq__ agrees with the same oracle on single rankings (so Dataset equality of one-ranking
                    datasets is consistent with ranking equality whenever C17.prop holds)
  C17.notimpl       comparison with a non-Dataset gives False (NotImplemented from __eq__), never an exception
"""
import itertools
import random

from bounded import oracle as O

ID = "C17"
RULE = ("A concrete dataset is a sequence of <= 2 (near-miss groups: <= 3) rankings over subsets of 3 names, every bucket "
        "given as the ORDER in which its members are inserted (40 concrete rankings, 1640 concrete datasets per name "
        "triple). Name triples collide in an 8-slot hash table (ints 0,8,16; three strings with equal hash&7 under "
        "PYTHONHASHSEED=0) so that set iteration order follows insertion order. allpairs: every ordered pair of concrete "
        "datasets. builds: every abstract dataset built by 7 other construction routes (set literal, reversed, "
        "frozenset, shrunk big set, Element objects, digit strings, rankings reversed) against all insertion-order "
        "variants and against near-misses (one element moved / dropped, one ranking duplicated, one multiplicity "
        "changed with m=3). A pair is non-trivial when both datasets have the same universe and the same number of "
        "rankings (equal or near-miss); distinct = distinct ordered pair of concrete specifications.")
EXHAUSTIVE = {"quick": False, "thorough": False}
SCOPE = {"quick": "all 2 x 1640^2 = 5.4M ordered pairs (n<=3, m<=2; colliding ints, colliding strings) + 2 x 701 abstract "
                  "datasets x 7 build routes x (order variants + near-misses incl. m=3) + exotic names (7 names, n<=2, "
                  "m=1, all pairs) + 300 sampled pairs n=4 (0,8,16,24)",
         "thorough": "all 5 x 1640^2 = 13.4M ordered pairs (5 name triples) + 5 x 701 x 7 build routes + exotic names + "
                     "100000 sampled pairs n=4, m<=3"}
CHUNK = 4
TIMEOUT = 600

SITE_ORDER = "Dataset.__eq__ via str(set)"
SITE_FN = "Dataset.__eq__ false negative"
SITE_FP = "Dataset.__eq__ false positive"
SITE_NAMES = "Dataset.__eq__ via str(ranking): names with blanks or delimiters"

EXOTIC = ["a", "b", "ab", "a b", "a,b", "a},{b", "a  b"]


# ---------------------------------------------------------------------------------------------------------------------
# pure-Python generation (no repo import)
def colliding_strings(k=3):
    """k one/two-letter strings with equal hash & 7 (deterministic for a fixed PYTHONHASHSEED)."""
    pool = [c for c in "abcdefghijklmnopqrstuvwxyz"] + [a + b for a in "abcdefgh" for b in "abcdefgh"]
    by = {}
    for s in pool:
        by.setdefault(hash(s) & 7, []).append(s)
        if len(by[hash(s) & 7]) == k:
            return by[hash(s) & 7]
    raise RuntimeError("no colliding strings found")


def name_triples(tier):
    # "samehash": two different ints with exactly the same hash (CPython hashes ints modulo 2**61 - 1), so also their
    # frozensets / tuples hash alike: equality must compare values, not fingerprints
    out = {"collide": [0, 8, 16], "strcollide": colliding_strings(3), "samehash": [3, 3 + (2 ** 61 - 1), 7]}
    if tier != "quick":
        out["canon"] = [0, 1, 2]
        out["intstr"] = ["0", "8", "16"]
        out["mixed"] = ["8", "x0", "0"]
    return out


def concrete_rankings(names):
    """All rankings over subsets of names, buckets as insertion-ordered member lists (40 for 3 names)."""
    out = [[]]
    for k in range(1, len(names) + 1):
        for sub in itertools.combinations(names, k):
            for perm in itertools.permutations(sub):
                for cuts in itertools.product([0, 1], repeat=k - 1):
                    r, cur = [], [perm[0]]
                    for x, c in zip(perm[1:], cuts):
                        if c:
                            r.append(cur)
                            cur = [x]
                        else:
                            cur.append(x)
                    r.append(cur)
                    out.append(r)
    return out


def concrete_datasets(names, m=2):
    rs = concrete_rankings(names)
    out = []
    for k in range(1, m + 1):
        for combo in itertools.product(rs, repeat=k):
            if any(combo):
                out.append([r for r in combo])
    return out


def abstract_datasets(names, m=2):
    rs = O.rankings_over(list(names))
    out = []
    for k in range(1, m + 1):
        for combo in itertools.product(rs, repeat=k):
            if any(combo):
                out.append([[list(b) for b in r] for r in combo])
    return out


def order_variants(ds, limit=48):
    """All datasets obtained by permuting the insertion order inside every bucket (capped), rankings in both orders."""
    per_bucket = []
    for r in ds:
        for b in r:
            per_bucket.append(list(itertools.permutations(b)))
    out = []
    for choice in itertools.islice(itertools.product(*per_bucket), limit):
        it = iter(choice)
        v = [[list(next(it)) for _ in r] for r in ds]
        out.append(v)
        if len(ds) > 1:
            out.append(v[::-1])
    return out


def near_misses(ds):
    out = []
    for i, r in enumerate(ds):
        for mv in O.single_moves(r):                       # one element moved
            out.append(ds[:i] + [mv] + ds[i + 1:])
        for x in [x for b in r for x in b]:                # one element dropped
            r2 = [[y for y in b if y != x] for b in r]
            out.append(ds[:i] + [[b for b in r2 if b]] + ds[i + 1:])
        out.append(ds + [r])                               # one ranking duplicated
        if len(r) > 1:
            out.append(ds[:i] + [r[::-1]] + ds[i + 1:])    # buckets reversed
        out.append(ds[:i] + ds[i + 1:])                    # one ranking removed
    if len(ds) == 2:
        r, s = ds
        out += [[r, r, s], [r, s, s], [s, r, r], [s, s, r], [r, s, r]]      # multiplicities changed
    return [d for d in out if d and any(d)]


def passthrough(e):
    """The runner's per-case alarm (CaseTimeout) must never be taken for an exception of the code under test."""
    if type(e).__name__ == "CaseTimeout":
        raise e


def gen_cases(tier, seed):
    triples = name_triples(tier)
    for kind, names in triples.items():
        n_ds = len(concrete_datasets(names))
        for i in range(n_ds):
            yield {"kind": "allpairs", "namekind": kind, "names": names, "i": i}
    for kind, names in triples.items():
        abst = abstract_datasets(names)
        for j in range(0, len(abst), 4):
            yield {"kind": "builds", "namekind": kind, "names": names, "lo": j, "hi": min(j + 4, len(abst))}
    yield {"kind": "exotic"}
    for i in range(120 if tier == "quick" else 1500):
        yield {"kind": "history", "seed": seed * 1000003 + i}
    rng = random.Random(seed * 104729 + 17)
    count = 300 if tier == "quick" else 100000
    names4 = [0, 8, 16, 24]
    batch = []
    for _ in range(count):
        m = rng.randint(1, 3)
        a = []
        while not any(a):
            a = [rand_concrete(rng, names4) for _ in range(m)]
        how = rng.choice(["shuffle", "shuffle", "near", "fresh"])
        if how == "shuffle":
            b = [[rng.sample(bk, len(bk)) for bk in r] for r in a]
            rng.shuffle(b)
        elif how == "near":
            nm = near_misses(a)
            b = rng.choice(nm) if nm else a
            b = [[rng.sample(bk, len(bk)) for bk in r] for r in b]
        else:
            b = []
            while not any(b):
                b = [rand_concrete(rng, names4) for _ in range(m)]
        batch.append([a, b])
        if len(batch) == 50:
            yield {"kind": "sampled", "pairs": batch}
            batch = []
    if batch:
        yield {"kind": "sampled", "pairs": batch}


def rand_concrete(rng, names):
    chosen = [x for x in names if rng.random() < 0.8]
    rng.shuffle(chosen)
    r = []
    for x in chosen:
        if r and rng.random() < 0.6:
            r[-1].append(x)
        else:
            r.append([x])
    return r


# ---------------------------------------------------------------------------------------------------------------------
# oracle
def canon_multiset(ds):
    """List of canonical rankings (compared as a multiset by same_multiset), names converted as documented (all int when all integer-like, else str)."""
    intlike = all((not isinstance(x, str)) or x.isdigit() for r in ds for b in r for x in b)
    conv = (lambda x: int(str(x))) if intlike else (lambda x: str(x))
    rs = [tuple(frozenset((type(conv(x)).__name__, conv(x)) for x in b) for b in r) for r in ds]
    return rs, rs


def same_multiset(ca, cb):
    if len(ca) != len(cb):
        return False
    rest = list(cb)
    for r in ca:
        if r in rest:
            rest.remove(r)
        else:
            return False
    return not rest


# ---------------------------------------------------------------------------------------------------------------------
_CACHE = {}


def build_bucket(members, route="add"):
    from corankco.element import Element
    if route == "add":
        s = set()
        for x in members:
            s.add(x)
        return s
    if route == "literal":
        return set(members)
    if route == "reversed":
        return set(members[::-1])
    if route == "frozenset":
        return frozenset(members)
    if route == "shrunk":                   # a table that was large once: no collisions among 0, 8, 16
        s = set(range(100, 160)) if not isinstance(members[0], str) else set("zz%d" % i for i in range(60))
        for x in members:
            s.add(x)
        for x in list(s):
            if x not in members:
                s.discard(x)
        return s
    if route == "element":
        s = set()
        for x in members:
            s.add(Element(x))
        return s
    if route == "digits":                   # ints given as digit strings (documented to be converted to int)
        s = set()
        for x in members:
            s.add(str(x) if not isinstance(x, str) else x)
        return s
    raise ValueError(route)


def build(ds, name, route="add"):
    from corankco.dataset import Dataset
    from corankco.ranking import Ranking
    if route == "rankrev":
        return Dataset([Ranking([build_bucket(b) for b in r]) for r in ds[::-1]], name=name)
    if route == "rawlist":
        return Dataset.from_raw_list([[build_bucket(b) for b in r] for r in ds], name=name)
    return Dataset([Ranking([build_bucket(b, route) for b in r]) for r in ds], name=name)


def iteration_rendering(d):
    """Multiset (sorted list) of the rankings of a repo Dataset with the members in ITERATION order."""
    out = []
    for r in d.rankings:
        out.append(tuple(tuple((type(e.value).__name__, e.value) for e in b) for b in r))
    return sorted(out, key=repr)


def judge(fails, seen, da, db, sa, sb, ca, cb, note=None, clause="C17.prop"):
    """Evaluate da == db against the oracle; append at most 2 fails per site."""
    expect = same_multiset(ca, cb)
    try:
        got = (da == db)
    except Exception as e:                                  # noqa: BLE001 - repo code under test
        passthrough(e)
        site = "Dataset.__eq__ raises"
        if seen.get(site, 0) < 2:
            fails.append({"clause": clause, "site": site,
                          "detail": {"a": sa, "b": sb, "note": note,
                                     "exception": "%s: %s" % (type(e).__name__, e)}})
        seen[site] = seen.get(site, 0) + 1
        return
    if got is expect:
        return
    if expect:
        site = SITE_ORDER if iteration_rendering(da) != iteration_rendering(db) else SITE_FN
    else:
        exotic = any(isinstance(x, str) and any(ch in x for ch in " ,{}[]") for s in (sa, sb) for r in s for b in r
                     for x in b)
        site = SITE_FP
        if exotic:
            # blame the names only if the same pair with the names replaced by plain ones (bijectively) is judged right
            ren = {}
            for s in (sa, sb):
                for r in s:
                    for b in r:
                        for x in b:
                            ren.setdefault(x, "n%d" % len(ren))
            ra, rb = ([[[ren[x] for x in b] for b in r] for r in s] for s in (sa, sb))
            try:
                if (build(ra, "ra") == build(rb, "rb")) is expect:
                    site = SITE_NAMES
            except Exception as e:                               # noqa: BLE001
                passthrough(e)
                pass
    if seen.get(site, 0) < 2:
        fails.append({"clause": clause, "site": site,
                      "detail": {"a": sa, "b": sb, "note": note, "got": repr(got), "expected": expect,
                                 "str_a": str(da), "str_b": str(db)}})
    seen[site] = seen.get(site, 0) + 1


def hard(ca, cb, sa, sb):
    ua = set(x for r in ca for b in r for x in b)
    ub = set(x for r in cb for b in r for x in b)
    return len(ca) == len(cb) and ua == ub and sa != sb


def check_case(case):
    from bounded import adapt as A  # noqa: F401  (imports corankco)
    from corankco.dataset import Dataset
    from corankco.ranking import Ranking
    fails, seen = [], {}
    kind = case["kind"]

    if kind == "allpairs":
        names = case["names"]
        ck = ("allpairs", tuple(names))
        if ck not in _CACHE:
            specs = concrete_datasets(names)
            canons = [canon_multiset(s)[0] for s in specs]
            left = [build(s, "left") for s in specs]
            right = [build(s, "right-%d" % k) for k, s in enumerate(specs)]
            _CACHE.clear()
            _CACHE[ck] = (specs, canons, left, right)
        specs, canons, left, right = _CACHE[ck]
        i = case["i"]
        da, sa, ca = left[i], specs[i], canons[i]
        nk = 0
        for j in range(len(specs)):
            judge(fails, seen, da, right[j], sa, specs[j], ca, canons[j])
            if hard(ca, canons[j], sa, specs[j]):
                nk += 1
        evals = len(specs)
        # reflexivity
        for other, what in ((da, "same object"), (right[i], "identically built copy")):
            evals += 1
            try:
                ok = (da == other) is True
            except Exception as e:                          # noqa: BLE001
                passthrough(e)
                ok = False
                what += " raised %s: %s" % (type(e).__name__, e)
            if not ok:
                fails.append({"clause": "C17.reflexive", "site": "Dataset.__eq__", "detail": {"a": sa, "with": what}})
        # comparison with non-datasets
        for other in (None, 5, "x", sa, list(da.rankings), da.rankings[0]):
            evals += 1
            try:
                if (da == other) is not False or (da != other) is not True:
                    fails.append({"clause": "C17.notimpl", "site": "Dataset.__eq__",
                                  "detail": {"a": sa, "other": repr(other), "got": "not False"}})
            except Exception as e:                          # noqa: BLE001
                passthrough(e)
                fails.append({"clause": "C17.notimpl", "site": "Dataset.__eq__",
                              "detail": {"a": sa, "other": repr(other), "exception": "%s: %s" % (type(e).__name__, e)}})
        # Ranking.__eq__ against the same oracle (single rankings of this dataset vs all concrete rankings)
        if len(sa) == 1:
            rk = ("rankings", tuple(names))
            if rk not in _CACHE:
                crs = concrete_rankings(names)
                _CACHE[rk] = (crs, [Ranking([build_bucket(b) for b in r]) for r in crs])
            crs, robjs = _CACHE[rk]
            ra = Ranking([build_bucket(b) for b in sa[0]])
            for r2, o2 in zip(crs, robjs):
                evals += 1
                exp = O.canon(sa[0]) == O.canon(r2)
                try:
                    got = (ra == o2)
                except Exception as e:                      # noqa: BLE001
                    passthrough(e)
                    got = "%s: %s" % (type(e).__name__, e)
                if got is not exp and seen.get("req", 0) < 2:
                    seen["req"] = seen.get("req", 0) + 1
                    fails.append({"clause": "C17.ranking_eq", "site": "Ranking.__eq__",
                                  "detail": {"a": sa[0], "b": r2, "got": repr(got), "expected": exp}})
        return {"fails": fails, "key": None, "nkeys": nk, "evals": evals,
                "sample": {"a": sa, "against": "all %d concrete datasets over %s" % (len(specs), names)}}

    if kind == "builds":
        names = case["names"]
        abst = abstract_datasets(names)[case["lo"]:case["hi"]]
        evals = nk = 0
        routes = ["literal", "reversed", "frozenset", "shrunk", "element", "rankrev", "rawlist"]
        if all(not isinstance(x, str) for x in names):
            routes.append("digits")
        for ds in abst:
            ca = canon_multiset(ds)[0]
            variants = order_variants(ds)
            vobjs = [build(v, "v") for v in variants]
            nms = near_misses(ds)
            nobjs = []
            for nm in nms:
                # insertion order of the near-miss reversed in every bucket, so that rendering differs as well
                nm2 = [[b[::-1] for b in r] for r in nm]
                nobjs.append((nm2, canon_multiset(nm2)[0], build(nm2, "nm")))
            for route in routes:
                da = build(ds, "route-" + route, route)
                for v, vo in zip(variants, vobjs):
                    judge(fails, seen, da, vo, ds, v, ca, ca, "a built by route " + route)
                    judge(fails, seen, vo, da, v, ds, ca, ca, "b built by route " + route)
                    evals += 2
                    nk += 2
                for nm2, cn, no in nobjs:
                    judge(fails, seen, da, no, ds, nm2, ca, cn, "a built by route " + route)
                    judge(fails, seen, no, da, nm2, ds, cn, ca, "b built by route " + route)
                    evals += 2
                    nk += 2
            if len(ds) == 2 and any(ds[0]) and any(ds[1]) and ds[0] != ds[1]:
                # same number of rankings, same set of distinct rankings, different multiplicities (and equal ones)
                r_, s_ = ds
                trip = [[r_, r_, s_], [r_, s_, s_], [s_, r_, r_], [s_, s_, r_], [r_, s_, r_]]
                tobjs = [(t, canon_multiset(t)[0], build(t, "trip")) for t in trip]
                for ta, cta, oa in tobjs:
                    for tb, ctb, ob in tobjs:
                        judge(fails, seen, oa, ob, ta, tb, cta, ctb, "three rankings, multiplicities")
                        evals += 1
                        nk += 1
        return {"fails": fails, "key": None, "nkeys": nk, "evals": evals,
                "sample": {"datasets": abst, "routes": routes}}

    if kind == "history":
        # equality is a function of what the datasets contain NOW: compare, mutate one of them in place, compare again
        from collections import Counter
        from bounded import history as H
        from bounded import domains as D
        rng = random.Random(case["seed"])
        d = D.random_dataset(rng, 5, 4, n_min=2)
        # names: every kind in rotation ("mixed" and "intstr": removing elements can change how the names that remain
        # are normalised, int-like strings becoming ints)
        kind = list(D.NAME_KINDS)[case["seed"] % len(D.NAME_KINDS)]
        d = D.rename(d, D.NAME_KINDS[kind](5))
        if rng.random() < 0.5:
            d.insert(rng.randrange(len(d) + 1), [])
        da, db = A.mk_dataset(d), A.mk_dataset([[list(b) for b in r] for r in d])

        def content(ds):
            return Counter(tuple(frozenset((type(A.val(e)).__name__, A.val(e)) for e in b) for b in r)
                           for r in ds.rankings)
        evals, steps = 0, []
        for step in range(3):
            for x, y, what in ((da, db, "A == B"), (db, da, "B == A"), (da, da, "A == A")):
                want = content(x) == content(y)
                got = (x == y)
                evals += 1
                if bool(got) != want:
                    fails.append({"clause": "C17.prop.history", "site": "Dataset.__eq__ after in-place mutation"
                                  if steps else "Dataset.__eq__",
                                  "detail": {"initial": d, "mutations_of_A": list(steps), "compared": what,
                                             "A_now": H._current(da), "B_now": H._current(db),
                                             "got": bool(got), "expected": want}})
                    break
            fresh = A.mk_dataset(H._current(da)) if any(H._current(da)) else None
            if fresh is not None and not fails:
                evals += 1
                if content(fresh) == content(da) and not (da == fresh):
                    fails.append({"clause": "C17.prop.history", "site": "Dataset.__eq__ after in-place mutation",
                                  "detail": {"initial": d, "mutations_of_A": list(steps), "compared": "A == Dataset(A's "
                                             "current rankings)", "A_now": H._current(da), "got": False,
                                             "expected": True}})
            if fails:
                break
            m = None
            alpha = set(e for e in da.universe if not str(A.val(e)).isdigit())
            if step == 0 and alpha and len(alpha) < len(da.universe) and rng.random() < 0.6:
                # remove exactly the names that are not integer-like
                try:
                    da.remove_elements(alpha)
                    m = "remove_elements(%s)" % sorted(str(e) for e in alpha)
                except Exception:
                    m = None
            if m is None:
                m = H._mutate(da, rng)
            if m is None:
                break
            steps.append(m)
        return {"fails": fails[:1], "key": "history|%s|%s" % (d, steps) if steps else None, "evals": evals,
                "sample": {"initial": d, "mutations_of_A": steps}}

    if kind == "exotic":
        specs = []
        for k in (1, 2):
            for sub in itertools.permutations(EXOTIC, k):
                for r in O.ordered_partitions(list(sub)):
                    specs.append([r])
        objs = [build(s, "e") for s in specs]
        canons = [canon_multiset(s)[0] for s in specs]
        evals = 0
        for i in range(len(specs)):
            for j in range(len(specs)):
                judge(fails, seen, objs[i], objs[j], specs[i], specs[j], canons[i], canons[j])
                evals += 1
        return {"fails": fails, "key": "exotic", "nkeys": len(specs), "evals": evals,
                "sample": {"names": EXOTIC, "datasets": len(specs)}}

    # sampled pairs over 4 colliding names
    evals = nk = 0
    for sa, sb in case["pairs"]:
        ca, cb = canon_multiset(sa)[0], canon_multiset(sb)[0]
        da, db = build(sa, "a"), build(sb, "b")
        judge(fails, seen, da, db, sa, sb, ca, cb)
        judge(fails, seen, db, da, sb, sa, cb, ca)
        evals += 2
        if hard(ca, cb, sa, sb):
            nk += 1
    return {"fails": fails, "key": None, "nkeys": nk, "evals": evals, "sample": {"pairs": case["pairs"][:2]}}

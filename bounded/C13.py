"""C13 bounded tier: Copeland ranks by pairwise victories and reports consistent features.

Clauses
  C13.prop       CopelandMethod().compute_consensus_rankings: exactly one consensus ranking, whose buckets are the classes of
                 equal Copeland score in decreasing order of score (score from the definitional cost table: 1 per opponent
                 that is strictly cheaper to place before than after, 1/2 per opponent where both cost the same); same result
                 with return_at_most_one_ranking True / False
  C13.features   copeland_scores and copeland_victories are keyed by exactly the elements of the universe (with the types the
                 Dataset is documented to produce) and carry the oracle's numbers; victories list = [victories, equalities,
                 defeats] (the repo's order)
  C13.conserve   per element victories + equalities + defeats == n - 1, score == victories + equalities / 2,
                 sum of scores == n (n - 1) / 2
  C13.fill       CopelandMethod._fill_dicts_copeland on random mirror-consistent n x n x 3 tables with small integer costs
                 (many equal-cost pairs) against the same definition computed from the table
  C13.raises     any exception out of compute_consensus_rankings (the algorithm declares every scheme relevant)
"""
import random
from fractions import Fraction

from bounded import domains as D
from bounded import oracle as O

ID = "C13"
RULE = ("exhaustive part: every dataset (1..m rankings of R(n), not all empty) under 7 schemes (3 generic + unifying, "
        "pseudo, induced, extended) with element-name kinds rotating so that each dataset is seen under all six; sampled "
        "part: seeded random datasets (incl. duplicated and empty rankings) under every scheme of domains.SCHEMES_ALL. "
        "Non-trivial: universe of >= 2 elements (at least one pairwise duel); distinct = distinct (dataset, name kind, "
        "scheme) triple; fill part: distinct random table.")
EXHAUSTIVE = {"quick": False, "thorough": False}
SCOPE = {"quick": "all 700 datasets n<=3, m<=2 x 7 schemes; 300 sampled datasets n<=5, m<=4 x 25 schemes; 400 random tables "
                  "n<=6 for _fill_dicts_copeland",
         "thorough": "all datasets n<=3, m<=3 (18 275) and all with exactly 4 elements, m<=2 (20 072) x 7 schemes; 25000 "
                     "sampled datasets n<=6, m<=5 x 25 schemes; 20000 random tables n<=7"}
CHUNK = 1
# every 4th case is run a second time with its datasets reached through a history (vlib.t2run._with_histories)
VIA_EVERY = {"quick": 4, "thorough": 4}
TIMEOUT = 600

SCHEMES_EXH = [D.GENERIC_A, D.GENERIC_B, D.GENERIC_C, D.unifying(), D.pseudo(), D.induced(), D.extended()]
KINDS = list(D.NAME_KINDS)
PACK = 25


def gen_cases(tier, seed):
    if tier == "quick":
        streams = [D.all_datasets(3, 2)]
    else:
        streams = [D.all_datasets(3, 3), (d for d in D.all_datasets(4, 2) if len(D.universe_of(d)) == 4)]
    idx = 0
    for st in streams:
        pack = []
        for d in st:
            pack.append(d)
            if len(pack) == PACK:
                yield {"kind": "pack", "first": idx, "datasets": pack}
                idx += len(pack)
                pack = []
        if pack:
            yield {"kind": "pack", "first": idx, "datasets": pack}
            idx += len(pack)
    rng = random.Random(seed * 7919 + 13)
    count = 300 if tier == "quick" else 25000
    for i in range(count):
        d = D.random_dataset(rng, 5 if tier == "quick" else 6, 4 if tier == "quick" else 5)
        if i % 7 == 3:
            d = d + [[list(b) for b in d[0]]]
        if i % 11 == 5:
            d = d + [[]]
        yield {"kind": "sample", "dataset": d, "namekind": KINDS[i % len(KINDS)]}
    count = 400 if tier == "quick" else 20000
    for i in range(count // 20):
        yield {"kind": "fill", "seed": rng.randrange(1 << 30), "count": 20, "nmax": 6 if tier == "quick" else 7}


def _num(v):
    """Exact value of a reported number (numpy float / int) as a Fraction; None if it is not a finite number."""
    try:
        f = float(v)
        if f != f or f in (float("inf"), float("-inf")):
            return None
        return Fraction(f)
    except (TypeError, ValueError):
        return None


def _eval(rankings, scheme, A, CopelandMethod, fails):
    exp_r, _ = A.expected_names(rankings)
    universe = D.universe_of(exp_r)
    n = len(universe)
    B, T = scheme
    tab = O.cost_table(universe, exp_r, B, T)
    classes, score, res = O.copeland_oracle(universe, tab)
    uni_t = set((type(v), v) for v in universe)
    evals = 0
    out = []
    for one in (True, False):
        ds = A.mk_dataset(rankings)
        try:
            cons = CopelandMethod().compute_consensus_rankings(ds, A.mk_scheme(scheme), one)
        except Exception as e:
            fails.append({"clause": "C13.raises", "site": "CopelandMethod.compute_consensus_rankings",
                          "detail": {"exception": type(e).__name__, "msg": str(e)[:300]}})
            return evals
        evals += 1
        out.append(cons)
        rs = cons.consensus_rankings
        if len(rs) != 1:
            fails.append({"clause": "C13.prop", "site": "CopelandMethod consensus (number of rankings)",
                          "detail": {"nb_rankings": len(rs), "return_at_most_one_ranking": one}})
            continue
        got = [sorted(((type(A.val(e)).__name__, A.val(e)) for e in b), key=str) for b in rs[0]]
        exp = [sorted(((type(v).__name__, v) for v in c), key=str) for c in classes]
        if got != exp:
            fails.append({"clause": "C13.prop", "site": "CopelandMethod consensus",
                          "detail": {"got": got, "expected": exp, "oracle_scores": {repr(k): str(v) for k, v in score.items()},
                                     "return_at_most_one_ranking": one}})
    cons = out[0]
    # ---- features ------------------------------------------------------------------------------------------------
    try:
        sc = cons.copeland_scores
        vi = cons.copeland_victories
    except Exception as e:
        fails.append({"clause": "C13.features", "site": "Consensus.copeland_scores/copeland_victories missing",
                      "detail": {"exception": type(e).__name__, "msg": str(e)[:300]}})
        return evals
    for site, dct in (("copeland_scores keys", sc), ("copeland_victories keys", vi)):
        try:
            keys = [(type(A.val(k)), A.val(k)) for k in dct]
        except Exception as e:
            fails.append({"clause": "C13.features", "site": site, "detail": {"exception": type(e).__name__, "msg": str(e)[:300]}})
            return evals
        if len(keys) != n or set(keys) != uni_t:
            fails.append({"clause": "C13.features", "site": site,
                          "detail": {"keys": [repr(k[1]) for k in keys], "universe": [repr(v) for v in universe]}})
            return evals
    total = Fraction(0)
    for k, v in sc.items():
        x = A.val(k)
        f = _num(v)
        if f is None or f != score[x]:
            fails.append({"clause": "C13.features", "site": "copeland_scores values",
                          "detail": {"element": repr(x), "got": repr(v), "expected": str(score[x])}})
            break
        total += f
    else:
        if total != Fraction(n * (n - 1), 2):
            fails.append({"clause": "C13.conserve", "site": "sum of copeland_scores",
                          "detail": {"sum": str(total), "expected": str(Fraction(n * (n - 1), 2))}})
    for k, v in vi.items():
        x = A.val(k)
        try:
            lst = [_num(t) for t in v]
        except TypeError:
            lst = None
        if lst is None or len(lst) != 3 or None in lst:
            fails.append({"clause": "C13.features", "site": "copeland_victories values",
                          "detail": {"element": repr(x), "got": repr(v), "expected [victories, equalities, defeats]": res[x]}})
            break
        if lst != [Fraction(t) for t in res[x]]:
            fails.append({"clause": "C13.features", "site": "copeland_victories values",
                          "detail": {"element": repr(x), "got": [str(t) for t in lst],
                                     "expected [victories, equalities, defeats]": res[x]}})
            if sum(lst) != n - 1:
                fails.append({"clause": "C13.conserve", "site": "victories + equalities + defeats",
                              "detail": {"element": repr(x), "got": [str(t) for t in lst], "n": n}})
            break
        f = _num(sc[k]) if k in sc else None
        if f is not None and f != lst[0] + lst[1] / 2:
            fails.append({"clause": "C13.conserve", "site": "score vs victories + equalities/2",
                          "detail": {"element": repr(x), "score": str(f), "counts": [str(t) for t in lst]}})
            break
    return evals


def _check_fill(case, fails):
    import numpy as np
    from corankco.algorithms.copeland.copeland import CopelandMethod
    rng = random.Random(case["seed"])
    evals = nk = 0
    for _ in range(case["count"]):
        n = rng.randint(1, case["nmax"])
        hi = rng.choice([1, 2, 4])
        M = [[[0.0, 0.0, 0.0] for _ in range(n)] for _ in range(n)]
        for i in range(n):
            for j in range(i + 1, n):
                b, a, t = (float(rng.randint(0, hi)) / 2 for _ in range(3))
                M[i][j] = [b, a, t]
                M[j][i] = [a, b, t]
        tab = {(i, j): tuple(M[i][j]) for i in range(n) for j in range(n) if i != j}
        _classes, score, res = O.copeland_oracle(list(range(n)), tab)
        arr = np.asarray(M, dtype=float).reshape(n, n, 3)
        keep = arr.copy()
        try:
            s, r = CopelandMethod._fill_dicts_copeland(arr)
        except Exception as e:
            fails.append({"clause": "C13.fill", "site": "CopelandMethod._fill_dicts_copeland",
                          "detail": {"exception": type(e).__name__, "msg": str(e)[:300], "table": M}})
            continue
        evals += 1
        nk += n >= 2
        got_s = [_num(v) for v in s]
        got_r = [[_num(v) for v in row] for row in r]
        if got_s != [score[i] for i in range(n)] or got_r != [[Fraction(v) for v in res[i]] for i in range(n)] \
                or not (arr == keep).all():
            fails.append({"clause": "C13.fill", "site": "CopelandMethod._fill_dicts_copeland",
                          "detail": {"table": M, "scores": [str(v) for v in got_s], "expected_scores": [str(score[i]) for i in range(n)],
                                     "results": [[str(v) for v in row] for row in got_r],
                                     "expected_results": [res[i] for i in range(n)],
                                     "input_modified": not (arr == keep).all()}})
    return evals, nk


def _dedupe(fails):
    seen, out = set(), []
    for f in fails:
        k = (f["clause"], f["site"])
        if k not in seen:
            seen.add(k)
            out.append(f)
    return out


def check_case(case):
    from bounded import adapt as A
    from corankco.algorithms.copeland.copeland import CopelandMethod
    fails = []
    evals = 0
    if case["kind"] == "fill":
        evals, nk = _check_fill(case, fails)
        return {"fails": _dedupe(fails), "key": "fill|%d" % case["seed"], "nkeys": max(nk - 1, 0), "evals": evals,
                "sample": case}
    if case["kind"] == "pack":
        nk = 0
        for off, d in enumerate(case["datasets"]):
            gi = case["first"] + off
            u = D.universe_of(d)
            n_names = max(u) + 1
            for si, scheme in enumerate(SCHEMES_EXH):
                kind = KINDS[(si + gi) % len(KINDS)]
                rk = D.rename(d, D.NAME_KINDS[kind](n_names))
                sub = []
                evals += _eval(rk, scheme, A, CopelandMethod, sub)
                for f in sub:
                    f["detail"] = {"rankings": rk, "scheme": scheme, "namekind": kind, "what": f["detail"]}
                fails.extend(sub)
                nk += len(u) >= 2
        return {"fails": _dedupe(fails), "key": None, "nkeys": nk, "evals": evals,
                "sample": {"datasets": case["datasets"][:2], "schemes": "3 generic + 4 presets", "namekinds": "rotating"}}
    d = case["dataset"]
    u = D.universe_of(d)
    rk = D.rename(d, D.NAME_KINDS[case["namekind"]](max(u) + 1))
    for scheme in D.SCHEMES_ALL:
        sub = []
        evals += _eval(rk, scheme, A, CopelandMethod, sub)
        for f in sub:
            f["detail"] = {"rankings": rk, "scheme": scheme, "what": f["detail"]}
        fails.extend(sub)
    key = str(rk) if len(u) >= 2 else None
    return {"fails": _dedupe(fails), "key": key, "nkeys": (len(D.SCHEMES_ALL) - 1) if key else 0, "evals": evals,
            "sample": {"rankings": rk, "schemes": "all of domains.SCHEMES_ALL"}}

"""C04 bounded tier: the Kemeny score a consensus reports is the true score of each returned ranking.

For every configuration that RETURNED a consensus (crashes and refusals are judged by C03 / C14, not here):
  1. v0 = consensus.features[KEMENY_SCORE] is read first.  The sentinel -1 means "the algorithm supplied nothing".
     Anything else is the algorithm's own claim and must be a real number (not None / NaN / a non-number), >= 0, and within
     1e-6 of the oracle K(r, D) of EVERY returned ranking r.
  2. v1 = consensus.kemeny_score is read afterwards (lazy path when v0 was the sentinel): same requirement.

Clauses (site identifies who produced the number)
  C04.prop.absent   a score is reported but is not a real number (None, NaN, ...)
  C04.prop          the reported number is negative or differs from K(r, D) of some returned ranking by more than 1e-6
                    sites: "BioConsert KEMENY_SCORE" (local-search bookkeeping), "ExactAlgorithmPulp KEMENY_SCORE" (solver
                    objective), "PickAPerm KEMENY_SCORE" (minimum of the scan), "<configuration> KEMENY_SCORE" otherwise
  C04.lazy          the lazily computed score (algorithm supplied nothing): site "lazy" for consensuses returned by
                    algorithms, site "lazy/direct" for Consensus objects built directly around an arbitrary candidate
  C04.lazy.raise    reading kemeny_score raised
"""
import math
import random
import zlib

from bounded import domains as D
from bounded import oracle as O
from bounded import C03 as base

ID = "C04"
RULE = ("one case = (dataset, element naming, scheme) from the sweep of C03 with another seed (all datasets of <= 2 "
        "rankings from R(3) x 3 (naming, scheme) pairs, 17 corner datasets incl. single-element universes and "
        "single-ranking datasets x 7 namings x 5 schemes, 600 seeded datasets n<=5 m<=4); inside a case "
        "every configuration x return_at_most_one_ranking in {True, False} (x every pivot sequence for n<=4) that returns "
        "a consensus has features[KEMENY_SCORE] and then kemeny_score compared with the definitional K of every returned "
        "ranking; plus 3 directly built Consensus objects per case (lazy path on arbitrary candidates). distinct = "
        "distinct (dataset, naming, scheme, configuration, one, pivot sequence) whose consensus reported a score; "
        "a case is trivial when nothing reported a score.")
EXHAUSTIVE = {"quick": False, "thorough": False}
SCOPE = {"quick": "700 datasets (n<=3, m<=2, exhaustive) x 3 (naming, scheme) + 17 corner datasets x 7 namings x 5 "
                  "schemes + 600 sampled (n<=5, m<=4); %d schemes rotating (presets, multiples, generic, boundary, "
                  "all-zero T)" % len(base.SCHEMES),
         "thorough": "adds all datasets n<=3 m=3 (17.6k), n=4 m<=2 (22k), 8000 sampled (n<=6, m<=5)"}
CHUNK = 4
# every 6th case is run a second time with every algorithm object used before on related inputs (bounded/algs.py: warm)
WARM_EVERY = {"quick": 6, "thorough": 6}
TIMEOUT = 300
TOL = 1e-6
ASSUMPTIONS = base.ASSUMPTIONS


def _gen_cases_main(tier, seed):
    for c in base.sweep(tier, seed + 17, base.SCHEMES):
        yield c


def is_real(v):
    if isinstance(v, bool):
        return False
    try:
        import numpy as np
        if isinstance(v, np.generic):
            v = v.item()
    except ImportError:
        pass
    return isinstance(v, (int, float)) and not (isinstance(v, float) and (math.isnan(v) or math.isinf(v)))


def is_sentinel(v):
    try:
        return is_real(v) and float(v) == -1.0
    except Exception as e:
        if base.harness_exc(e):
            raise
        return False


def site_of(label, cons, feature_enum):
    who = cons.features.get(feature_enum.ASSOCIATED_ALGORITHM)
    who = who if isinstance(who, str) else ""
    if "BioConsert" in who or label.startswith("BioCo"):
        return "BioConsert KEMENY_SCORE"
    if "pulp" in who.lower() or label == "ExactPulp":
        return "ExactAlgorithmPulp KEMENY_SCORE"
    if who == "Pick a Perm" or label == "PickAPerm":
        return "PickAPerm KEMENY_SCORE"
    return "%s KEMENY_SCORE" % label


def judge(value, truths):
    """None if `value` is a truthful report for rankings whose definitional scores are `truths`, else (kind, text)."""
    if not is_real(value):
        return "absent", "reported %r (%s)" % (value, type(value).__name__)
    v = float(value)
    if v < 0:
        return "value", "negative score %r" % v
    for i, t in enumerate(truths):
        if abs(v - t) > TOL:
            return "value", "reported %r, K(ranking #%d) = %r" % (v, i, t)
    return None


def _check_case_main(case):
    from bounded import adapt as A, algs
    from corankco.consensus import Consensus, ConsensusFeature
    rankings, scheme = case["rankings"], case["scheme"]
    exp_r, _ = A.expected_names(rankings)
    universe = D.universe_of(exp_r)
    n_univ = len(universe)
    B, T = scheme
    fails, seen, evals, reported = [], set(), 0, 0

    def add(f):
        sig = (f["clause"], f["site"])
        if sig not in seen:
            seen.add(sig)
            fails.append(f)

    for label, bname, standin in base.config_table():
        for one in (True, False):
            for tag, st, cons in base.runs(bname, standin, rankings, scheme, one, n_univ):
                evals += 1
                if st != "ok":
                    continue                # no consensus returned: C03 / C14
                try:
                    raws = [A.ranking_to_raw(r) for r in cons.consensus_rankings]
                except Exception as e:
                    if base.harness_exc(e):
                        raise
                    continue                # not a list of rankings: C03
                if not raws:
                    continue
                try:
                    if algs.well_formed(cons, set(universe), one) is not None:
                        continue            # K(r, D) is only defined for rankings over exactly the universe: C03
                except Exception as e:
                    if base.harness_exc(e):
                        raise
                    continue
                truths = [O.kemeny(r, exp_r, B, T) for r in raws]
                ctx = {"config": label, "one": one, "run": tag, "consensus": raws[:4], "K": truths[:4]}
                v0 = cons.features.get(ConsensusFeature.KEMENY_SCORE, -1.)
                supplied = not is_sentinel(v0)
                if supplied:
                    reported += 1
                    bad = judge(v0, truths)
                    if bad:
                        add({"clause": "C04.prop.absent" if bad[0] == "absent" else "C04.prop",
                             "site": site_of(label, cons, ConsensusFeature),
                             "detail": dict(ctx, problem=bad[1], read="features[KEMENY_SCORE]")})
                try:
                    v1 = cons.kemeny_score
                except Exception as e:
                    if base.harness_exc(e):
                        raise
                    add({"clause": "C04.lazy.raise", "site": "lazy" if not supplied else site_of(label, cons,
                                                                                               ConsensusFeature),
                         "detail": dict(ctx, exception="%s: %s" % (type(e).__name__, str(e)[:200]))})
                    continue
                if supplied:
                    same = (v1 is v0) or (is_real(v1) and is_real(v0) and float(v1) == float(v0))
                    if same:
                        continue            # already judged
                else:
                    reported += 1
                bad = judge(v1, truths)
                if bad:
                    if supplied:
                        add({"clause": "C04.prop.absent" if bad[0] == "absent" else "C04.prop",
                             "site": site_of(label, cons, ConsensusFeature),
                             "detail": dict(ctx, problem=bad[1], read="kemeny_score", features_value=repr(v0))})
                    else:
                        add({"clause": "C04.lazy", "site": "lazy",
                             "detail": dict(ctx, problem=bad[1], read="kemeny_score")})

    # lazy path on arbitrary complete candidates (not only on what algorithms return)
    rng = random.Random(zlib.crc32(repr((rankings, scheme)).encode()))
    for k in range(3):
        cand = D.random_ranking(rng, list(universe), complete=True)
        truth = O.kemeny(cand, exp_r, B, T)
        evals += 1
        try:
            cons = Consensus(consensus_rankings=[A.mk_ranking(cand)], dataset=A.mk_dataset(rankings),
                             scoring_scheme=A.mk_scheme(scheme))
            v = cons.kemeny_score
            v_again = cons.kemeny_score
        except Exception as e:
            if base.harness_exc(e):
                raise
            add({"clause": "C04.lazy.raise", "site": "lazy/direct",
                 "detail": {"candidate": cand, "exception": "%s: %s" % (type(e).__name__, str(e)[:200])}})
            continue
        reported += 1
        bad = judge(v, [truth]) or judge(v_again, [truth])
        if bad:
            add({"clause": "C04.lazy", "site": "lazy/direct", "detail": {"candidate": cand, "K": truth,
                                                                          "problem": bad[1]}})
    key = "%s|%s" % (rankings, scheme) if reported else None
    return {"fails": fails, "key": key, "nkeys": max(reported - 1, 0), "evals": evals, "sample": case}


def gen_cases(tier, seed):
    from bounded import history
    yield from _gen_cases_main(tier, seed)
    yield from history.history_cases(ID, tier, seed)


def check_case(case):
    if case.get("kind") == "history":
        from bounded import history
        return history.check_history(case)
    return _check_case_main(case)

"""History cases shared by C02 / C04 / C08: the properties quantify over every dataset / call, hence also over datasets that
were mutated in place and over algorithm objects that were used before (stale caches, shared state).

  kind "history", scenario
    "table_after_mutation"   (C02)  build tables, mutate the dataset in place, build tables again: they must be the
                                    tables of the dataset AS IT IS NOW (its current rankings)
    "score_reuse"            (C04)  one algorithm object over a sequence of (dataset, scheme) pairs, scores read in between
    "local_opt_reuse"        (C08)  one BioConsert / BioCo object on a dataset, the dataset is mutated in place, same
                                    object again: every returned ranking is a local optimum for the dataset as it is now
"""
import random

from bounded import domains as D
from bounded import oracle as O

CONFIGS_SCORE = ["Borda", "BordaBucketId", "Copeland", "KwikSortRandom", "BioConsert", "BioCo", "PickAPerm", "ExactPulp"]


def history_cases(prop, tier, seed):
    count = {"C02": 150, "C04": 120, "C08": 120}[prop] * (1 if tier == "quick" else 10)
    scen = {"C02": "table_after_mutation", "C04": "score_reuse", "C08": "local_opt_reuse"}[prop]
    for i in range(count):
        yield {"kind": "history", "scenario": scen, "seed": seed * 100003 + i, "idx": i}
    if prop == "C08":
        # one object, several DIFFERENT datasets of the same shape (same numbers of elements and rankings, default
        # names) under the same scheme: nothing may be carried over from one call to the next
        for i in range(60 * (1 if tier == "quick" else 10)):
            yield {"kind": "history", "scenario": "local_opt_same_shape", "seed": seed * 100003 + 7000 + i, "idx": i}


def _current(ds):
    from bounded import adapt as A
    return [[[A.val(e) for e in b] for b in r] for r in ds.rankings]


def _mutate(ds, rng):
    """one in-place mutation that leaves at least one element; returns a description or None"""
    from corankco.dataset import EmptyDatasetException
    univ = sorted(ds.universe, key=lambda e: str(e))
    choice = rng.choice(["remove_elements", "remove_elements", "rate", "empty"])
    try:
        if choice == "remove_elements" and len(univ) >= 2:
            k = rng.randint(1, len(univ) - 1)
            gone = set(rng.sample(univ, k))
            ds.remove_elements(gone)
            return "remove_elements(%s)" % sorted(str(e) for e in gone)
        if choice == "rate":
            rate = rng.choice([0.34, 0.5, 0.67])
            # keep at least one element: only if some element is present often enough
            pres = {e: sum(1 for r in ds.rankings if e in r.domain) / ds.nb_rankings for e in univ}
            if any(p >= rate for p in pres.values()):
                ds.remove_elements_rate_presence_lower_than(rate)
                return "remove_elements_rate_presence_lower_than(%s)" % rate
        if any(len(r) == 0 for r in ds.rankings):
            ds.remove_empty_rankings()
            return "remove_empty_rankings()"
    except EmptyDatasetException:
        return None
    except (KeyError, ValueError, IndexError):
        return None         # a failing mutator is C16's subject, not this scenario's
    return None


def _table_fails(ds, scheme, site, fails, A):
    from corankco.algorithms.pairwisebasedalgorithm import PairwiseBasedAlgorithm
    cur = _current(ds)
    u = D.universe_of(cur)
    tab = O.cost_table(u, cur, scheme[0], scheme[1])
    sch = A.mk_scheme(scheme)
    for name, mat in (("get_positions", ds.get_positions()), ("get_bucket_ids", ds.get_bucket_ids())):
        M = PairwiseBasedAlgorithm.pairwise_cost_matrix(mat, sch)
        ids = ds.mapping_id_elem
        ok = M.shape == (len(u), len(u), 3) and sorted(ids) == list(range(len(u)))
        if ok:
            for i in ids:
                for j in ids:
                    if i != j and tuple(float(x) for x in M[i][j]) != tuple(float(x) for x in tab[(A.val(ids[i]), A.val(ids[j]))]):
                        ok = False
        if not ok:
            fails.append({"clause": "C02.prop.history", "site": "pairwise_cost_matrix(%s) %s" % (name, site),
                          "detail": {"current_rankings": cur, "scheme": scheme, "shape": list(M.shape)}})


def _dataset_with_empty(rng, nmax=5):
    while True:
        d = D.random_dataset(rng, nmax, 4, n_min=2)
        if rng.random() < 0.6:
            d.insert(rng.randrange(len(d) + 1), [])
        if any(d):
            return d


def check_history(case):
    from bounded import adapt as A
    from bounded import algs
    rng = random.Random(case["seed"])
    fails, evals = [], 0
    scen = case["scenario"]
    names_kind = list(D.NAME_KINDS)[case["idx"] % len(D.NAME_KINDS)]
    if scen == "table_after_mutation":
        d = D.rename(_dataset_with_empty(rng), D.NAME_KINDS[names_kind](6))
        scheme = rng.choice(D.SCHEMES_QUICK)
        ds = A.mk_dataset(d)
        _table_fails(ds, scheme, "fresh dataset", fails, A)
        steps = []
        for _ in range(rng.randint(1, 2)):
            step = _mutate(ds, rng)
            if step is None:
                break
            steps.append(step)
            evals += 1
            _table_fails(ds, scheme, "after an in-place mutation", fails, A)
            if fails:
                fails[-1]["detail"]["sequence"] = steps
                break
        return {"fails": fails, "key": "%s|%s|%s" % (d, scheme, steps) if steps else None, "evals": evals + 1,
                "sample": {"dataset": d, "sequence": steps}}
    if scen == "score_reuse":
        from corankco.consensus import ConsensusFeature
        config = CONFIGS_SCORE[case["idx"] % len(CONFIGS_SCORE)]
        with algs.cplex_mode(False):
            alg = algs.make(config)
            seq = []
            held = []
            for step in range(3):
                d = D.rename(D.random_dataset(rng, 4, 3, complete=(config == "PickAPerm" and rng.random() < 0.5)),
                             D.NAME_KINDS[names_kind](5))
                scheme = rng.choice([D.unifying(), D.induced(.5), D.unifying(.5), D.induced()] if config != "PickAPerm"
                                    else [D.unifying(), D.scale(D.unifying(), 2.)])
                if config in ("Copeland", "KwikSortRandom", "BioConsert", "ExactPulp"):
                    scheme = rng.choice(D.SCHEMES_QUICK)
                ds = A.mk_dataset(d)
                try:
                    cons = alg.compute_consensus_rankings(ds, A.mk_scheme(scheme), True)
                except Exception as e:
                    if type(e).__name__ in ("ScoringSchemeNotHandledException",
                                            "InompleteRankingsIncompatibleWithScoringSchemeException"):
                        continue
                    raise
                exp_r, _conv = A.expected_names(d)
                held.append((cons, exp_r, scheme, d))
                seq.append((d, scheme))
                # read the score now for some steps, later for the others
                for cons_k, exp_k, sch_k, d_k in (held if rng.random() < 0.6 else []):
                    evals += 1
                    got = cons_k.kemeny_score
                    for r in cons_k.consensus_rankings:
                        want = O.kemeny(A.ranking_to_raw(r), exp_k, sch_k[0], sch_k[1])
                        if got is None or got != got or abs(float(got) - want) > 1e-6:
                            fails.append({"clause": "C04.prop.history", "site": "%s reused over a sequence of calls" % config,
                                          "detail": {"sequence": seq, "dataset": d_k, "scheme": sch_k,
                                                     "reported": None if got is None else float(got), "expected": want}})
                            break
                    if fails:
                        break
                if fails:
                    break
            for cons_k, exp_k, sch_k, d_k in (held if not fails else []):
                evals += 1
                got = cons_k.kemeny_score
                for r in cons_k.consensus_rankings:
                    want = O.kemeny(A.ranking_to_raw(r), exp_k, sch_k[0], sch_k[1])
                    if got is None or got != got or abs(float(got) - want) > 1e-6:
                        fails.append({"clause": "C04.prop.history", "site": "%s reused over a sequence of calls" % config,
                                      "detail": {"sequence": seq, "dataset": d_k, "scheme": sch_k,
                                                 "reported": None if got is None else float(got), "expected": want}})
                        break
                if fails:
                    break
        return {"fails": fails[:1], "key": "%s|%s" % (config, seq) if seq else None, "evals": evals, "sample": {"config": config, "sequence": seq}}
    if scen == "local_opt_reuse":
        from bounded import C08
        config = ["none", "BioCo"][case["idx"] % 2]
        alg = C08.make_alg(config)
        d = D.rename(_dataset_with_empty(rng, 5), D.NAME_KINDS[names_kind](6))
        scheme = rng.choice([D.unifying(), D.extended(), D.GENERIC_B, D.unifying(.5)] if config == "none"
                            else [D.unifying(), D.unifying(.5)])
        ds = A.mk_dataset(d)
        steps = []
        for step in range(3):
            sch = A.mk_scheme(scheme)       # an equal scheme, a new object each time
            try:
                cons = alg.compute_consensus_rankings(ds, sch, False)
            except Exception as e:
                if C08.documented_refusal(e):
                    break
                raise
            evals += 1
            cur = _current(ds)
            u = D.universe_of(cur)
            tab = O.cost_table(u, cur, scheme[0], scheme[1])
            for r in cons.consensus_rankings:
                mv = C08.improving_move(A.ranking_to_raw(r), tab)
                if mv is not None:
                    fails.append({"clause": "C08.prop.history", "site": "BioConsert object reused after the dataset was mutated "
                                  "in place (%s)" % config, "detail": {"dataset_now": cur, "scheme": scheme,
                                                                     "sequence": steps, "move": mv}})
                    break
            if fails:
                break
            m = _mutate(ds, rng)
            if m is None:
                break
            steps.append(m)
        return {"fails": fails, "key": "%s|%s|%s" % (config, d, steps) if steps else None, "evals": evals,
                "sample": {"config": config, "dataset": d, "sequence": steps}}
    if scen == "local_opt_same_shape":
        from bounded import C08
        config = ["none", "BioCo"][case["idx"] % 2]
        alg = C08.make_alg(config)
        n, m = rng.choice([(4, 3), (5, 3), (4, 4)])
        scheme = rng.choice([D.unifying(), D.unifying(.5)] + ([D.pseudo(), D.GENERIC_B] if config == "none" else []))
        seq = []
        for step in range(3):
            d = []
            for _ in range(m):                       # complete rankings with ties over the same n names
                p_ = list(range(n))
                rng.shuffle(p_)
                r = []
                for x in p_:
                    if r and rng.random() < 0.3:
                        r[-1].append(x)
                    else:
                        r.append([x])
                d.append(r)
            seq.append(d)
            ds = A.mk_dataset(d)
            try:
                cons = alg.compute_consensus_rankings(ds, A.mk_scheme(scheme), False)
            except Exception as e:
                if C08.documented_refusal(e):
                    break
                raise
            evals += 1
            tab = O.cost_table(D.universe_of(d), d, scheme[0], scheme[1])
            for r in cons.consensus_rankings:
                mv = C08.improving_move(A.ranking_to_raw(r), tab)
                if mv is not None:
                    fails.append({"clause": "C08.prop.history", "site": "BioConsert object reused on another dataset of "
                                  "the same shape (%s)" % config,
                                  "detail": {"sequence_of_datasets": seq, "scheme": scheme, "move": mv,
                                             "returned": A.ranking_to_raw(r)}})
                    break
            if fails:
                break
        return {"fails": fails, "key": "%s|%s" % (config, seq), "evals": evals, "sample": {"config": config, "sequence": seq[:1]}}
    raise ValueError(scen)

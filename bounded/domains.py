"""Enumerated / sampled input domains for the bounded tier (pure Python, no repo import)."""
import itertools
import random
from functools import lru_cache

from bounded.oracle import rankings_over, ordered_partitions

# ---------------------------------------------------------------------------------------------------------------
# element names
NAME_KINDS = {
    "canon": lambda n: list(range(n)),
    "perm": lambda n: [(7 * i + 3) % 11 + 1 for i in range(n)][::-1],       # first-appearance order != numeric order
    "collide": lambda n: [8 * i for i in range(n)],                         # 0, 8, 16: collide in small hash tables
    "str": lambda n: ["abcdefghij"[i] for i in range(n)],
    "intstr": lambda n: [str(3 * i + 1) for i in range(n)],                  # integer-like strings -> converted to int
    "mixed": lambda n: [("x%d" % i if i % 2 else str(i)) for i in range(n)],
}


def rename(rankings, names):
    return [[[names[x] for x in b] for b in r] for r in rankings]


# ---------------------------------------------------------------------------------------------------------------
# schemes (all dyadic so that float arithmetic is exact)
def pseudo(p=1.0):
    return [[0., 1., p, 0., 1., 0.], [p, p, 0., p, p, 0.]]


def unifying(p=1.0):
    return [[0., 1., p, 0., 1., p], [p, p, 0., p, p, 0.]]


def induced(p=1.0):
    return [[0., 1., p, 0., 0., 0.], [p, p, 0., 0., 0., 0.]]


def extended():
    return [[0., 1., 0., 0., 0., 0.], [1., 1., 0., 1., 1., 1.]]


def scale(s, k):
    return [[x * k for x in v] for v in s]


R = 64.0
# penalties pairwise distinct powers of R: a linear functional with integer coefficients < R is determined by its value
GENERIC_A = [[0., 1., R, R ** 2, R ** 3, R ** 4], [R ** 5, R ** 5, 0., R ** 6, R ** 6, R ** 7]]
GENERIC_B = [[0., 0.5, 3., 2., 2., 0.5], [0.5, 0.5, 0., 2., 2., 0.5]]          # B3 == B4, B5 == T5 > 0
GENERIC_C = [[0., 1., 0.5, 0.5, 2., 3.], [0., 0., 0., 0.5, 0.5, 0.]]            # T0 == 0

PRESETS = [unifying(), pseudo(), induced(), extended(), unifying(.5), pseudo(.5), induced(.5)]
BOUNDARY = [
    [[0., 1., 1., 0., 1., 1.], [0., 0., 0., 0., 0., 0.]],     # T == 0
    [[0., 1., 0., 0., 1., 0.], [1., 1., 0., 1., 1., 0.]],     # B2 == 0
    [[0., 1., 1., 1., 1., 0.], [1., 1., 0., 1., 1., 0.]],     # B3 == B4
    [[0., 1., 1., 0., 1., 2.], [1., 1., 0., 1., 1., 0.5]],    # B5 != T5
    [[0., 1., 0., 0., 0., .5], [0., 0., 0., 3., 3., 1.]],     # the C07 probe scheme
]
# near ties (exact in double precision for the counts met here): scores that differ do so by a tiny RELATIVE amount, so
# that a comparison made tolerant (isclose, round, epsilon) where the property needs an exact one changes the outcome.
#   BIG_NEAR_TIE: integer penalties 2**20 and 2**20 + 1: distinct scores differ by >= 1 (absolute) but ~1e-6 (relative)
#   NEAR_TIE_33:  a tie costs 1 + 2**-33 where an inversion costs 1: distinct scores may differ by ~1e-10 only
#   OFFSET_NEAR_TIE: pairs unranked by an input ranking cost 2**20 whatever the candidate does with them: on sparse
#                 datasets every candidate's score is one large constant plus the usual small score (relative
#                 differences ~1e-6, absolute differences >= 1/2)
BIG_NEAR_TIE = scale(pseudo(1. + 2. ** -20), 2. ** 20)
NEAR_TIE_33 = pseudo(1. + 2. ** -33)
OFFSET_NEAR_TIE = [[0., 1., 1., 0., 1., 2. ** 20], [1., 1., 0., 1., 1., 2. ** 20]]
NEAR_TIES = [BIG_NEAR_TIE, NEAR_TIE_33, OFFSET_NEAR_TIE]
# small integer penalties that are not powers of two: sums and products of them are exact in double precision, so costs
# that are equal as numbers are equal as floats — unless the code divides (rescaling by B[1], reciprocals), which is
# then visible as a broken exact tie (3/5 + 3/5 != 6/5 in floats)
INT_ODD = [[[0., 5., 3., 0., 5., 0.], [1., 1., 0., 1., 1., 0.]],
           [[0., 3., 1., 1., 2., 1.], [2., 2., 0., 3., 3., 1.]],
           [[0., 7., 7., 0., 7., 7.], [7., 7., 0., 7., 7., 0.]]]
SCHEMES_QUICK = PRESETS[:4] + [GENERIC_A, GENERIC_B, GENERIC_C] + [scale(unifying(), 2.), scale(pseudo(), .25), BIG_NEAR_TIE,
                                                                 INT_ODD[0]]
SCHEMES_ALL = PRESETS + [GENERIC_A, GENERIC_B, GENERIC_C] + BOUNDARY + \
    [scale(s, k) for s in PRESETS[:4] for k in (2., .25)] + [scale(unifying(), 1. / 8192), scale(pseudo(), 1. / 8192)] + \
    NEAR_TIES + INT_ODD


def grid_schemes(rng, count, values=(0., .5, 1., 2., 3.)):
    """Random valid schemes over a dyadic grid: 7 free parameters + the forced ones."""
    out = []
    while len(out) < count:
        b1 = rng.choice([v for v in values if v > 0])
        b2, b5, t0, t3, t5 = (rng.choice(values) for _ in range(5))
        b3, b4 = sorted((rng.choice(values), rng.choice(values)))
        out.append([[0., b1, b2, b3, b4, b5], [t0, t0, 0., t3, t3, t5]])
    return out


# ---------------------------------------------------------------------------------------------------------------
# datasets
@lru_cache(maxsize=None)
def R_n(n):
    return rankings_over(n)


def all_datasets(n, m, exact_m=False):
    """All sequences of 1..m (or exactly m) rankings from R(n), not all empty."""
    rs = R_n(n)
    for k in ([m] if exact_m else range(1, m + 1)):
        for combo in itertools.product(rs, repeat=k):
            if any(len(r) > 0 for r in combo):
                yield [list(map(list, r)) for r in combo]


def universe_of(rankings):
    seen = []
    for r in rankings:
        for b in r:
            for x in b:
                if x not in seen:
                    seen.append(x)
    return seen


def random_ranking(rng, elems, p_present=0.75, complete=False):
    chosen = [x for x in elems if complete or rng.random() < p_present]
    rng.shuffle(chosen)
    buckets = []
    for x in chosen:
        if buckets and rng.random() < 0.4:
            buckets[rng.randrange(len(buckets))].append(x)
        else:
            buckets.insert(rng.randrange(len(buckets) + 1), [x])
    return buckets


def random_dataset(rng, n_max, m_max, complete=False, p_present=None, n_min=1):
    n = rng.randint(n_min, n_max)
    m = rng.randint(1, m_max)
    elems = list(range(n))
    pp = p_present if p_present is not None else rng.choice([0.4, 0.6, 0.8, 0.95])
    while True:
        d = [random_ranking(rng, elems, pp, complete) for _ in range(m)]
        if any(d):
            return d


def is_complete(rankings):
    u = set(universe_of(rankings))
    return all(set(x for b in r for x in b) == u for r in rankings)


def complete_rankings(n):
    return [list(map(list, r)) for r in ordered_partitions(list(range(n)))]

"""C12 bounded tier: Borda orders elements by mean positional score, per the documented variants.

Clauses
  C12.family       which datasets / schemes are accepted: a complete dataset is accepted under every valid scheme; an
                   incomplete dataset is accepted iff the scheme is a positive multiple (BOTH vectors, exact Fractions)
                   of unifying(1), unifying(1/2) (unranked elements count as one last bucket), induced(1) or
                   induced(1/2) (unranked elements skipped); anything else -> ScoringSchemeNotHandledException
  C12.prop         result == classes of equal exact (Fraction) mean score in increasing order, as a sequence of
                   frozensets of raw values, for use_bucket_id in {False, True}; exactly one ranking is returned
  C12.prop.perm    same result when the rankings are given in another order (reversed and rotated)
  C12.prop.rename  the result on the renamed dataset is the image of the result on the canonical-int dataset
"""
import random

from bounded import domains as D
from bounded import oracle as O

ID = "C12"

UNI = [D.unifying(), D.unifying(.5)]
IND = [D.induced(), D.induced(.5)]
FAMILY = UNI + IND + [D.scale(s, k) for s in UNI + IND for k in (2., .25, 3.)] + \
    [D.scale(D.unifying(), 1. / 8192), D.scale(D.induced(.5), 1. / 8192)]
# B vector proportional to one of the four family B vectors, T vector not the same multiple
T_DIFFERENT = [
    [[0., 2., 2., 0., 2., 2.], [0., 0., 0., .5, .5, .5]],       # B = 2 * unifying(1).B
    [[0., 1., .5, 0., 1., .5], [1., 1., 0., 1., 1., 0.]],       # B = unifying(1/2).B, T = unifying(1).T
    [[0., 1., 1., 0., 0., 0.], [1., 1., 0., 1., 1., 1.]],       # B = induced(1).B
    [[0., 2., 1., 0., 0., 0.], [0., 0., 0., 0., 0., 0.]],       # B = 2 * induced(1/2).B
]
OTHERS = [D.pseudo(), D.extended(), D.pseudo(.5), D.GENERIC_A, D.GENERIC_B, D.GENERIC_C] + D.BOUNDARY + \
    [D.induced(0.), D.induced(2.), D.unifying(2.), D.scale(D.pseudo(), 2.)]
SCHEMES_QUICK = UNI + IND + [D.scale(D.unifying(), 2.), D.scale(D.induced(.5), .25), D.scale(D.unifying(.5), 3.),
                             D.scale(D.induced(), 1. / 8192)] + T_DIFFERENT + \
    [D.pseudo(), D.extended(), D.GENERIC_B, D.BOUNDARY[0], D.induced(0.), D.unifying(2.)]
SCHEMES_ALL = FAMILY + T_DIFFERENT + OTHERS

RULE = ("one case = one dataset evaluated under every scheme of the tier's list and both values of use_bucket_id. "
        "quick: every dataset over R(3) with 1..2 rankings (canonical names) plus 400 seeded datasets n<=6, m<=5 "
        "cycling through 6 element-name kinds, 18 schemes (the four families, multiples x2 x1/4 x3 x1/8192, four "
        "schemes proportional to a family on B only, six foreign schemes). thorough: R(3) m<=3, R(4) m<=2 (datasets of "
        "3 rankings and those over 4 names under a rotating window of 9 of the 36 schemes), 20000 samples under all 36 "
        "schemes; plus 14 (140) datasets of 3-4 ranking types with multiplicities up to 40 (up to 1500 for every fourth), whose "
        "distinct means differ by as little as 1e-7 (still distinct as floats). Non-trivial = "
        "universe of >= 2 elements; distinct = distinct (dataset, scheme, variant).")
SCOPE = {"quick": "all datasets n<=3 m<=2 (701) + 400 sampled n<=6 m<=5; 18 schemes; 2 variants",
         "thorough": "all datasets n<=3 m<=2 x 36 schemes; n<=3 m=3 (17.6k) and n=4 m<=2 (21.9k) x 9 rotating "
                     "schemes; 20000 sampled n<=6 m<=5 x 36 schemes; 2 variants"}
EXHAUSTIVE = {"quick": False, "thorough": False}
CHUNK = 4
# every 4th case is run a second time with its datasets reached through a history (vlib.t2run._with_histories)
VIA_EVERY = {"quick": 4, "thorough": 4}


def gen_cases(tier, seed):
    quick = tier == "quick"
    si = "quick" if quick else "all"
    idx = 0
    for d in D.all_datasets(3, 2 if quick else 3):
        yield {"rankings": d, "schemes": si if quick or len(d) < 3 else "w%d" % idx, "namekind": "canon"}
        idx += 1
    if not quick:
        for d in D.all_datasets(4, 2):
            if 3 in D.universe_of(d):           # the others were enumerated above
                yield {"rankings": d, "schemes": "w%d" % idx, "namekind": "canon"}
                idx += 1
    rng = random.Random(seed * 15485863 + 12)
    kinds = list(D.NAME_KINDS)
    seen = set()
    # many rankings: a few ranking types with large multiplicities, so that distinct means are close (differences down to
    # 1/(m1*m2) ~ 1e-7): "tied exactly when the means are equal" must not be decided with a tolerance / after rounding
    # means 5/28 and 7/39 (induced measure: 0 < 1 < 2 expected, the two means differ by 9e-4) ...
    yield {"rankings": [[[1]], [[0], [1]], [[2]], [[0], [2]]], "mult": [23, 5, 32, 7], "schemes": si, "namekind": "canon"}
    # ... 1999/4000 and 2001/4000, 1999/2000 and 2001/2000 (complete datasets, any accepted scheme)
    yield {"rankings": [[[0], [1]], [[1], [0]]], "mult": [2001, 1999], "schemes": si, "namekind": "canon"}
    yield {"rankings": [[[0], [1], [2]], [[1], [0], [2]], [[2], [0], [1]]], "mult": [1001, 999, 1], "schemes": si,
           "namekind": "str"}
    # equal means reached with different numbers of rankings (s/c == q*s/(q*c), induced measure): X scores 1 in s of its c
    # rankings, Y scores 1 in q*s of its q*c rankings, Z always first: expected [{Z},{X,Y}] (0 = Z, 1 = X, 2 = Y)
    for s_, c_, q_ in ((3, 5, 3), (1, 3, 5), (2, 7, 3), (1, 5, 7), (3, 7, 5), (2, 3, 7), (5, 9, 3), (4, 11, 3)):
        yield {"rankings": [[[1]], [[0], [1]], [[2]], [[0], [2]]],
               "mult": [c_ - s_, s_, q_ * (c_ - s_), q_ * s_], "schemes": si, "namekind": "canon"}
    yield {"rankings": [[[1], [2]], [[2], [1]], [[0], [1]], [[1], [0]]], "mult": [3, 2, 7, 3], "schemes": si,
           "namekind": "str"}
    for i in range(12 if quick else 120):
        n = rng.randint(3, 5)
        base = D.random_dataset(rng, n, 4, complete=(i % 3 == 0), n_min=3)
        big = i % 4 == 3
        mult = [rng.randint(200, 1500) if big else rng.randint(1, 40) for _ in base]
        yield {"rankings": base, "mult": mult, "schemes": si, "namekind": kinds[i % len(kinds)]}
    for i in range(400 if quick else 20000):
        d = D.random_dataset(rng, 6, 5, complete=(i % 4 == 0), n_min=2)
        kind = kinds[i % len(kinds)]
        if kind == "canon" and max(D.universe_of(d)) <= 3 and len(d) <= 3:
            continue
        if (kind, repr(d)) in seen:
            continue
        seen.add((kind, repr(d)))
        yield {"rankings": d, "schemes": si, "namekind": kind}


def _family(scheme):
    """'unified' / 'raw' / None, from the statement (exact arithmetic on both vectors)."""
    if any(O.proportional(scheme, s) for s in UNI):
        return "unified"
    if any(O.proportional(scheme, s) for s in IND):
        return "raw"
    return None


def _b_only(scheme):
    bb = [scheme[0], scheme[0]]
    return any(O.proportional(bb, [s[0], s[0]]) for s in UNI + IND)


def _schemes(spec):
    if spec == "quick":
        return SCHEMES_QUICK
    if spec == "all":
        return SCHEMES_ALL
    k = int(spec[1:])                       # "w<k>": a rotating window of 9 schemes
    return [SCHEMES_ALL[(5 * k + j) % len(SCHEMES_ALL)] for j in range(9)]


def check_case(case):
    from bounded import adapt as A
    from corankco.algorithms.borda.borda import BordaCount
    from corankco.algorithms.rank_aggregation_algorithm import ScoringSchemeNotHandledException
    canon_rankings = case["rankings"]                   # canonical ints 0..n-1
    if case.get("mult"):                                # each ranking repeated mult[k] times
        canon_rankings = [r for r, k in zip(canon_rankings, case["mult"]) for _ in range(k)]
    kind = case["namekind"]
    names = D.NAME_KINDS[kind](max(D.universe_of(canon_rankings)) + 1)
    rankings = D.rename(canon_rankings, names)
    exp_r, conv = A.expected_names(rankings)
    image = {i: conv(names[i]) for i in D.universe_of(canon_rankings)}
    universe = D.universe_of(exp_r)
    complete = D.is_complete(exp_r)
    schemes = _schemes(case["schemes"])
    fails = []
    evals = 0

    def show(r):
        return [sorted(map(repr, b)) for b in r]

    def fail(clause, site, scheme, ubi, **detail):
        detail.update({"scheme": scheme, "use_bucket_id": ubi, "rankings_as_given": rankings})
        fails.append({"clause": clause, "site": site, "detail": detail})

    # the objects of both variants exist side by side (built in alternating order) before any of them is used: the
    # variant is a property of the object, not of the class or of the last object built
    order = (False, True) if len(rankings) % 2 else (True, False)
    algs_by_variant = {}
    for v_ in order:
        algs_by_variant[v_] = BordaCount(use_bucket_id=v_)

    def run(rks, scheme, ubi, one=False):
        """-> ('ok', [canon rankings]) | ('refused', None) | ('crash', text)"""
        try:
            cons = algs_by_variant[ubi].compute_consensus_rankings(A.mk_dataset(rks), A.mk_scheme(scheme), one)
        except ScoringSchemeNotHandledException:
            return "refused", None
        except Exception as e:
            return "crash", "%s: %s" % (type(e).__name__, e)
        return "ok", [A.raw_canon(r) for r in cons.consensus_rankings]

    for si, scheme in enumerate(schemes):
        fam = _family(scheme)
        accept = complete or fam is not None
        for ubi in (False, True):
            site = "BordaCount(use_bucket_id=%s)" % ubi
            evals += 1
            st, got = run(rankings, scheme, ubi, one=bool((si + ubi) % 2))
            if st == "crash":
                fail("C12.prop", site + " crash", scheme, ubi, observed=got)
                continue
            if st == "refused":
                if accept:
                    fail("C12.family", "Borda acceptance", scheme, ubi, observed="refused", expected="accepted",
                         complete=complete)
                continue
            if not accept:
                fail("C12.family", "Borda refusal, T vector ignored" if _b_only(scheme) else "Borda refusal",
                     scheme, ubi, observed="accepted", expected="ScoringSchemeNotHandledException")
                continue
            expect = tuple(O.borda_oracle(exp_r, universe, fam == "unified", ubi))
            if len(got) != 1 or got[0] != expect:
                fail("C12.prop", site, scheme, ubi, observed=[show(g) for g in got], expected=show(expect),
                     family=fam)
                continue
            # permutation of the rankings
            if len(rankings) >= 2:
                for perm in (rankings[::-1], rankings[1:] + rankings[:1]):
                    evals += 1
                    st2, got2 = run(perm, scheme, ubi)
                    if st2 != "ok" or got2 != got:
                        fail("C12.prop.perm", site, scheme, ubi, observed=got2 if st2 != "ok" else
                             [show(g) for g in got2], expected=show(expect), order=perm)
                        break
            # renaming of the elements
            if kind != "canon":
                evals += 1
                st3, got3 = run(canon_rankings, scheme, ubi)
                img = [tuple(frozenset(image[x] for x in b) for b in g) for g in got3] if st3 == "ok" else got3
                if st3 != "ok" or img != got:
                    fail("C12.prop.rename", site, scheme, ubi, on_canonical_names=got3 if st3 != "ok" else
                         [show(g) for g in got3], on_renamed=[show(g) for g in got], names=names)
    nk = 2 * len(schemes) if len(universe) >= 2 else 0
    return {"fails": fails, "key": None, "nkeys": nk, "evals": evals,
            "sample": {"rankings": rankings, "namekind": kind, "schemes": len(schemes)}}

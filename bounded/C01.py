"""C01 bounded tier: Kemeny score == pairwise-penalty definition; refusal of incomplete candidates.

Clauses
  C01.count.kernel  the per-ranking counting routine (private, scheme-free) agrees with the definitional counts
                    (checked through a generic scheme whose penalties are distinct powers of 64: a linear functional
                    with integer coefficients < 64 is determined by its value)
  C01.prop          get_kemeny_score == oracle K on datasets (multi-ranking, incomplete, empty rankings, supersets)
  C01.prop.lazy     Consensus.kemeny_score (lazy path) == oracle K
  C01.prop.history / C01.refuse.history   the same, for one factory object reused over a sequence of calls on temporaries
  C01.refuse        candidate lacking a dataset element -> InvalidRankingsForComputingDistance, never a number
"""
import random

from bounded import domains as D
from bounded import oracle as O

ID = "C01"
RULE = ("quick: every (candidate c over {0..n-1}, input ranking r in R(n)) with n<=4, plus candidates over a strict "
        "superset, plus seeded multi-ranking datasets (n<=5, m<=4) under 9 schemes; thorough: n<=5 exhaustive pairs. "
        "A case is non-trivial when the candidate has >= 2 elements (at least one pair is scored); distinct = distinct "
        "(c, r) pair or distinct (dataset, candidate, scheme) triple.")
EXHAUSTIVE = {"quick": False, "thorough": False}
SCOPE = {"quick": "all (c,r) pairs n<=4 (11.6k) + superset candidates + 300 sampled datasets",
         "thorough": "all (c,r) pairs n<=5 (597k) + superset candidates + 30000 sampled datasets"}
CHUNK = 2


def _check_large(case):
    """Large scale: a candidate over n ~ 3000 elements and hundreds of sparse rankings (a few ranking types, each many
    times), so that pair counts exceed 2**31: the counts must not be accumulated in 32-bit integers.  The expected score
    is computed per ranking type by a vectorised classification of all pairs (numpy int64) times its multiplicity."""
    import numpy as np
    from bounded import adapt as A
    from corankco.kemeny_score_computation import KemenyComputingFactory
    n, types, mult, scheme = case["n"], case["types"], case["mult"], case["scheme"]
    B, T = [np.array(v, dtype=np.float64) for v in scheme]
    # candidate: singletons n-1 .. 10, then a few tied buckets over 0..9
    cand = [[x] for x in range(n - 1, 9, -1)] + [[0, 1, 2], [3], [4, 5], [6], [7], [8, 9]]
    cpos = np.empty(n, dtype=np.int64)
    for k, b in enumerate(cand):
        for x in b:
            cpos[x] = k
    before = cpos[:, None] < cpos[None, :]
    tied = np.triu(cpos[:, None] == cpos[None, :], 1)
    expect = 0.0
    for r, k in zip(types, mult):
        p = np.full(n, -1, dtype=np.int64)
        for i, b in enumerate(r):
            for x in b:
                p[x] = i
        px, py = p[:, None], p[None, :]
        both = (px >= 0) & (py >= 0)
        st = np.full((n, n), 5, dtype=np.int64)
        st[both & (px < py)] = 0
        st[both & (px > py)] = 1
        st[both & (px == py)] = 2
        st[(px >= 0) & (py < 0)] = 3
        st[(px < 0) & (py >= 0)] = 4
        cb = np.bincount(st[before], minlength=6).astype(np.float64)
        ct = np.bincount(st[tied], minlength=6).astype(np.float64)
        expect += k * float(cb @ B + ct @ T)
    rankings = [r for r, k in zip(types, mult) for _ in range(k)]
    got = float(KemenyComputingFactory(A.mk_scheme(scheme)).get_kemeny_score(A.mk_ranking(cand), A.mk_dataset(rankings)))
    fails = []
    if got != expect:
        fails.append({"clause": "C01.prop", "site": "get_kemeny_score, large scale",
                      "detail": {"n": n, "ranking_types": types, "multiplicities": mult, "scheme": scheme, "got": got,
                                 "expected": expect}})
    return {"fails": fails, "key": "large|%d|%s" % (n, mult), "evals": 1, "sample": {"n": n, "mult": mult}}


def gen_cases(tier, seed):
    # pair counts above 2**31 (3000 elements, 520 sparse rankings)
    for n, k in ([(3000, 130)] if tier == "quick" else [(3000, 130), (3500, 100), (2500, 200)]):
        yield {"kind": "large", "n": n, "mult": [k] * 4, "scheme": D.unifying(),
               "types": [[[0], [1], [2], [3], [4]], [[4], [2, 3], [1], [n - 1]], [[7, 8], [n // 2], [0]],
                         [[5], [6], [9], [10], [11], [12]]]}
    nmax = 4 if tier == "quick" else 5
    for n in range(1, nmax + 1):
        for ci, c in enumerate(D.complete_rankings(n)):
            yield {"kind": "pairs", "n": n, "cand": c}
    # candidates over a strict superset of the universe
    for n in range(1, 4):
        for c in D.complete_rankings(n + 1):
            yield {"kind": "pairs", "n": n, "cand": c}
    for i in range(40 if tier == "quick" else 400):
        yield {"kind": "sequence", "seed": seed * 1000 + i, "steps": 25,
               "scheme": D.SCHEMES_QUICK[i % len(D.SCHEMES_QUICK)]}
    rng = random.Random(seed * 7919 + 1)
    count = 300 if tier == "quick" else 30000
    schemes = D.SCHEMES_QUICK if tier == "quick" else D.SCHEMES_ALL
    kinds = list(D.NAME_KINDS)
    for i in range(count):
        d = D.random_dataset(rng, 5 if tier == "quick" else 6, 4 if tier == "quick" else 5)
        u = D.universe_of(d)
        extra = rng.choice([0, 0, 1])
        names_n = max(u) + 1 + extra
        cand = D.random_ranking(rng, list(range(names_n)), complete=True)
        kind = kinds[i % len(kinds)]
        names = D.NAME_KINDS[kind](names_n)
        yield {"kind": "dataset", "rankings": D.rename(d, names), "cand": D.rename([cand], names)[0],
               "scheme": schemes[i % len(schemes)], "namekind": kind}
        # a candidate missing one dataset element
        if len(u) >= 2:
            drop = rng.choice(u)
            c2 = [[x for x in b if x != drop] for b in cand]
            c2 = [b for b in c2 if b]
            yield {"kind": "refuse", "rankings": D.rename(d, names), "cand": D.rename([c2], names)[0],
                   "scheme": schemes[i % len(schemes)], "namekind": kind}


def _check_sequence(case):
    """history independence: ONE factory scores a sequence of temporaries (candidates freed between calls)"""
    from bounded import adapt as A
    from corankco.kemeny_score_computation import KemenyComputingFactory, InvalidRankingsForComputingDistance
    rng = random.Random(case["seed"])
    scheme = case["scheme"]
    kcf = KemenyComputingFactory(A.mk_scheme(scheme))
    fails, evals = [], 0
    for step in range(case["steps"]):
        d = D.random_dataset(rng, 4, 3)
        u = D.universe_of(d)
        full = rng.random() < 0.8 or len(u) < 2
        cand = D.random_ranking(rng, list(range(max(u) + 1)), complete=True)
        if not full:
            drop = rng.choice(u)
            cand = [b for b in ([x for x in bb if x != drop] for bb in cand) if b]
        evals += 1
        try:
            got = float(kcf.get_kemeny_score(A.mk_ranking(cand), A.mk_dataset(d)))     # temporaries
        except InvalidRankingsForComputingDistance:
            got = None
        expect = O.kemeny(cand, d, scheme[0], scheme[1]) if full else None
        if got != expect:
            fails.append({"clause": "C01.prop.history" if full else "C01.refuse.history",
                          "site": "get_kemeny_score, one factory reused over a sequence of calls",
                          "detail": {"step": step, "rankings": d, "cand": cand, "got": got, "expected": expect}})
            break
    return {"fails": fails, "key": "seq|%s|%s" % (case["seed"], scheme), "evals": evals, "sample": case}


def check_case(case):
    if case["kind"] == "sequence":
        return _check_sequence(case)
    if case["kind"] == "large":
        return _check_large(case)
    from bounded import adapt as A
    from corankco.kemeny_score_computation import KemenyComputingFactory, InvalidRankingsForComputingDistance
    from corankco.consensus import Consensus
    fails = []
    if case["kind"] == "pairs":
        n, cand = case["n"], case["cand"]
        B, T = D.GENERIC_A
        kcf = KemenyComputingFactory(A.mk_scheme(D.GENERIC_A))
        rc = A.mk_ranking(cand)
        cmap = {}
        for i, b in enumerate(rc):
            for e in b:
                cmap[e] = i
        cost = KemenyComputingFactory._KemenyComputingFactory__cost_by_ranking
        evals = 0
        for r in D.R_n(n):
            r = [list(b) for b in r]
            expect = O.kemeny(cand, [r], B, T)
            evals += 1
            s1, s2 = cost(rc, dict(cmap), A.mk_ranking(r))
            got = sum(float(s1[k]) * B[k] for k in range(6)) + sum(float(s2[k]) * T[k] for k in range(6))
            if got != expect:
                fails.append({"clause": "C01.count.kernel", "site": "KemenyComputingFactory.__cost_by_ranking",
                              "detail": {"cand": cand, "r": r, "s1": [int(v) for v in s1], "s2": [int(v) for v in s2],
                                         "got": got, "expected": expect}})
                break
            if r:
                got2 = kcf.get_kemeny_score(rc, A.mk_dataset([r]))
                if float(got2) != expect:
                    fails.append({"clause": "C01.prop", "site": "get_kemeny_score/single",
                                  "detail": {"cand": cand, "r": r, "got": float(got2), "expected": expect}})
                    break
        nk = evals if sum(len(b) for b in cand) >= 2 else 0
        return {"fails": fails, "key": None, "nkeys": nk, "evals": evals,
                "sample": {"cand": cand, "against": "all r in R(%d)" % n}}
    rankings, cand, scheme = case["rankings"], case["cand"], case["scheme"]
    exp_r, conv = A.expected_names(rankings)
    ds = A.mk_dataset(rankings)
    # the candidate must use the dataset's element naming (ints when all integer-like)
    def conv_c(x):
        try:
            return conv(x)
        except ValueError:      # superset element that is not integer-like while the dataset is: stays a string
            return x
    cand_conv = [[conv_c(x) for x in b] for b in cand]
    rc = A.mk_ranking(cand_conv)
    kcf = KemenyComputingFactory(A.mk_scheme(scheme))
    key = "%s|%s|%s" % (rankings, cand, scheme)
    if case["kind"] == "refuse":
        try:
            got = kcf.get_kemeny_score(rc, ds)
            fails.append({"clause": "C01.refuse", "site": "get_kemeny_score",
                          "detail": {"got": float(got), "expected": "InvalidRankingsForComputingDistance"}})
        except InvalidRankingsForComputingDistance:
            pass
        return {"fails": fails, "key": key, "evals": 1, "sample": case}
    expect = O.kemeny(cand_conv, exp_r, scheme[0], scheme[1])
    got = float(kcf.get_kemeny_score(rc, ds))
    if got != expect:
        fails.append({"clause": "C01.prop", "site": "get_kemeny_score", "detail": {"got": got, "expected": expect}})
    cons = Consensus(consensus_rankings=[rc], dataset=ds, scoring_scheme=A.mk_scheme(scheme))
    got2 = float(cons.kemeny_score)
    if got2 != expect:
        fails.append({"clause": "C01.prop.lazy", "site": "Consensus.kemeny_score",
                      "detail": {"got": got2, "expected": expect}})
    return {"fails": fails, "key": key if sum(len(b) for b in cand) >= 2 else None, "evals": 2, "sample": case}

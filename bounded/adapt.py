"""Adapters between JSON case descriptors and repository objects (runs under /venv/bin/python only)."""
import contextlib
import io
import os
import sys

import corankco  # noqa: F401  (must be imported before the cplex stand-in is installed)
from corankco.dataset import Dataset
from corankco.ranking import Ranking
from corankco.scoringscheme import ScoringScheme
from corankco.element import Element


def mk_ranking(r):
    return Ranking([set(b) for b in r])


VIA = None          # set by `via(...)`: the history through which mk_dataset reaches the dataset it is asked for
VIA_USED = [0, 0]   # [datasets reached through the history, datasets built directly because the history does not apply]
VIA_KINDS = ["rm_last", "rm_first0", "rm_tied", "rm_alpha", "rm_empty", "rm_rate"]


@contextlib.contextmanager
def via(kind):
    global VIA
    old, VIA = VIA, kind
    try:
        yield
    finally:
        VIA = old


def _content(ds):
    return [tuple(frozenset((type(val(e)).__name__, val(e)) for e in b) for b in r) for r in ds.rankings]


def _via_dataset(rankings, kind):
    """the Dataset holding exactly `rankings`, reached through a public in-place mutator: it is built with one extra
    element (or one extra empty ranking) that the mutator then removes. None when the history does not apply or does
    not lead to the wanted content (what mutators do is C16's subject, not the caller's)."""
    if any(len(r) == 0 for r in rankings) or not rankings:
        return None                             # the element mutators drop empty rankings
    intlike = all_intlike(rankings)
    names = set(x for r in rankings for b in r for x in b)
    if kind == "rm_empty":
        ds = Dataset([mk_ranking(r) for r in [[]] + [list(r) for r in rankings]])
        ds.remove_empty_rankings()
    else:
        x = "zq" if (kind == "rm_alpha" or not intlike) else (987 if all(isinstance(n, int) for n in names) else "987")
        if x in names:
            return None
        if kind == "rm_first0":
            aug = [[[x]] + [list(b) for b in rankings[0]]] + [[list(b) for b in r] for r in rankings[1:]]
        elif kind == "rm_tied":
            aug = [[list(r[0]) + [x]] + [list(b) for b in r[1:]] for r in rankings]
        elif kind == "rm_rate":
            m = len(rankings)
            pres = min(sum(1 for r in rankings if any(n in b for b in r)) for n in names)
            if m < 2 or pres < 2:
                return None
            aug = [[list(b) for b in rankings[0]] + [[x]]] + [[list(b) for b in r] for r in rankings[1:]]
        else:
            aug = [[list(b) for b in r] + [[x]] for r in rankings]
        ds = Dataset([mk_ranking(r) for r in aug])
        if kind == "rm_rate":
            ds.remove_elements_rate_presence_lower_than(2. / len(rankings))
        else:
            ds.remove_elements({e for e in ds.universe if val(e) == x})
    want, conv = expected_names(rankings)
    want_c = [tuple(frozenset((type(v).__name__, v) for v in b) for b in r) for r in want]
    return ds if _content(ds) == want_c else None


def mk_dataset(rankings):
    if VIA is not None:
        try:
            ds = _via_dataset(rankings, VIA)
        except Exception:       # a failing mutator is C16's subject
            ds = None
        if ds is not None:
            VIA_USED[0] += 1
            return ds
        VIA_USED[1] += 1
    return Dataset([mk_ranking(r) for r in rankings])


def mk_scheme(s):
    return ScoringScheme([list(s[0]), list(s[1])])


def all_intlike(rankings):
    for r in rankings:
        for b in r:
            for x in b:
                if isinstance(x, str) and not x.isdigit():
                    return False
    return True


def expected_names(rankings):
    """What the Dataset is documented to do with names: all int when every name is integer-like, else all str."""
    if all_intlike(rankings):
        conv = lambda x: int(str(x))
    else:
        conv = lambda x: str(x)
    return [[[conv(x) for x in b] for b in r] for r in rankings], conv


def val(e):
    return e.value if isinstance(e, Element) else e


def ranking_to_raw(r):
    """Repo Ranking -> list of lists of raw values (int/str)."""
    return [sorted((val(e) for e in b), key=lambda v: (str(type(v)), v)) for b in r]


def raw_canon(r):
    return tuple(frozenset(val(e) for e in b) for b in r)


@contextlib.contextmanager
def quiet():
    old = sys.stdout
    sys.stdout = io.StringIO()
    try:
        yield
    finally:
        sys.stdout = old


_STANDIN_DONE = False


def install_cplex_standin():
    """Install the stand-in cplex module AFTER corankco (and PuLP) have been imported."""
    global _STANDIN_DONE
    if _STANDIN_DONE:
        return
    from bounded import standin_cplex
    import corankco.algorithms.exact.exactalgorithmcplex as mod
    sys.modules["cplex"] = standin_cplex
    mod.cplex = standin_cplex
    _STANDIN_DONE = True


def remove_cplex_standin():
    global _STANDIN_DONE
    import corankco.algorithms.exact.exactalgorithmcplex as mod
    sys.modules.pop("cplex", None)
    if "cplex" in mod.__dict__:
        del mod.__dict__["cplex"]
    _STANDIN_DONE = False


def cplex_really_present():
    import importlib.util
    try:
        spec = importlib.util.find_spec("cplex")
    except (ValueError, ImportError):
        return False
    return spec is not None and "standin" not in str(getattr(spec, "origin", ""))

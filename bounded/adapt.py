"""Adapters between JSON case descriptors and repository objects (runs under /venv/bin/python only)."""
import contextlib
import io
import os
import sys

import corankco  # noqa: F401  (must be imported before the cplex stand-in is installed)
from corankco.dataset import Dataset
from corankco.ranking import Ranking
from corankco.scoringscheme import ScoringScheme
from corankco.element import Element


def mk_ranking(r):
    return Ranking([set(b) for b in r])


def mk_dataset(rankings):
    return Dataset([mk_ranking(r) for r in rankings])


def mk_scheme(s):
    return ScoringScheme([list(s[0]), list(s[1])])


def all_intlike(rankings):
    for r in rankings:
        for b in r:
            for x in b:
                if isinstance(x, str) and not x.isdigit():
                    return False
    return True


def expected_names(rankings):
    """What the Dataset is documented to do with names: all int when every name is integer-like, else all str."""
    if all_intlike(rankings):
        conv = lambda x: int(str(x))
    else:
        conv = lambda x: str(x)
    return [[[conv(x) for x in b] for b in r] for r in rankings], conv


def val(e):
    return e.value if isinstance(e, Element) else e


def ranking_to_raw(r):
    """Repo Ranking -> list of lists of raw values (int/str)."""
    return [sorted((val(e) for e in b), key=lambda v: (str(type(v)), v)) for b in r]


def raw_canon(r):
    return tuple(frozenset(val(e) for e in b) for b in r)


@contextlib.contextmanager
def quiet():
    old = sys.stdout
    sys.stdout = io.StringIO()
    try:
        yield
    finally:
        sys.stdout = old


_STANDIN_DONE = False


def install_cplex_standin():
    """Install the stand-in cplex module AFTER corankco (and PuLP) have been imported."""
    global _STANDIN_DONE
    if _STANDIN_DONE:
        return
    from bounded import standin_cplex
    import corankco.algorithms.exact.exactalgorithmcplex as mod
    sys.modules["cplex"] = standin_cplex
    mod.cplex = standin_cplex
    _STANDIN_DONE = True


def remove_cplex_standin():
    global _STANDIN_DONE
    import corankco.algorithms.exact.exactalgorithmcplex as mod
    sys.modules.pop("cplex", None)
    if "cplex" in mod.__dict__:
        del mod.__dict__["cplex"]
    _STANDIN_DONE = False


def cplex_really_present():
    import importlib.util
    try:
        spec = importlib.util.find_spec("cplex")
    except (ValueError, ImportError):
        return False
    return spec is not None and "standin" not in str(getattr(spec, "origin", ""))

"""C09 bounded tier: BioConsert is never worse than any of its starting points.

All scores are ORACLE Kemeny scores (oracle.cost_table / score_from_table on the rankings actually returned); the
KEMENY_SCORE the algorithm reports is the business of C04 and is not trusted here.

Clauses
  C09.prop           without starters: oracle score of every returned ranking <= score of every input ranking completed
                     with its missing elements in one last bucket, <= score of the all-tied ranking, and (corollary)
                     <= score of PickAPerm's consensus whenever PickAPerm accepts the input;
                     with starters: <= score of the consensus each starting algorithm returns on the same input
                     (BioCo: Borda).  KwikSort starters: `choice` as seen by KwikSortRandom is replaced by a
                     deterministic chooser (smallest / largest / median name), identically for the separate call and
                     for the call made inside BioConsert.  Tolerance 1e-9 (BioConsert only moves on a gain > 0.001
                     and never uphill).
  C09.select         all returned rankings share the same oracle score (tolerance 1e-9)
  C09.departure.set  BioConsert._departure_rankings(dataset, scheme), decoded with the DATASET's mapping_id_elem, is
                     {distinct completed inputs} U {all-tied}, resp. the starters' consensuses  (private method; the
                     check is skipped silently if it cannot be called)
  C09.terminates     no answer within 90 s (case run in a forked child, see C08.guarded)
site = "BioConsert no starters" or "BioConsert with starters" (the configuration - BioCo, [Copeland], ... - is in the
detail; a finer site would only multiply the signatures of the same defect); for C09.prop / C09.select the site carries
the suffix "; departure rows mis-numbered" when C09.departure.set failed for the same input, so that failures caused
by mis-numbered departures can be told from failures caused by a wrong selection of the best departure.
Documented refusals (a starter that does not handle an incomplete dataset under the scheme) are skipped.
"""
import random

from bounded import domains as D
from bounded import oracle as O
from bounded import C08 as K

ID = "C09"
EPS = 1e-9
CONFIGS = K.CONFIGS
SCHEMES = D.SCHEMES_ALL + K.NEAR_THRESHOLD[:2]

RULE = ("large universes: 5 (quick) / 29 (thorough) datasets of 4 permutations of 1001..1500 elements that differ on a "
        "7-element window only, unifying scheme, no starters: consensus no worse than every input; "
        "otherwise one case = (dataset, naming, k schemes); 7 starter configurations x return_at_most_one_ranking in "
        "{False, True}. quick: all datasets of <= 2 rankings over R(3) x 2 rotating schemes, once with a rotating "
        "naming out of 6 and (every 2nd dataset) once more with permuted-int resp. string names; hand-written "
        "datasets (DESIGN 3/C09 probe); 600 seeded datasets 2<=n<=6, m<=5 x 3 rotating schemes out of %d + 1 random "
        "grid scheme, naming cycling with permuted ints and strings twice as frequent. Non-trivial = universe >= 2 "
        "elements and a consensus was returned; distinct = distinct (dataset, naming, scheme, configuration, flag)."
        % len(SCHEMES))
SCOPE = {"quick": "701 exhaustive datasets (n<=3, m<=2) x 2 schemes x 1.5 namings + 600 sampled (n<=6, m<=5) x 4 "
                  "schemes; 7 configurations x 2 flag values",
         "thorough": "all datasets n<=3 m<=3 (18.3k) and n=4 m<=2 (22.6k) x 1 scheme, quick's sweep, 10000 sampled "
                     "(n<=7, m<=5) x 4 schemes; 7 configurations x 2 flag values"}
EXHAUSTIVE = {"quick": False, "thorough": False}
CHUNK = 4
# every 6th case is run a second time with every algorithm object used before on related inputs (bounded/algs.py: warm)
WARM_EVERY = {"quick": 6, "thorough": 6}
# every 8th case is run a second time with its datasets reached through a history (vlib.t2run._with_histories)
VIA_EVERY = {"quick": 8, "thorough": 8}
TIMEOUT = 300

KINDS_WEIGHTED = ["perm", "str", "canon", "perm", "collide", "str", "intstr", "mixed"]
HAND = [
    ([[[1]], [[1, 3], [2, 7]]], "literal", D.GENERIC_B),         # the probe of DESIGN section 3 / C09
    ([[["b"]], [["b", "d"], ["a", "c"]]], "literal", D.GENERIC_B),
    ([[[0]], [[0, 1], [2, 3]]], "perm", D.GENERIC_B),            # -> [[{1}], [{1,3},{2,7}]]
    ([[[0]], [[0, 1], [2, 3]]], "str", D.GENERIC_B),
    ([[[1], [2]], [[2], [1, 0]]], "perm", D.unifying()),
    ([[[2], [0]], [[0], [1], [2]], [[1, 2]]], "perm", D.pseudo()),
    ([[[3], [1]], [[0, 2], [1, 3]], [[2], [3], [0]]], "str", D.induced()),
]


def _large_cases(tier, seed):
    """Large universes (beyond 1000 elements, where e.g. numpy's textual rendering of arrays is abbreviated): a few
    permutations that are the identity except on a small window; judged by an O(n^2) numpy Kendall-tau scorer."""
    rng = random.Random(seed * 7919 + 9)
    hard = ([3, 4, 6, 7, 2, 1, 5], [5, 6, 1, 2, 3, 4, 7], [5, 6, 4, 2, 3, 1, 7])
    # a window on which the local search started from the identity stays above the best input (found by search); whether
    # it does depends on where the window sits, hence several positions
    for n, lo in ([(1001, 100), (1001, 499), (1001, 900), (1200, 700)] if tier == "quick" else
                  [(n_, lo_) for n_ in (1001, 1024, 1200, 1500) for lo_ in (100, 301, 499, 700, 900)]):
        win = list(range(lo, lo + 7))
        yield {"kind": "large", "n": n, "lo": lo, "orders": [list(win)] + [[win[i - 1] for i in o] for o in hard]}
    for n in ([1200] if tier == "quick" else [1001, 1200, 1500]):
        for rep in range(1 if tier == "quick" else 3):
            lo = rng.randint(10, n - 20)
            win = list(range(lo, lo + 7))
            orders = [list(win)]
            for _ in range(3):
                w = list(win)
                rng.shuffle(w)
                orders.append(w)
            yield {"kind": "large", "n": n, "lo": lo, "orders": orders}


def check_large(case):
    import numpy as np
    from bounded import adapt as A
    from corankco.algorithms.bioconsert.bioconsert import BioConsert
    n, lo = case["n"], case["lo"]
    perms = []
    for o in case["orders"]:
        p = list(range(n))
        p[lo:lo + len(o)] = o
        perms.append(p)
    ds = A.mk_dataset([[[x] for x in p] for p in perms])
    pos = []
    for p in perms:
        a = np.empty(n, dtype=np.int64)
        a[np.array(p)] = np.arange(n)
        pos.append(a)

    def score(cand_pos):
        """Kemeny score under the unifying scheme of a complete ranking with ties given by its bucket index per element"""
        tot = 0.0
        cb = np.sign(cand_pos[:, None] - cand_pos[None, :])
        for a in pos:
            rb = np.sign(a[:, None] - a[None, :])
            tot += np.count_nonzero(np.triu(cb != rb, 1))       # inverted, or tied in one and not in the other: cost 1
        return float(tot)
    fails = []
    cons = BioConsert().compute_consensus_rankings(ds, A.mk_scheme(D.unifying()), False)
    inputs = [score(a) for a in pos]
    for r in cons.consensus_rankings:
        cp = np.empty(n, dtype=np.int64)
        seen = 0
        for k, b in enumerate(r):
            for e in b:
                cp[A.val(e)] = k
                seen += 1
        if seen != n:
            fails.append({"clause": "C09.prop", "site": "BioConsert no starters",
                          "detail": {"large": case, "problem": "consensus over %d of %d elements" % (seen, n)}})
            break
        sc = score(cp)
        if sc > min(inputs) + EPS:
            fails.append({"clause": "C09.prop", "site": "BioConsert no starters",
                          "detail": {"large": case, "consensus_score": sc, "input_scores": inputs}})
            break
    return {"fails": fails, "key": "large|%s" % case, "evals": 1, "sample": case}


def gen_cases(tier, seed):
    quick = tier == "quick"
    kinds = list(D.NAME_KINDS)
    ns = len(SCHEMES)
    yield from _large_cases(tier, seed)
    for d, kind, scheme in HAND:
        yield {"rankings": d, "namekind": kind, "schemes": [scheme], "pivot": 0}
    idx = 0
    for d in D.all_datasets(3, 2):
        sch = [SCHEMES[(2 * idx + j) % ns] for j in range(2)]
        yield {"rankings": d, "namekind": kinds[idx % len(kinds)], "schemes": sch, "pivot": idx % 3}
        if idx % 2 == 0 and kinds[idx % len(kinds)] not in ("perm", "str"):
            yield {"rankings": d, "namekind": "perm" if idx % 4 == 0 else "str", "schemes": sch, "pivot": idx % 3}
        idx += 1
    if not quick:
        for d in D.all_datasets(3, 3, exact_m=True):
            yield {"rankings": d, "namekind": KINDS_WEIGHTED[idx % 8], "schemes": [SCHEMES[idx % ns]],
                   "pivot": idx % 3}
            idx += 1
        for d in D.all_datasets(4, 2):
            if 3 in D.universe_of(d):
                yield {"rankings": d, "namekind": KINDS_WEIGHTED[idx % 8], "schemes": [SCHEMES[idx % ns]],
                       "pivot": idx % 3}
                idx += 1
    rng = random.Random(seed * 611953 + 9)
    seen = set()
    for i in range(600 if quick else 10000):
        d = D.random_dataset(rng, 6 if quick else 7, 5, complete=(i % 5 == 0), n_min=2)
        kind = KINDS_WEIGHTED[i % 8]
        sch = [SCHEMES[(3 * i + j) % ns] for j in range(3)] + D.grid_schemes(rng, 1)
        if (kind, repr(d)) in seen:
            continue
        seen.add((kind, repr(d)))
        yield {"rankings": d, "namekind": kind, "schemes": sch, "pivot": i % 3}


def _chooser(which):
    from bounded import adapt as A

    def choose(elements):
        srt = sorted(elements, key=lambda e: (str(type(A.val(e))), A.val(e)))
        return srt[0] if which == 0 else srt[-1] if which == 1 else srt[len(srt) // 2]
    return choose


def _site(config):
    return "BioConsert no starters" if config == "none" else "BioConsert with starters"


def _starter_names(config):
    if config == "none":
        return []
    if config == "BioCo":
        return ["Borda"]
    return config.strip("[]").split(",")


def _make_starter(name):
    from corankco.algorithms.borda.borda import BordaCount
    from corankco.algorithms.copeland.copeland import CopelandMethod
    from corankco.algorithms.kwiksort.kwiksortrandom import KwikSortRandom
    from corankco.algorithms.pickaperm.pickaperm import PickAPerm
    return {"Borda": BordaCount, "Copeland": CopelandMethod, "KwikSort": KwikSortRandom, "PickAPerm": PickAPerm}[
        name]()


def _decode_departures(alg, ds, scheme_obj):
    """Rows of the private departure matrix -> set of canonical rankings in the dataset's id space; None if the
    private method cannot be used as expected."""
    from bounded import adapt as A
    try:
        rows = alg._departure_rankings(ds, scheme_obj)
        id_elem = ds.mapping_id_elem
        out = set()
        for row in rows:
            row = [int(v) for v in row]
            if len(row) != len(id_elem):
                return None
            groups = {}
            for j, b in enumerate(row):
                groups.setdefault(b, set()).add(A.val(id_elem[j]))
            out.add(tuple(frozenset(groups[b]) for b in sorted(groups)))
        return out
    except Exception:
        return None


def check_inner(case):
    from bounded import adapt as A
    from bounded import algs
    canon_rankings = case["rankings"]
    kind = case["namekind"]
    if kind == "literal":
        rankings = canon_rankings
    else:
        names = D.NAME_KINDS[kind](max(D.universe_of(canon_rankings)) + 1)
        rankings = D.rename(canon_rankings, names)
    exp_r, _conv = A.expected_names(rankings)
    universe = D.universe_of(exp_r)
    complete = D.is_complete(exp_r)
    chooser = _chooser(case.get("pivot", 0))
    fails, evals, nk = [], 0, 0
    reported = set()

    def fail(clause, site, **detail):
        if (clause, site) in reported:
            return
        reported.add((clause, site))
        detail["rankings_as_given"] = rankings
        fails.append({"clause": clause, "site": site, "detail": detail})

    def show(r):
        return [sorted(b, key=repr) for b in r]

    for scheme in case["schemes"]:
        tab = O.cost_table(universe, exp_r, scheme[0], scheme[1])
        sobj = A.mk_scheme(scheme)
        ds = A.mk_dataset(rankings)

        def score(raw):
            return O.score_from_table(raw, tab)

        for config in CONFIGS:
            site = _site(config)
            # ---- the starting points, from the statement
            starts = []          # (label, raw ranking)
            if config == "none":
                for i, r in enumerate(exp_r):
                    starts.append(("input %d completed" % i, O.unify(r, universe)))
                starts.append(("all tied", [list(universe)]))
                try:
                    pap = _make_starter("PickAPerm").compute_consensus_rankings(ds, sobj, True)
                    starts.append(("PickAPerm consensus", A.ranking_to_raw(pap.consensus_rankings[0])))
                except Exception:
                    pass
                departures_expected = set(O.canon(r) for _, r in starts[:len(exp_r) + 1])
            else:
                ok = True
                with algs.controlled_pivots(chooser):
                    for nm in _starter_names(config):
                        try:
                            c = _make_starter(nm).compute_consensus_rankings(ds, sobj, True)
                            starts.append((nm + " consensus", A.ranking_to_raw(c.consensus_rankings[0])))
                        except Exception:
                            ok = False      # refusal (or a crash that C03 / C14 report): nothing to compare with
                            break
                if not ok:
                    continue
                departures_expected = set(O.canon(r) for _, r in starts)
            if any(sorted(map(repr, [x for b in r for x in b])) != sorted(map(repr, universe)) for _, r in starts):
                continue                    # an ill-formed start is C03's business
            start_scores = [(score(r), lab, r) for lab, r in starts]
            best_start = min(start_scores, key=lambda t: t[0])
            # ---- the departure matrix (private)
            suffix = ""
            with algs.controlled_pivots(chooser):
                dep = _decode_departures(K.make_alg(config), ds, sobj)
            if dep is not None and dep != departures_expected:
                suffix = "; departure rows mis-numbered"
                fail("C09.departure.set", "BioConsert._departure_rankings (%s)" %
                     ("no starters" if config == "none" else "with starters"),
                     decoded=[show(r) for r in dep], expected=[show(r) for r in departures_expected],
                     scheme=scheme, config=config, mapping_elem_id={repr(A.val(k)): v for k, v in
                                                                     ds.mapping_elem_id.items()})
            # ---- the algorithm
            for one in (False, True):
                evals += 1
                try:
                    with algs.controlled_pivots(chooser):
                        cons = K.make_alg(config).compute_consensus_rankings(ds, sobj, one)
                except Exception as e:
                    if not complete and K.documented_refusal(e):
                        continue
                    fail("C09.prop", site + " crash", exception="%s: %s" % (type(e).__name__, e), scheme=scheme,
                         config=config)
                    continue
                got = [A.ranking_to_raw(r) for r in cons.consensus_rankings]
                if not got or any(sorted(map(repr, [x for b in r for x in b])) != sorted(map(repr, universe))
                                  for r in got):
                    continue                # C03's business
                nk += 1
                got_scores = [score(r) for r in got]
                if max(got_scores) - min(got_scores) > EPS:
                    fail("C09.select", site + suffix, returned=[show(r) for r in got], oracle_scores=got_scores,
                         scheme=scheme, return_at_most_one_ranking=one, config=config)
                worst = max(range(len(got)), key=lambda i: got_scores[i])
                if got_scores[worst] > best_start[0] + EPS:
                    fail("C09.prop", site + suffix, returned=show(got[worst]), oracle_score=got_scores[worst],
                         better_start=best_start[1], start_ranking=show(best_start[2]), start_score=best_start[0],
                         all_start_scores=[(lab, s) for s, lab, _ in start_scores], scheme=scheme,
                         return_at_most_one_ranking=one, reported_score=_reported(cons), config=config)
    if len(universe) < 2:
        nk = 0
    return {"fails": fails, "key": None, "nkeys": nk, "evals": evals,
            "sample": {"rankings": rankings, "namekind": kind, "schemes": case["schemes"][:1]}}


def _reported(cons):
    try:
        from corankco.consensus import ConsensusFeature
        return float(cons.features[ConsensusFeature.KEMENY_SCORE])
    except Exception:
        return None


def setup():
    K.setup()
    from bounded import algs  # noqa: F401
    for nm in ("Borda", "Copeland", "KwikSort", "PickAPerm"):
        _make_starter(nm)


def check_case(case):
    if case.get("kind") == "large":
        return K.guarded(check_large, case, ID, "BioConsert.compute_consensus_rankings does not return")
    return K.guarded(check_inner, case, ID, "BioConsert.compute_consensus_rankings does not return")

"""C07 bounded tier: the ParFront (robust) ordered partition is respected by EVERY optimal consensus;
OrderedPartition.consistent_with decides exactly the "earlier group strictly before later group" relation.

Clauses
  C07.partition    parfront_partition(D, S) is a partition of the universe (non-empty, pairwise disjoint groups, union =
                   the universe with the element types the Dataset is documented to produce)
  C07.merge.order  every parfront group is the union of a run of CONSECUTIVE parcons groups, runs taken in order
  C07.Th           every optimal consensus (all minimisers, enumerated by the oracle, n <= 5) ranks every element of an
                   earlier parfront group strictly before every element of a later one
  C07.consistent   consistent_with(c) == (same number of elements and for all groups i<j, x in G_i, y in G_j:
                   x strictly before y in the FIRST ranking of c); a hang on a well-formed pair is a violation
  C07.crash        the partition functions raised on a well-formed input
The oracle (cost table, enumeration of all rankings with ties, `respects`) never imports the repository.
"""
import random
import signal

from bounded import domains as D
from bounded import oracle as O

ID = "C07"
RULE = ("partition cases: one (dataset, scheme) pair each; quick = every dataset with n<=3, m<=2 (701) under 12 schemes "
        "(presets, generic, boundary incl. the probe scheme, 2 tiny/large scalings) + seeded sequences of 1-3 rankings "
        "drawn uniformly from R(4) + seeded datasets n<=5, m<=4 "
        "(all element-name kinds, sparse and dense) under presets/boundary/random grid schemes; a case is non-trivial "
        "when the universe has >= 2 elements; distinct = distinct (dataset, scheme). consistent_with cases: one ordered "
        "partition P over k<=4 names against EVERY ranking with ties c over the same names (75x75 for k=4), against "
        "every c over a larger / smaller / shifted name set, and two-ranking consensuses; int and str names; "
        "distinct = distinct (P, c) pair, non-trivial when P has >= 2 elements. Same-size different-universe pairs are "
        "only used when P has >= 2 groups (with one group the stated relation is vacuous and the expectation ambiguous).")
EXHAUSTIVE = {"quick": False, "thorough": False}
SCOPE = {"quick": "701 datasets (n<=3,m<=2) x 12 schemes + 2000 sampled datasets over R(4) (m<=3) + 12000 sampled "
                  "(dataset n<=5 m<=4, scheme) pairs with 150 grid schemes; all optima by enumeration; consistent_with: "
                  "all (P,c) pairs over <=4 elements, 2 name kinds, + mismatched universes",
         "thorough": "701 datasets (n<=3,m<=2) x 26 schemes + 20000 sampled datasets over R(4) (m<=3) + 120000 sampled "
                     "(dataset n<=5 m<=4, scheme) pairs with 400 grid schemes; consistent_with as quick"}
CHUNK = 16
TIMEOUT = 120
TIMEOUT_IS_VIOLATION = True      # well-formed inputs only: no answer within the time-out is a violation (C07.terminates)

SITE_PF = "OrderedPartition.parfront_partition"
SITE_MERGE = "parfront merge back-tracking"
SITE_CW = "OrderedPartition.consistent_with"


# ---------------------------------------------------------------------------------------------------------------------
def _schemes_small(tier):
    base = D.PRESETS[:4] + [D.GENERIC_B, D.GENERIC_C] + D.BOUNDARY[:1] + D.BOUNDARY[3:] + \
        [D.scale(D.unifying(), 1. / 8192), D.scale(D.pseudo(), 4.), D.induced(.5)]
    if tier == "quick":
        return base
    return D.SCHEMES_ALL + [s for s in base if s not in D.SCHEMES_ALL]


def gen_cases(tier, seed):
    quick = tier == "quick"
    # ---- consistent_with --------------------------------------------------------------------------------------
    for kind in ("canon", "str"):
        for k in range(1, 5):
            for p in O.ordered_partitions(list(range(k))):
                yield {"kind": "consistent", "k": k, "partition": p, "namekind": kind}
    # ---- partitions: exhaustive small datasets ----------------------------------------------------------------
    for si, s in enumerate(_schemes_small(tier)):
        for d in D.all_datasets(3, 2):
            yield {"kind": "part", "rankings": d, "scheme": s, "namekind": "canon"}
    rng = random.Random(seed * 104729 + 7)
    kinds = list(D.NAME_KINDS)
    rs = D.R_n(4)
    for i in range(2000 if quick else 20000):
        m = rng.choice([1, 2, 2, 3])
        d = [list(map(list, rng.choice(rs))) for _ in range(m)]
        if not any(d):
            continue
        s = rng.choice(D.SCHEMES_ALL)
        yield {"kind": "part", "rankings": d, "scheme": s, "namekind": "canon"}
    # ---- partitions: sampled ----------------------------------------------------------------------------------
    count = 12000 if quick else 120000
    grid = D.grid_schemes(rng, 150 if quick else 400)
    pool = D.PRESETS + D.BOUNDARY + [D.GENERIC_B, D.GENERIC_C, D.scale(D.unifying(), 1. / 8192)]
    for i in range(count):
        n_min = rng.choice([1, 3, 3, 4])
        d = D.random_dataset(rng, 5, 4, n_min=n_min, p_present=rng.choice([0.3, 0.5, 0.7, 0.9, 1.0]))
        u = D.universe_of(d)
        kind = kinds[i % len(kinds)]
        names = D.NAME_KINDS[kind](max(u) + 1)
        s = grid[i % len(grid)] if i % 3 else pool[(i // 3) % len(pool)]
        yield {"kind": "part", "rankings": D.rename(d, names), "scheme": s, "namekind": kind}


# ---------------------------------------------------------------------------------------------------------------------
class _Hang(Exception):
    pass


def _raise_hang(_s, _f):
    raise _Hang()


def _guarded(fn, secs=3.0):
    """Run fn() with its own wall-clock guard, preserving the runner's SIGALRM alarm."""
    old = signal.getsignal(signal.SIGALRM)
    remaining = signal.alarm(0)
    signal.signal(signal.SIGALRM, _raise_hang)
    signal.setitimer(signal.ITIMER_REAL, secs)
    try:
        return fn(), False
    except _Hang:
        return None, True
    finally:
        signal.setitimer(signal.ITIMER_REAL, 0)
        signal.signal(signal.SIGALRM, old if old is not None else signal.SIG_DFL)
        if remaining:
            signal.alarm(remaining)


def _expected_consistent(partition, ranking, n_cons_elements):
    """The stated relation, on raw names.  partition: list of lists; ranking: first consensus ranking."""
    if sum(len(g) for g in partition) != n_cons_elements:
        return False
    pos = O.bucket_index(ranking)
    for i in range(len(partition)):
        for j in range(i + 1, len(partition)):
            for x in partition[i]:
                for y in partition[j]:
                    if x not in pos or y not in pos or not pos[x] < pos[y]:
                        return False
    return True


def _check_consistent(case):
    from corankco.partitioning.ordered_partition import OrderedPartition
    from corankco.consensus import Consensus
    from corankco.ranking import Ranking
    from corankco.element import Element
    k, p, kind = case["k"], case["partition"], case["namekind"]
    names = D.NAME_KINDS[kind](k + 2)
    nm = lambda r: [[names[x] for x in b] for b in r]
    P = nm(p)
    fails, evals = [], 0

    # one partition object that answers every query of this case in turn (the fresh object of each query comes first):
    # the answer is a function of (partition, consensus), not of what the object was asked before, and asking leaves
    # the partition as it was
    shared = OrderedPartition([set(Element(x) for x in g) for g in P])
    shared_state = {"dead": False}

    def ask_shared(cons, cons_rankings, expect, tag):
        nonlocal evals
        if shared_state["dead"]:
            return
        evals += 1
        try:
            got2, hung2 = _guarded(lambda: shared.consistent_with(cons))
        except Exception as e:
            got2, hung2 = "%s: %s" % (type(e).__name__, str(e)[:120]), False
        groups = [sorted((A_val(e) for e in g), key=repr) for g in shared.partition]
        if hung2 or got2 is not expect or groups != [sorted(g, key=repr) for g in P]:
            shared_state["dead"] = True
            fails.append({"clause": "C07.consistent", "site": SITE_CW + " on a partition object queried before",
                          "detail": {"partition": P, "consensus": cons_rankings, "got": "no answer" if hung2 else got2,
                                     "expected": expect, "partition_object_now": groups, "pairs": tag}})

    def A_val(e):
        return e.value if isinstance(e, Element) else e

    def one(cons_rankings, tag, with_dataset=False):
        nonlocal evals
        evals += 1
        op = OrderedPartition([set(Element(x) for x in g) for g in P])
        if with_dataset:
            # the consensus is attached to the dataset it answers (over the partition's universe): its number of
            # elements is then the dataset's, also when its first ranking does not hold all of them
            from corankco.dataset import Dataset
            ds = Dataset([Ranking([set(g) for g in P])])
            cons = Consensus(consensus_rankings=[Ranking([set(b) for b in r]) for r in cons_rankings], dataset=ds)
            n_cons = sum(len(g) for g in P)
        else:
            cons = Consensus(consensus_rankings=[Ranking([set(b) for b in r]) for r in cons_rankings])
            n_cons = len(set(x for r in cons_rankings for b in r for x in b))
        expect = _expected_consistent(P, cons_rankings[0], n_cons)
        try:
            got, hung = _guarded(lambda: op.consistent_with(cons))
        except Exception as e:  # repo exception on a well-formed pair
            fails.append({"clause": "C07.consistent", "site": SITE_CW + " raised",
                          "detail": {"partition": P, "consensus": cons_rankings, "exception": type(e).__name__,
                                     "message": str(e)[:200], "expected": expect, "pairs": tag}})
            return
        lacks = with_dataset and len(P) == 1 and \
            len(set(x for b in cons_rankings[0] for x in b)) < sum(len(g) for g in P)
        if hung:
            fails.append({"clause": "C07.consistent", "site": SITE_CW + " does not terminate",
                          "detail": {"partition": P, "consensus": cons_rankings, "expected": expect, "pairs": tag}})
        elif lacks:
            pass        # one group and a ranking that lacks one of its elements: the stated relation is vacuous, an
            #             answer (either one) is all that is required
        elif got is not expect:
            fails.append({"clause": "C07.consistent", "site": SITE_CW,
                          "detail": {"partition": P, "consensus": cons_rankings, "got": got, "expected": expect,
                                     "pairs": tag}})
        elif not with_dataset:
            ask_shared(cons, cons_rankings, expect, tag)

    # same universe: every ranking with ties
    for c in O.ordered_partitions(list(range(k))):
        one([nm(c)], "same universe")
        if len(fails) >= 3:
            break
    # two consensus rankings: only the first one counts
    for c in list(O.ordered_partitions(list(range(k))))[:: max(1, k)]:
        one([nm(c), nm(c)[::-1]], "two rankings, first decides")
        one([nm(p), nm(c)], "two rankings, first decides")
    # consensus attached to its dataset: complete rankings, and rankings that lack an element of the dataset
    for c in list(O.ordered_partitions(list(range(k))))[:: max(1, k - 1)]:
        one([nm(c)], "consensus attached to its dataset", with_dataset=True)
    if k >= 2:
        for c in O.ordered_partitions(list(range(k - 1))):
            one([nm(c)], "consensus attached to its dataset, ranking lacks an element", with_dataset=True)
    if k <= 3:
        # larger universe (one more element), smaller universe (one fewer)
        for c in O.ordered_partitions(list(range(k + 1))):
            one([nm(c)], "consensus over a larger universe")
        if k >= 2:
            for c in O.ordered_partitions(list(range(k - 1))):
                one([nm(c)], "consensus over a smaller universe")
            for c in O.ordered_partitions(list(range(1, k))):
                one([nm(c)], "consensus over a smaller universe")
        # same size, shifted universe: unambiguous only when the partition has at least two groups
        if len(p) >= 2:
            for c in O.ordered_partitions(list(range(1, k + 1))):
                one([nm(c)], "consensus over a different universe of the same size")
            for c in O.ordered_partitions([0] + list(range(2, k + 1))):
                one([nm(c)], "consensus over a different universe of the same size")
    return {"fails": fails[:6], "key": None, "nkeys": evals if k >= 2 else 0, "evals": evals,
            "sample": {"partition": P, "against": "all rankings with ties over %d names + mismatched universes" % k}}


def _as_groups(op):
    from bounded import adapt as A
    return [[A.val(e) for e in g] for g in op.partition]


def _partition_defect(groups, universe):
    """None if `groups` is a partition of `universe` (type-aware), else a description."""
    seen = set()
    for g in groups:
        if len(g) == 0:
            return "empty group"
        for v in g:
            k = (type(v).__name__, v)
            if k in seen:
                return "element %r in two groups" % (v,)
            seen.add(k)
    want = set((type(v).__name__, v) for v in universe)
    if seen != want:
        return "union %s != universe %s" % (sorted(map(str, seen)), sorted(map(str, want)))
    return None


def _merges_consecutive(coarse, fine):
    """coarse groups = unions of consecutive runs of fine groups, in order."""
    i = 0
    for g in coarse:
        target, acc = set(g), set()
        while i < len(fine) and acc != target:
            if not set(fine[i]) <= target:
                return False
            acc |= set(fine[i])
            i += 1
        if acc != target:
            return False
    return i == len(fine)


def _definitional_parfront(fine, tab):
    """Greedy closure written from the definition: merge two consecutive groups while some pair (x in the earlier,
    y in the later) is not robust, i.e. not (before < after and before < tied); restart from the beginning after every
    merge (the fixpoint is unique: valid cut sets are closed under union)."""
    groups = [list(g) for g in fine]
    changed = True
    while changed:
        changed = False
        for i in range(len(groups) - 1):
            if any(not (tab[(x, y)][0] < tab[(x, y)][1] and tab[(x, y)][0] < tab[(x, y)][2])
                   for x in groups[i] for y in groups[i + 1]):
                groups[i:i + 2] = [groups[i] + groups[i + 1]]
                changed = True
                break
    return groups


def _check_part(case):
    from bounded import adapt as A
    from corankco.partitioning.ordered_partition import OrderedPartition
    rankings, scheme = case["rankings"], case["scheme"]
    exp_r, _conv = A.expected_names(rankings)
    universe = D.universe_of(exp_r)
    n = len(universe)
    key = "%s|%s" % (rankings, scheme) if n >= 2 else None
    fails = []
    try:
        ds = A.mk_dataset(rankings)
        sc = A.mk_scheme(scheme)
        pf = _as_groups(OrderedPartition.parfront_partition(ds, sc))
        pc = _as_groups(OrderedPartition.parcons_partition(ds, sc))
    except Exception as e:
        fails.append({"clause": "C07.crash", "site": SITE_PF + " raised",
                      "detail": {"exception": type(e).__name__, "message": str(e)[:300]}})
        return {"fails": fails, "key": key, "evals": 1, "sample": case}
    bad = _partition_defect(pf, universe)
    if bad:
        fails.append({"clause": "C07.partition", "site": SITE_PF, "detail": {"parfront": pf, "problem": bad}})
        return {"fails": fails, "key": key, "evals": 2, "sample": case}
    if _partition_defect(pc, universe) is None and not _merges_consecutive(pf, pc):
        fails.append({"clause": "C07.merge.order", "site": SITE_PF, "detail": {"parfront": pf, "parcons": pc}})
    if n <= 5:
        tab = O.cost_table(universe, exp_r, scheme[0], scheme[1])
        best, optima = O.optimum_enum(universe, tab)
        for opt in optima:
            if not O.respects(pf, opt):
                # whose fault?  If the partition obtained from the DEFINITION (same parcons groups, robust arcs and
                # merge closure recomputed by the oracle) is respected by every optimum, the merge loop is at fault.
                site, dpf = SITE_PF, None
                if _partition_defect(pc, universe) is None:
                    dpf = _definitional_parfront(pc, tab)
                    if all(O.respects(dpf, o) for o in optima):
                        site = SITE_MERGE if [set(g) for g in dpf] != [set(g) for g in pf] else SITE_PF
                    else:
                        site = "ParFront definition (robust arcs + merge closure) contradicts the theorem"
                fails.append({"clause": "C07.Th", "site": site,
                              "detail": {"parfront": pf, "parcons": pc, "optimal_consensus_not_respecting": opt,
                                         "optimum": best, "n_optima": len(optima),
                                         "parfront_by_definition": dpf}})
                break
    return {"fails": fails, "key": key, "evals": 2, "sample": case}


def check_case(case):
    if case["kind"] == "consistent":
        return _check_consistent(case)
    return _check_part(case)

"""Definitional oracles, independent of the repository code.

Rankings are lists of buckets, buckets are lists/sets of hashable names.  A scheme is (B, T), two sequences of six
numbers.  Everything is written from the property statements and the ScoringScheme docstring:
status 0: x before y in r, 1: y before x, 2: tied, 3: only x ranked, 4: only y ranked, 5: neither ranked.
"""
from itertools import combinations, permutations
from fractions import Fraction


def bucket_index(ranking):
    pos = {}
    for i, b in enumerate(ranking):
        for x in b:
            pos[x] = i
    return pos


def status(pos_r, x, y):
    """Status of the ordered pair (x, y) in the input ranking whose bucket-index map is pos_r."""
    px, py = pos_r.get(x), pos_r.get(y)
    if px is not None and py is not None:
        if px < py:
            return 0
        if px > py:
            return 1
        return 2
    if px is not None:
        return 3
    if py is not None:
        return 4
    return 5


def kemeny(cand, rankings, B, T):
    """K(c, D): sum over input rankings and unordered pairs of candidate elements."""
    pc = bucket_index(cand)
    elems = list(pc)
    total = 0
    for r in rankings:
        pr = bucket_index(r)
        for x, y in combinations(elems, 2):
            if pc[x] < pc[y]:
                total += B[status(pr, x, y)]
            elif pc[x] > pc[y]:
                total += B[status(pr, y, x)]
            else:
                total += T[status(pr, x, y)]
    return total


def cost_table(universe, rankings, B, T, weights=None):
    """M[(x,y)] = (before, after, tied): total penalty of placing x before / after / tied with y."""
    prs = [bucket_index(r) for r in rankings]
    if weights is None:
        weights = [1] * len(rankings)
    tab = {}
    for x in universe:
        for y in universe:
            if x == y:
                continue
            bef = aft = tie = 0
            for pr, w in zip(prs, weights):
                bef += w * B[status(pr, x, y)]
                aft += w * B[status(pr, y, x)]
                tie += w * T[status(pr, x, y)]
            tab[(x, y)] = (bef, aft, tie)
    return tab


def score_from_table(cand, tab):
    pc = bucket_index(cand)
    total = 0
    for x, y in combinations(list(pc), 2):
        if pc[x] < pc[y]:
            total += tab[(x, y)][0]
        elif pc[x] > pc[y]:
            total += tab[(x, y)][1]
        else:
            total += tab[(x, y)][2]
    return total


def ordered_partitions(elems):
    """All rankings with ties (ordered set partitions) of elems; elems a list.  Fubini numbers 1,1,3,13,75,541."""
    elems = list(elems)
    if not elems:
        yield []
        return
    first, rest = elems[0], elems[1:]
    for sub in ordered_partitions(rest):
        # put `first` into an existing bucket
        for i in range(len(sub)):
            yield [b + [first] if k == i else list(b) for k, b in enumerate(sub)]
        # or into a new bucket at any position
        for i in range(len(sub) + 1):
            yield [list(b) for b in sub[:i]] + [[first]] + [list(b) for b in sub[i:]]


def rankings_over(n_or_elems):
    """R(n): all rankings with ties over all subsets of the given elements, including the empty ranking."""
    elems = list(range(n_or_elems)) if isinstance(n_or_elems, int) else list(n_or_elems)
    out = []
    for k in range(len(elems) + 1):
        for sub in combinations(elems, k):
            out.extend(ordered_partitions(list(sub)))
    return out


def canon(ranking):
    return tuple(frozenset(b) for b in ranking)


def optimum_enum(universe, tab):
    """(best score, list of all optimal rankings) by complete enumeration."""
    best, arg = None, []
    for c in ordered_partitions(list(universe)):
        s = score_from_table(c, tab)
        if best is None or s < best:
            best, arg = s, [c]
        elif s == best:
            arg.append(c)
    return best, arg


def optimum_dp(universe, tab):
    """Optimum value by DP over subsets: f(S) = min over non-empty first bucket A of S."""
    elems = list(universe)
    n = len(elems)
    if n == 0:
        return 0
    bef = [[0] * n for _ in range(n)]
    tie = [[0] * n for _ in range(n)]
    for i in range(n):
        for j in range(n):
            if i != j:
                bef[i][j] = tab[(elems[i], elems[j])][0]
                tie[i][j] = tab[(elems[i], elems[j])][2]
    full = (1 << n) - 1
    # tie_cost[A] = sum of tie over pairs inside A
    tie_cost = [0] * (full + 1)
    for A in range(1, full + 1):
        low = (A & -A).bit_length() - 1
        rest = A & (A - 1)
        tie_cost[A] = tie_cost[rest] + sum(tie[low][j] for j in range(n) if rest >> j & 1)
    # bef_to[i][S] = sum over j in S of bef[i][j]
    bef_to = [[0] * (full + 1) for _ in range(n)]
    for i in range(n):
        for S in range(1, full + 1):
            low = (S & -S).bit_length() - 1
            bef_to[i][S] = bef_to[i][S & (S - 1)] + bef[i][low]
    f = [None] * (full + 1)
    f[0] = 0
    for S in range(1, full + 1):
        best = None
        A = S
        while A:
            R = S ^ A
            c = tie_cost[A] + f[R]
            for i in range(n):
                if A >> i & 1:
                    c += bef_to[i][R]
            if best is None or c < best:
                best = c
            A = (A - 1) & S
        f[S] = best
    return f[full]


def single_moves(ranking):
    """All rankings reachable by moving one element into another existing bucket or a new bucket anywhere."""
    ranking = [list(b) for b in ranking]
    out = []
    for bi, b in enumerate(ranking):
        for x in b:
            rest = [[y for y in bb if y != x] for bb in ranking]
            rest_ne = [bb for bb in rest if bb]
            for k in range(len(rest_ne)):
                cand = [list(bb) + ([x] if kk == k else []) for kk, bb in enumerate(rest_ne)]
                out.append(cand)
            for k in range(len(rest_ne) + 1):
                cand = [list(bb) for bb in rest_ne[:k]] + [[x]] + [list(bb) for bb in rest_ne[k:]]
                out.append(cand)
    return out


def respects(partition, ranking):
    """Every element of an earlier group strictly before every element of a later group."""
    pr = bucket_index(ranking)
    for i in range(len(partition)):
        for j in range(i + 1, len(partition)):
            for x in partition[i]:
                for y in partition[j]:
                    if x not in pr or y not in pr or not pr[x] < pr[y]:
                        return False
    return True


def unify(ranking, universe):
    dom = set(x for b in ranking for x in b)
    missing = [x for x in universe if x not in dom]
    out = [list(b) for b in ranking]
    if missing:
        out.append(missing)
    return out


def borda_oracle(rankings, universe, unified, use_bucket_id):
    """Classes of equal exact mean score, increasing.  Score in a ranking: number of elements strictly before
    (or bucket index); unified: unranked elements count as one last bucket, else skipped."""
    tot = {x: Fraction(0) for x in universe}
    cnt = {x: 0 for x in universe}
    for r in rankings:
        rr = unify(r, universe) if unified else r
        acc = 0
        for bi, b in enumerate(rr):
            for x in b:
                tot[x] += bi if use_bucket_id else acc
                cnt[x] += 1
            acc += len(b)
    means = {x: tot[x] / cnt[x] for x in universe if cnt[x] > 0}
    vals = sorted(set(means.values()))
    return [frozenset(x for x in means if means[x] == v) for v in vals]


def copeland_oracle(universe, tab):
    score = {x: Fraction(0) for x in universe}
    res = {x: [0, 0, 0] for x in universe}
    for x in universe:
        for y in universe:
            if x == y:
                continue
            b, a, _ = tab[(x, y)]
            if b < a:
                score[x] += 1
                res[x][0] += 1
            elif b == a:
                score[x] += Fraction(1, 2)
                res[x][1] += 1
            else:
                res[x][2] += 1
    vals = sorted(set(score.values()), reverse=True)
    return [frozenset(x for x in universe if score[x] == v) for v in vals], score, res


def valid_scheme(B, T):
    try:
        if len(B) != 6 or len(T) != 6:
            return False
        vals = list(B) + list(T)
        if any(isinstance(v, bool) for v in vals):
            pass
        if any(v != v or v < 0 for v in vals):
            return False
        return B[0] == 0 and B[1] > 0 and B[3] <= B[4] and T[0] == T[1] and T[2] == 0 and T[3] == T[4]
    except TypeError:
        return False


def proportional(a, b, stop=6):
    """exists k>0 with a[v][i] == k*b[v][i] for v in {0,1}, i<stop (exact: use Fractions / dyadics)."""
    k = None
    for v in (0, 1):
        for i in range(stop):
            x, y = Fraction(a[v][i]), Fraction(b[v][i])
            if (x == 0) != (y == 0):
                return False
            if x != 0:
                q = x / y
                if k is None:
                    k = q
                elif q != k:
                    return False
    return True

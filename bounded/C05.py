"""C05 bounded tier: the exact algorithm returns a global optimum, with or without CPLEX.

Clauses
  C05.select.fallback  with cplex absent (the sandbox's real state) ExactAlgorithm(optimize=True/False) must answer
                       (through the free solver) instead of raising
  C05.opt              per configuration -- ExactPulp; Exact(optimize=T/F) with cplex absent and with the cplex stand-in;
                       Cplex(optimize=T/F); CplexOptim1 -- every returned ranking is a well-formed ranking of the universe
                       whose ORACLE score equals the oracle optimum (all rankings with ties enumerated, n <= 5; subset DP
                       beyond)
  C05.opt.all          non-optimised CPLEX model (Cplex(optimize=False) and the selector in front of it), all optimal
                       consensuses requested: the returned SET equals the oracle's set of all minimisers (n <= 5)
  C05.cplex.sense_len  every model handed to the (stand-in) CPLEX API has n(n-1)/2 'E' rows x_ij+x_ji+t_ij=1, then
                       3n(n-1)(n-2) 'L' transitivity rows, then only single-variable 'E' pruning rows t_ij=0; rows, senses,
                       rhs and names have equal lengths (recorded by subclassing the STAND-IN's constraint container; the
                       repository is not patched)
  C05.crash            a configuration raised on a well-formed input (anything but the documented
                       IncompatibleArgumentsException of optimize=True + all rankings requested)
Sites carry the configuration, the cplex mode and an INPUT category that separates root causes: "sparse dataset" = some
input ranking misses >= 2 universe elements (necessary for a ranking to miss a whole non-trivial component);
"tiny-scaled scheme" = every penalty < 2**-10 (only generated together with non-sparse datasets); else "generic".
"""
import random

from bounded import domains as D
from bounded import oracle as O

ID = "C05"
RULE = ("one case = one (dataset, scheme) pair run through up to 8 configurations x {one, all} optimal rankings: "
        "Cplex(optimize=T/F), CplexOptim1 and the selector Exact(optimize=T/F) through the cplex stand-in; on every 5th "
        "sampled case also ExactPulp and the selector with cplex absent (CBC is a subprocess per solve).  Datasets: every "
        "dataset n<=3, m<=2; seeded generic / conflict (mostly strict, cyclic, presence 0.3-1.0) / two-block datasets with "
        "n<=6 (quick) or n<=8 (thorough), all element-name kinds; schemes: presets, boundary, generic, scalings incl. "
        "2**-13 and 2**-14 (with non-sparse datasets only), random grid schemes.  Non-trivial = universe of >= 2 elements; "
        "distinct = distinct (dataset, scheme).")
EXHAUSTIVE = {"quick": False, "thorough": False}
SCOPE = {"quick": "701 datasets (n<=3,m<=2) x 4 schemes (stand-in configurations) + 72 mixed-name cases + 2500 sampled "
                  "(dataset n<=6, scheme) pairs, 500 of them also through CBC (ExactPulp + 2 selector configurations); all-optima sets n<=5",
         "thorough": "701 datasets x 25 schemes + 72 mixed-name cases + 40000 sampled pairs n<=6 (8000 through CBC) + 400 "
                     "pairs with n in 7..8 (optimum by subset DP, one ranking requested); all-optima sets n<=5"}
CHUNK = 4
# every 8th case is run a second time with its datasets reached through a history (vlib.t2run._with_histories)
VIA_EVERY = {"quick": 8, "thorough": 8}
TIMEOUT = 600
ASSUMPTIONS = ["cplex stand-in: /verif/bounded/standin_cplex.py replaces the proprietary cplex module (complete 0/1 "
               "enumeration up to 30 variables, CBC on the same rows beyond); it validates argument lengths like CPLEX and "
               "returns all optimal 0/1 solutions for populate_solution_pool; results say nothing about CPLEX itself",
               "CBC (PuLP) is the free solver actually executed for ExactAlgorithmPulp"]

TINY = 2.0 ** -10
SITE_SELECT = "ExactAlgorithm selector, cplex absent"
SITE_ROWS = "ExactAlgorithmCplex rows / senses handed to linear_constraints.add"
RECORD = []          # models seen by the stand-in in this worker (filled by _RecConstraints)


# ---------------------------------------------------------------------------------------------------------------------
def _conflict_dataset(rng, n, m, p_present, p_tie):
    elems = list(range(n))
    while True:
        d = []
        for _ in range(m):
            chosen = [x for x in elems if rng.random() < p_present]
            rng.shuffle(chosen)
            r = []
            for x in chosen:
                if r and rng.random() < p_tie:
                    r[-1].append(x)
                else:
                    r.append([x])
            d.append(r)
        if any(d):
            return d


def _block_dataset(rng, n):
    """Two blocks of elements; most rankings see one block only, a few order the blocks."""
    elems = list(range(n))
    rng.shuffle(elems)
    cut = rng.randint(1, n - 1)
    blocks = [elems[:cut], elems[cut:]]
    d = []
    for _ in range(rng.randint(3, 6)):
        b = rng.choice(blocks + [elems])
        if b is elems:
            chosen = [x for x in blocks[0] if rng.random() < 0.6] + [x for x in blocks[1] if rng.random() < 0.6]
        else:
            chosen = [x for x in b if rng.random() < 0.8]
            rng.shuffle(chosen)
        r = []
        for x in chosen:
            if r and rng.random() < 0.15:
                r[-1].append(x)
            else:
                r.append([x])
        d.append(r)
    if not any(d):
        d.append([[elems[0]]])
    return d


def _is_sparse(rankings):
    u = D.universe_of(rankings)
    return any(len(u) - sum(len(b) for b in r) >= 2 for r in rankings)


def _is_mixed(rankings):
    u = [str(x) for x in D.universe_of(rankings)]
    return any(x.isdigit() for x in u) and not all(x.isdigit() for x in u)


def _is_tiny(scheme):
    return max(max(scheme[0]), max(scheme[1])) < TINY


def _sample(rng, n, tiny):
    while True:
        if tiny:
            d = _conflict_dataset(rng, n, rng.randint(1, 4), rng.choice([0.9, 1.0, 1.0]), rng.choice([0.3, 0.5]))
            if _is_sparse(d):
                continue
            return d
        mode = rng.random()
        if mode < 0.2:
            return D.random_dataset(rng, n, 5, n_min=max(1, n - 1))
        if mode < 0.8 or n < 3:
            return _conflict_dataset(rng, n, rng.randint(2, 6), rng.choice([0.3, 0.4, 0.5, 0.7, 1.0]),
                                     rng.choice([0.0, 0.1, 0.3]))
        return _block_dataset(rng, n)


def _mixed_block_cases():
    """A Condorcet cycle over integer-like string names ranked before / after a block of other string names."""
    for k in (3, 4):
        cyc = [str(2 * i) for i in range(k)]
        for others in (["x1"], ["x1", "x3"]):
            for first in (True, False):
                d = []
                for sh in range(3):
                    c = [[x] for x in cyc[sh:] + cyc[:sh]]
                    o = [list(others)]
                    d.append(c + o if first else o + c)
                for s in (D.unifying(), D.pseudo(), D.GENERIC_B):
                    yield {"rankings": d, "scheme": s, "namekind": "mixed", "pulp": True}


CHEAP_TIES = [D.unifying(.5), D.pseudo(.5), D.induced(.5), D.pseudo(.375), D.unifying(.25), D.pseudo(),
              [[0., 1., .375, 0., 1., 0.], [.375, .375, 0., .375, .375, 0.]]]


def _cycle_cases():
    """Condorcet cycles (both orientations with respect to the order of first appearance, 3 and 4 elements), alone and
    next to an all-tied / a partly tied ranking, under schemes where ties are cheap: the component is one strongly
    connected component whose optimum needs ties although no single pair prefers a tie; every exact back end, pulp too"""
    base = [
        [[[0], [1], [2]], [[1], [2], [0]], [[2], [0], [1]]],
        [[[2], [1], [0]], [[1], [0], [2]], [[0], [2], [1]]],
        [[[0], [1], [2], [3]], [[1], [2], [3], [0]], [[2], [3], [0], [1]], [[3], [0], [1], [2]]],
        [[[3], [2], [1], [0]], [[2], [1], [0], [3]], [[1], [0], [3], [2]], [[0], [3], [2], [1]]],
    ]
    for d in base:
        u = D.universe_of(d)
        for extra in ([], [[list(u)]], [[u[:2], u[2:]]], [[list(u)], [list(u)]]):
            for s in CHEAP_TIES:
                yield {"rankings": d + [[list(b) for b in r] for r in extra], "scheme": s, "namekind": "canon",
                       "pulp": True}
                yield {"rankings": [[list(b) for b in r] for r in extra] + d, "scheme": s, "namekind": "canon",
                       "pulp": True}


def gen_cases(tier, seed):
    quick = tier == "quick"
    for c in _mixed_block_cases():
        yield c
    for c in _cycle_cases():
        yield c
    small = (D.PRESETS[:2] + [D.GENERIC_B, D.BOUNDARY[4]]) if quick else D.SCHEMES_ALL
    for s in small:
        for d in D.all_datasets(3, 2):
            yield {"rankings": d, "scheme": s, "namekind": "canon", "pulp": False}
    rng = random.Random(seed * 32452843 + 5)
    kinds = list(D.NAME_KINDS)
    grid = D.grid_schemes(rng, 100 if quick else 400)
    tiny = [D.scale(D.unifying(), 1. / 8192), D.scale(D.pseudo(), 1. / 8192), D.scale(D.induced(), 1. / 8192),
            D.scale(D.GENERIC_B, 1. / 16384)]
    pool = D.PRESETS + D.BOUNDARY + [D.GENERIC_B, D.GENERIC_C, D.scale(D.unifying(), 2.), D.scale(D.pseudo(), .25)]
    sizes = [2, 3, 3, 3] + [4] * 8 + [5] * 5 + [6] * 4
    n_main = 2500 if quick else 40000
    n_big = 0 if quick else 400
    for i in range(n_main + n_big):
        big = i >= n_main
        r = rng.random()
        if r < 0.10 and not big:
            s = tiny[i % len(tiny)]
        elif r < 0.35:
            s = D.unifying()
        elif r < 0.7:
            s = pool[i % len(pool)]
        else:
            s = grid[i % len(grid)]
        n = rng.choice([7, 8]) if big else rng.choice(sizes)
        if _is_tiny(s):
            n = min(n, 5)
        d = _sample(rng, n, _is_tiny(s))
        u = D.universe_of(d)
        kind = kinds[i % len(kinds)]
        names = D.NAME_KINDS[kind](max(u) + 1)
        yield {"rankings": D.rename(d, names), "scheme": s, "namekind": kind, "pulp": big or i % 5 == 0, "big": big}


# ---------------------------------------------------------------------------------------------------------------------
def setup():
    """Make the STAND-IN record every model it is given (the repository code is untouched)."""
    from bounded import standin_cplex as S

    if getattr(S._Constraints, "_c05_recording", False):
        return

    class _RecConstraints(S._Constraints):
        _c05_recording = True

        def add(self, lin_expr=None, senses="", rhs=None, names=None):
            RECORD.append({"nvars": len(self._v.names), "rows": [(list(r[0]), list(r[1])) for r in lin_expr],
                           "senses": senses, "rhs": list(rhs), "names": None if names is None else list(names)})
            return super().add(lin_expr=lin_expr, senses=senses, rhs=rhs, names=names)

    S._Constraints = _RecConstraints


def _model_defect(rec):
    """None if the recorded linear_constraints.add call has the stated shape, else a description."""
    nv = rec["nvars"]
    n = 0
    while 3 * n * (n - 1) // 2 < nv:
        n += 1
    if 3 * n * (n - 1) // 2 != nv:
        return "number of variables %d is not 3n(n-1)/2" % nv
    a, b = n * (n - 1) // 2, 3 * n * (n - 1) * (n - 2)
    rows, senses, rhs, names = rec["rows"], rec["senses"], rec["rhs"], rec["names"]
    if not (len(rows) == len(senses) == len(rhs)) or (names is not None and len(names) != len(rows)):
        return "n=%d: %d rows, %d senses, %d rhs, %s names" % (n, len(rows), len(senses), len(rhs),
                                                             None if names is None else len(names))
    p = len(rows) - a - b
    if p < 0:
        return "n=%d: only %d rows, expected at least %d + %d" % (n, len(rows), a, b)
    if senses != "E" * a + "L" * b + "E" * p:
        return "n=%d: sense string is not E*%d L*%d E*%d: %s" % (n, a, b, p, senses[:80])
    for k, ((inds, coefs), r) in enumerate(zip(rows, rhs)):
        if k < a:
            ok = len(inds) == 3 and all(c == 1 for c in coefs) and r == 1 and \
                sorted(v[0] for v in inds) == ["t", "x", "x"]
        elif k < a + b:
            ok = (len(inds) == 4 and sorted(coefs) == [-1, 1, 1, 1] and r == 1) or \
                 (len(inds) == 3 and sorted(coefs) == [-1, 2, 2] and r == 3 and all(v[0] == "t" for v in inds))
        else:
            ok = len(inds) == 1 and inds[0][0] == "t" and coefs == [1] and r == 0
        if not ok:
            return "n=%d: row %d (%s, rhs %s) does not have the shape of its block" % (n, k, (inds, coefs), r)
    if p not in (0, a):
        return "n=%d: %d pruning rows, expected 0 or %d" % (n, p, a)
    return None


def _close(a, b, scale):
    """Oracle scores are exact sums of dyadic penalties; the tolerance is relative to the smallest positive penalty."""
    return abs(a - b) <= 1e-9 * scale


def check_case(case):
    from bounded import adapt as A
    from bounded import algs
    setup()
    rankings, scheme = case["rankings"], case["scheme"]
    exp_r, _conv = A.expected_names(rankings)
    universe = D.universe_of(exp_r)
    n = len(universe)
    key = "%s|%s" % (rankings, scheme) if n >= 2 else None
    fails, evals = [], 0
    category = "tiny-scaled scheme" if _is_tiny(scheme) else "sparse dataset" if _is_sparse(exp_r) else "generic"
    mixed = " (mixed integer-like / other names)" if _is_mixed(rankings) else ""
    minpos = min([v for v in scheme[0] + scheme[1] if v > 0] or [1.0])
    tab = O.cost_table(universe, exp_r, scheme[0], scheme[1])
    if n <= 5:
        opt, optima = O.optimum_enum(universe, tab)
        optima_canon = set(O.canon(o) for o in optima)
    else:
        opt, optima, optima_canon = O.optimum_dp(universe, tab), None, None

    def run(name, present, one):
        """-> consensus or None (after recording a fail)"""
        nonlocal evals
        evals += 1
        mode = "cplex stand-in" if present else "cplex absent"
        del RECORD[:]
        try:
            with algs.cplex_mode(present):
                with A.quiet():
                    cons = algs.make(name).compute_consensus_rankings(A.mk_dataset(rankings), A.mk_scheme(scheme), one)
        except Exception as e:
            if type(e).__name__ == "IncompatibleArgumentsException" and not one and name.endswith("(optimize=True)"):
                return None         # documented refusal
            bad_model = next((m for m in map(_model_defect, RECORD) if m), None)
            if bad_model:
                fails.append({"clause": "C05.cplex.sense_len", "site": SITE_ROWS,
                              "detail": {"config": name, "problem": bad_model, "exception": type(e).__name__,
                                         "message": str(e)[:200]}})
            elif not present and name.startswith("Exact("):
                fails.append({"clause": "C05.select.fallback", "site": SITE_SELECT,
                              "detail": {"config": name, "exception": type(e).__name__, "message": str(e)[:200]}})
            else:
                fails.append({"clause": "C05.crash", "site": "%s, %s: raised %s" % (name, mode, type(e).__name__),
                              "detail": {"config": name, "one": one, "exception": type(e).__name__,
                                         "message": str(e)[:200]}})
            return None
        if present:
            bad_model = next((m for m in map(_model_defect, RECORD) if m), None)
            if bad_model:
                fails.append({"clause": "C05.cplex.sense_len", "site": SITE_ROWS,
                              "detail": {"config": name, "problem": bad_model}})
        site = "%s, %s: %s" % (name, mode, category)
        wf = algs.well_formed(cons, set(universe), one)
        if wf is not None:
            fails.append({"clause": "C05.opt", "site": "%s, %s: ill-formed consensus%s" % (name, mode, mixed),
                          "detail": {"config": name, "one": one, "problem": wf}})
            return None
        for r in cons.consensus_rankings:
            raw = A.ranking_to_raw(r)
            got = O.score_from_table(raw, tab)
            if not _close(got, opt, minpos):
                fails.append({"clause": "C05.opt", "site": site,
                              "detail": {"config": name, "one": one, "consensus": raw, "score": got, "optimum": opt,
                                         "an_optimum": optima[0] if optima else None}})
                return None
        return cons

    def all_optima(name):
        cons = run(name, True, False)
        if cons is None or optima_canon is None:
            return
        got = set(A.raw_canon(r) for r in cons.consensus_rankings)
        if got != optima_canon:
            missing = [[sorted(map(str, b)) for b in o] for o in optima_canon - got][:3]
            extra = [[sorted(map(str, b)) for b in o] for o in got - optima_canon][:3]
            fails.append({"clause": "C05.opt.all", "site": "%s, cplex stand-in: %s" % (name, category),
                          "detail": {"returned": len(got), "minimisers": len(optima_canon), "missing": missing,
                                     "not_minimisers": extra, "optimum": opt}})

    big = bool(case.get("big"))
    # ---- through the cplex stand-in ------------------------------------------------------------------------------------
    for name in ("Cplex(optimize=True)", "Exact(optimize=True)", "Cplex(optimize=False)", "CplexOptim1",
                 "Exact(optimize=False)"):
        if big and name in ("Exact(optimize=False)",):
            continue
        run(name, True, True)
    if n <= 5:
        all_optima("Cplex(optimize=False)")
        all_optima("Exact(optimize=False)")
        run("CplexOptim1", True, False)         # a subset of the optima: each must be optimal
        run("Cplex(optimize=True)", True, False)   # documented refusal (or, if answered, optimal rankings)
    # ---- cplex absent (the real state of the sandbox) ------------------------------------------------------------------
    if case.get("pulp"):
        run("ExactPulp", False, True)
        run("Exact(optimize=True)", False, True)
        run("Exact(optimize=False)", False, True)
        if n <= 4:
            run("Exact(optimize=False)", False, False)
    return {"fails": fails, "key": key, "evals": evals, "sample": case}

"""C03 bounded tier: every algorithm configuration returns a well-formed consensus over exactly the universe.

Clauses
  C03.W            property contract W(alg, D, S, one) on the consensus an algorithm returned: >= 1 ranking (exactly 1 when
                   at most one was requested); every ranking = non-empty, pairwise disjoint buckets whose union is exactly
                   the dataset's universe, names typed as the Dataset is documented to type them (all int when every name
                   is integer-like, else all str).  site = configuration name
  C03.W.types      W fails ONLY through the typing of names: the consensus would be well formed if names were compared as
                   text (e.g. Element(int 21) returned for the dataset's Element('21')); site = configuration name
                   (on the unchanged tree: sub-problems made of integer-like names only are re-typed to int by
                   Dataset.sub_problem_from_elements / _from_ids inside ParCons and the optimised exact algorithm)
  C03.W.crash      compute_consensus_rankings died with NameError on the absent `cplex` module (no consensus at all);
                   site = configuration name, one (clause, site) per configuration  (defects D7 / D8 of DESIGN section 4)
  C03.W.exception  compute_consensus_rankings died with any other undocumented exception;
                   site = "<configuration>: <exception type>"

Documented refusals are not failures ("every dataset and scheme an algorithm ACCEPTS"):
  InompleteRankingsIncompatibleWithScoringSchemeException / ScoringSchemeNotHandledException on an INCOMPLETE dataset,
  IncompatibleArgumentsException for optimize=True when all optimal consensuses are requested.
(Refusals of complete datasets are judged by C14, not here.)

This module also hosts the helpers shared with C04 and C14 (configuration table, runner, pivot exploration, dataset sweep).
"""
import random

from bounded import domains as D

ID = "C03"
RULE = ("one case = (dataset, element naming, scheme); inside a case every configuration (21 of algs.CONFIGS, plus "
        "ParCons / ExactAlgorithm re-run through the cplex stand-in) is run with return_at_most_one_ranking in "
        "{True, False}; configurations drawing random pivots are run under EVERY pivot sequence when the universe has "
        "<= 4 elements (controlled `choice`), else under 3 seeds. quick: all datasets of <= 2 rankings from R(3) "
        "(rankings with ties over subsets of 3 names, empty rankings and duplicates included) under 3 rotating "
        "(naming, scheme) pairs, 17 hand-written corner datasets under all 7 namings x 5 schemes, 600 seeded datasets "
        "n<=5 m<=4 (1/5 complete, 1/7 with a duplicated ranking, 1/11 with an empty ranking).  distinct = distinct "
        "(dataset, naming, scheme, configuration, one, pivot sequence) that returned a consensus; a case is trivial "
        "when no configuration returned a consensus.")
EXHAUSTIVE = {"quick": False, "thorough": False}
SCOPE = {"quick": "700 datasets (n<=3, m<=2, exhaustive) x 3 (naming, scheme) + 17 corner datasets x 7 namings x 5 "
                  "schemes + 600 sampled (n<=5, m<=4); 35 schemes; 25 configurations x one in {T,F} each; all pivot "
                  "sequences for n<=4",
         "thorough": "all datasets n<=3 m<=3 (18.3k) and n=4 m<=2 (22.6k) x 1 rotating scheme, quick's sweep, 8000 "
                     "sampled (n<=6, m<=5; stand-in configurations with return_at_most_one_ranking=False only for "
                     "n<=5); all pivot sequences for n<=4"}
CHUNK = 4
# every 6th case is run a second time with every algorithm object used before on related inputs (bounded/algs.py: warm)
WARM_EVERY = {"quick": 6, "thorough": 6}
# every 8th case is run a second time with its datasets reached through a history (vlib.t2run._with_histories)
VIA_EVERY = {"quick": 8, "thorough": 8}
TIMEOUT = 300
ASSUMPTIONS = ["cplex is absent in the sandbox: configurations named Cplex* / *@standin run the repository's CPLEX "
               "driver code against bounded/standin_cplex.py (a stand-in, says nothing about CPLEX itself)"]

# ---------------------------------------------------------------------------------------------------------------
# schemes: the shared list plus schemes whose B vector is proportional to a preset while the T vector is not
D1_PROBES = [
    [[0., 2., 2., 0., 2., 2.], [0., 0., 0., .5, .5, .5]],       # B = 2 * unifying.B, T unrelated
    [[0., 1., 1., 0., 1., 1.], [1., 1., 0., 1., 1., 1.]],       # unifying but T[5] = 1
    [[0., 1., 1., 0., 0., 0.], [1., 1., 0., 1., 1., 0.]],       # induced.B, T[3] = T[4] = 1
    [[0., 1., .5, 0., 1., .5], [1., 1., 0., 1., 1., 0.]],       # unifying(.5).B, T[0] = 1
    [[0., 1., .5, 0., 0., 0.], [.5, .5, 0., .5, .5, .5]],       # induced(.5).B, T differs
    [[0., 2., 2., 0., 2., 2.], [1., 1., 0., 1., 1., 0.]],       # B = 2 * unifying.B, T = 1 * unifying.T
]
EXTRA_MULTIPLES = [D.scale(D.unifying(), 3.), D.scale(D.unifying(.5), 2.), D.scale(D.induced(.5), .25),
                   D.scale(D.induced(), 4.)]
SCHEMES = D.SCHEMES_ALL + D1_PROBES + EXTRA_MULTIPLES

# ---------------------------------------------------------------------------------------------------------------
# configurations: label -> (name in algs.CONFIGS, run with the stand-in installed?)
STANDIN_ALL_OPTIMA_MAX = 5      # stand-in configurations are asked for all optimal consensuses only up to 5 elements
EXTRA_STANDIN = ["ParCons", "ParCons(bound=2,aux=KwikSort)", "Exact(optimize=True)", "Exact(optimize=False)"]


def config_table():
    from bounded import algs
    tab = []
    for name in algs.CONFIGS:
        tab.append((name, name, bool(algs.flags(name).get("standin"))))
    for name in EXTRA_STANDIN:
        tab.append((name + "@standin", name, True))
    return tab


def harness_exc(e):
    """The runner's per-case alarm (vlib.t2run.CaseTimeout) belongs to the harness: it must never be taken for an
    exception of the repository."""
    return type(e).__name__ == "CaseTimeout"


def uses_random(base):
    return "KwikSort" in base


def refusal_kind(exc):
    """'incomplete' / 'arguments' for the documented refusals, None for anything else."""
    from corankco.algorithms.rank_aggregation_algorithm import ScoringSchemeNotHandledException
    from corankco.algorithms.pickaperm.pickaperm import InompleteRankingsIncompatibleWithScoringSchemeException
    from corankco.algorithms.exact.exactalgorithmbase import IncompatibleArgumentsException
    if isinstance(exc, (ScoringSchemeNotHandledException, InompleteRankingsIncompatibleWithScoringSchemeException)):
        return "incomplete"
    if isinstance(exc, IncompatibleArgumentsException):
        return "arguments"
    return None


def run_once(base, standin, rankings, scheme, one, chooser=None, seed=0):
    """One execution of the repository code.  Returns ("ok", Consensus) | ("refused", kind) | ("exc", exception)."""
    from bounded import adapt as A, algs
    with algs.cplex_mode(standin):
        try:
            alg = algs.make(base)
            ds = A.mk_dataset(rankings)
            sc = A.mk_scheme(scheme)
            random.seed(seed)
            with A.quiet():
                if chooser is None:
                    cons = alg.compute_consensus_rankings(ds, sc, one)
                else:
                    with algs.controlled_pivots(chooser):
                        cons = alg.compute_consensus_rankings(ds, sc, one)
            return "ok", cons
        except Exception as e:      # repo exception: classified by the caller
            if harness_exc(e):
                raise
            kind = refusal_kind(e)
            if kind is not None:
                return "refused", kind
            return "exc", e


def runs(base, standin, rankings, scheme, one, n_univ, explore_max=4, seeds=(0, 1, 2), cap=200):
    """Yield (tag, status, payload) for every execution to be judged: all pivot sequences (n_univ <= explore_max) or a
    few seeds for the randomised configurations, one execution otherwise."""
    if standin and not one and n_univ > STANDIN_ALL_OPTIMA_MAX:
        return          # the stand-in enumerates ALL optima by no-good cuts beyond 5 elements: out of scope (see SCOPE)
    if not uses_random(base):
        st, p = run_once(base, standin, rankings, scheme, one)
        yield "", st, p
        return
    if n_univ > explore_max:
        for s in seeds:
            st, p = run_once(base, standin, rankings, scheme, one, seed=s)
            yield "seed=%d" % s, st, p
        return
    stack = [[]]
    count = 0
    while stack and count < cap:
        prefix = stack.pop()
        trace = []

        def chooser(elements, prefix=prefix, trace=trace):
            k = len(trace)
            i = prefix[k] if k < len(prefix) else 0
            if i >= len(elements):       # the choice tree is deterministic, so this is not expected; stay total
                i = 0
            trace.append((i, len(elements)))
            return elements[i]
        st, p = run_once(base, standin, rankings, scheme, one, chooser=chooser)
        count += 1
        # (no pivot drawn through the hook: the answer is judged all the same — e.g. a universe handled without a pivot,
        # or a repository that draws its pivots elsewhere, in which case the exploration degrades to this single run)
        yield "pivots=%s" % [t[0] for t in trace], st, p
        for k in range(len(prefix), len(trace)):
            for alt in range(1, trace[k][1]):
                stack.append([t[0] for t in trace[:k]] + [alt])


def exc_fail(prefix, label, exc, extra):
    """The fail record for an undocumented exception: one stable (clause, site) per configuration."""
    text = "%s: %s" % (type(exc).__name__, str(exc)[:200])
    detail = dict(extra)
    detail["exception"] = text
    if isinstance(exc, NameError) and "cplex" in str(exc):
        return {"clause": prefix + ".crash", "site": label, "detail": detail}
    return {"clause": prefix + ".exception", "site": "%s: %s" % (label, type(exc).__name__), "detail": detail}


# ---------------------------------------------------------------------------------------------------------------
# dataset sweep (shared)
CORNERS = [
    [[[0]]],                                         # single-element universe
    [[[0]], [[0]]],                                  # ... duplicated
    [[[0]], []],                                     # ... with an empty ranking
    [[[0]], [[0]], [[0]]],
    [[[0, 1, 2]]],                                   # everything tied
    [[[0], [1], [2]], [[0], [1], [2]], [[0], [1], [2]]],      # triplicated
    [[[0], [1], [2]], [[1], [2], [0]], [[2], [0], [1]]],      # Condorcet cycle (one strongly connected component)
    [[[0], [1], [2], [3]], [[1], [0], [3], [2]], [[3], [2], [1], [0]]],
    [[[2], [0], [1]], [[0]], [[0, 1], [2]]],         # the C04 probe of DESIGN
    [[[2]], [[1, 2]], [[3], [1]], [[0], [2]]],       # the sparse C06 probe of DESIGN
    [[], [[1], [0]], [], [[0, 1]]],                  # empty rankings first and in the middle
    [[[0], [1]], [[2], [3]]],                        # disjoint domains
    [[[0, 1], [2, 3]], [[2, 3], [0, 1]], [[0, 2], [1, 3]]],
    [[[3], [2], [1], [0]], [[3], [2], [1], [0]], [[0], [1], [2], [3]], [[1, 2]]],
    # a Condorcet cycle (non-trivial strongly connected component) next to elements outside it: under the namings
    # "mixed2" / "mixed" the component consists of integer-like names only while the dataset does not
    [[[0], [1], [2], [3]], [[0], [2], [3], [1]], [[0], [3], [1], [2]]],
    [[[1], [0], [2], [4], [3]], [[1], [2], [4], [0], [3]], [[1], [4], [0], [2], [3]]],
    [[[1], [2], [3]], [[2], [3], [1], [0]], [[3], [1], [2]]],
    # Condorcet cycles oriented AGAINST the order in which the elements first appear (internal ids), alone, after an
    # all-tied ranking, on 4 elements, and a 5-ranking profile on 4 elements whose majority graph is cyclic: an ILP that
    # lost part of its transitivity constraints returns the cycle itself (empty leading bucket / elements lost)
    [[[2], [1], [0]], [[1], [0], [2]], [[0], [2], [1]]],
    [[[0, 1, 2]], [[0], [2], [1]], [[1], [0], [2]], [[2], [1], [0]]],
    [[[0, 1, 2]], [[0], [1], [2]], [[1], [2], [0]], [[2], [0], [1]]],
    [[[3], [2], [1], [0]], [[2], [1], [0], [3]], [[1], [0], [3], [2]], [[0], [3], [2], [1]]],
    [[[3], [1], [2], [0]], [[2], [1], [3], [0]], [[2], [1], [0], [3]], [[1], [0], [3], [2]], [[3], [2], [0], [1]]],
    [[[0, 2], [1, 3]], [[3], [0, 1, 2]], [[0], [1, 2, 3]], [[1], [0], [2, 3]], [[3], [1], [0, 2]]],
]


# namings: those of domains.py plus one where every name but the first is integer-like (a sub-problem made of
# integer-like names only inside a dataset that is NOT all integer-like must keep its str names)
NAME_KINDS = dict(D.NAME_KINDS)
NAME_KINDS["mixed2"] = lambda n: ["a"] + [str(20 + i) for i in range(1, n)]


def named(rankings, kind):
    u = D.universe_of(rankings)
    n = (max(u) + 1) if u else 1
    return D.rename(rankings, NAME_KINDS[kind](n))


def sweep(tier, seed, schemes, per_dataset_schemes=3, sample_quick=600, sample_thorough=8000):
    """Deterministic stream of {"rankings", "scheme", "namekind", "src"} shared by C03 / C04."""
    kinds = list(NAME_KINDS)
    ns = len(schemes)
    i = 0
    for d in D.all_datasets(3, 2):
        for j in range(per_dataset_schemes):
            kind = kinds[(i + 3 * j) % len(kinds)]
            yield {"rankings": named(d, kind), "scheme": schemes[(i * per_dataset_schemes + j * 11) % ns],
                   "namekind": kind, "src": "n3m2"}
        i += 1
    for ci, d in enumerate(CORNERS):
        for ki, kind in enumerate(kinds):
            for j in range(5):
                yield {"rankings": named(d, kind), "scheme": schemes[(ci * 7 + ki * 3 + j * 13) % ns],
                       "namekind": kind, "src": "corner"}
    if tier == "thorough":
        i = 0
        for d in D.all_datasets(3, 3, exact_m=True):
            kind = kinds[i % len(kinds)]
            yield {"rankings": named(d, kind), "scheme": schemes[(i * 5 + 1) % ns], "namekind": kind, "src": "n3m3"}
            i += 1
        for d in D.all_datasets(4, 2):
            if max([-1] + D.universe_of(d)) < 3:      # already covered by the n<=3 sweep
                continue
            kind = kinds[i % len(kinds)]
            yield {"rankings": named(d, kind), "scheme": schemes[(i * 5 + 1) % ns], "namekind": kind, "src": "n4m2"}
            i += 1
    rng = random.Random(seed * 104729 + 3)
    # near ties: sparse / tied datasets under the schemes of domains.NEAR_TIES whose distinct scores are relatively
    # close (a selection "== minimum" turned tolerant returns rankings that do not have the reported score)
    for i in range(120 if tier == "quick" else 1200):
        if i % 2:
            d = D.random_dataset(rng, 5, 4, complete=(i % 3 == 2), n_min=3)
        else:
            # conflicting permutations of 6-7 elements, one of them truncated: local searches started from different
            # rankings end in different local optima, whose scores share the large constant part
            n_, d = 6 + (i // 2) % 2, []
            for k in range(5):
                p_ = list(range(n_))
                rng.shuffle(p_)
                d.append([[x] for x in (p_[:n_ - 2] if k == 1 else p_)])
        kind = kinds[i % len(kinds)]
        yield {"rankings": named(d, kind), "scheme": [D.OFFSET_NEAR_TIE, D.BIG_NEAR_TIE][(i % 3) // 2], "namekind": kind,
               "src": "near-tie"}
    count = sample_quick if tier == "quick" else sample_thorough
    for i in range(count):
        d = D.random_dataset(rng, 5 if tier == "quick" else 6, 4 if tier == "quick" else 5,
                             complete=(i % 5 == 0))
        if i % 7 == 0 and len(d) >= 1:
            d = d + [[list(b) for b in d[0]]]          # a duplicated ranking
        if i % 11 == 0:
            d = d + [[]]                               # an empty ranking
        kind = kinds[i % len(kinds)]
        yield {"rankings": named(d, kind), "scheme": schemes[(i * 3 + 1 + i // len(kinds)) % ns], "namekind": kind,
               "src": "sample"}


def only_types_differ(cons, universe, one):
    """True when the consensus would be well formed if names were compared as text (int 4 returned for str '4')."""
    from bounded import adapt as A
    try:
        rs = cons.consensus_rankings
        if len(rs) < 1 or (one and len(rs) != 1):
            return False
        want = sorted(str(v) for v in universe)
        for r in rs:
            if any(len(b) == 0 for b in r):
                return False
            if sorted(str(A.val(e)) for b in r for e in b) != want:
                return False
        return True
    except Exception as e:
        if harness_exc(e):
            raise
        return False


def gen_cases(tier, seed):
    for c in sweep(tier, seed, SCHEMES):
        yield c


def check_case(case):
    from bounded import adapt as A, algs
    rankings, scheme = case["rankings"], case["scheme"]
    exp_r, _ = A.expected_names(rankings)
    universe = set(D.universe_of(exp_r))
    n_univ = len(universe)
    fails, seen, evals, answered = [], set(), 0, 0

    def add(f):
        sig = (f["clause"], f["site"])
        if sig not in seen:
            seen.add(sig)
            fails.append(f)

    for label, base, standin in config_table():
        for one in (True, False):
            for tag, st, p in runs(base, standin, rankings, scheme, one, n_univ):
                evals += 1
                ctx = {"config": label, "one": one, "run": tag}
                if st == "refused":
                    if p == "arguments" and not (algs.flags(base).get("one_only") and not one):
                        add({"clause": "C03.W.exception", "site": "%s: IncompatibleArgumentsException" % label,
                             "detail": dict(ctx, exception="IncompatibleArgumentsException although the arguments are "
                                                           "compatible")})
                    continue
                if st == "exc":
                    add(exc_fail("C03.W", label, p, ctx))
                    continue
                answered += 1
                try:
                    why = algs.well_formed(p, universe, one)
                    shown = [A.ranking_to_raw(r) for r in p.consensus_rankings][:4]
                except Exception as e:       # the object returned cannot even be traversed as a list of rankings
                    if harness_exc(e):
                        raise
                    why = "result is not a list of rankings of buckets: %s: %s" % (type(e).__name__, e)
                    shown = None
                if why is not None:
                    clause = "C03.W.types" if only_types_differ(p, universe, one) else "C03.W"
                    add({"clause": clause, "site": label, "detail": dict(ctx, problem=why, consensus=shown,
                                                                         universe=sorted(map(repr, universe)))})
    key = "%s|%s" % (rankings, scheme) if answered else None
    return {"fails": fails, "key": key, "nkeys": max(answered - 1, 0), "evals": evals, "sample": case}

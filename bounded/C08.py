"""C08 bounded tier: BioConsert returns a local optimum of the Kemeny score.

Clauses (names of DESIGN.md section 3, C08)
  C08.prop          every ranking returned by compute_consensus_rankings(return_at_most_one_ranking=False, and True
                    on the default configuration) of BioConsert without starters, BioCo (= [Borda]), [Copeland],
                    [KwikSort], [PickAPerm], [Copeland, KwikSort], [Borda, Copeland, PickAPerm, KwikSort] admits no
                    single-element move (into another existing bucket, or alone into a new bucket at any position;
                    oracle.single_moves) whose oracle Kemeny score is lower by more than 0.001 + 1e-9.
                    site = configuration
  kernels called directly on random dense bucket-id vectors and cost tables of random datasets (n <= 7), compiled
  and `.py_func`:
  C08.delta.arrays  _compute_delta_costs: `alone` flag truthful, the ranking is not written to
  C08.delta.lemma   the prefix sums of `change` / `add` away from the element's bucket equal the oracle score
                    difference of "join bucket b" / "alone in a new bucket before bucket p" for EVERY target
  C08.search.change / C08.search.add
                    result t >= 0 => admissible target, oracle delta(t) < -0.001 and array[t] == oracle delta(t);
                    result -1 => no admissible target has oracle delta < -0.001 - 1e-9
  C08.move.change / C08.move.add
                    _change_bucket / _add_bucket turn r into exactly the dense numbering of the intended ranking
  C08.sweep         _improve_one_ranking: r stays dense (ids exactly 0..max), is a local optimum w.r.t. all
                    single-element moves (threshold 0.001), returned delta == score(after) - score(before) within
                    1e-9 and <= 0; compiled and pure-Python executions agree
  C08.terminates    a case (normally well under 1 s) that gives no answer within 90 s; every case runs in a forked child
                    because a spinning numba kernel cannot be interrupted by the runner's SIGALRM
Documented refusals of a starter (PickAPerm / Borda on incomplete data under a scheme they do not handle) are skipped.
"""
import random

from bounded import domains as D
from bounded import oracle as O

ID = "C08"
THRESH = 0.001
EPS = 1e-9

CONFIGS = ["none", "BioCo", "[Copeland]", "[KwikSort]", "[PickAPerm]", "[Copeland,KwikSort]",
           "[Borda,Copeland,PickAPerm,KwikSort]"]
# schemes: shared list + scalings that put single penalty units just below / above the 0.001 threshold
NEAR_THRESHOLD = [D.scale(D.unifying(), 1. / 1024), D.scale(D.GENERIC_B, 1. / 1024), D.scale(D.pseudo(.5), 1. / 256),
                  D.scale(D.GENERIC_C, 1. / 512), D.scale(D.induced(), 1. / 2048)]
SCHEMES = D.SCHEMES_ALL + NEAR_THRESHOLD

RULE = ("API cases: one case = (dataset, naming, k schemes); every one of 7 starter configurations is run and every "
        "returned ranking is tested against all its single-element moves. quick: all datasets of <= 2 rankings over "
        "R(3) x 2 rotating schemes (rotating naming), 700 seeded datasets 3<=n<=7, m<=5 x 4 rotating schemes out of "
        "%d (presets, multiples, generic, boundary, 5 near-threshold scalings) + 1 random grid scheme. Kernel cases: "
        "one case = 6 random datasets (n<=7) -> cost tables, 5 random dense id vectors each, every element: "
        "_compute_delta_costs / searches / moves against the oracle, then _improve_one_ranking; compiled and py_func. "
        "Non-trivial = universe >= 2 elements and a consensus was returned (API), n >= 2 (kernel); distinct = distinct "
        "(dataset, naming, scheme, configuration) resp. (table, vector)." % len(SCHEMES))
SCOPE = {"quick": "701 exhaustive datasets (n<=3, m<=2) x 2 schemes + 700 sampled (n<=7, m<=5) x 5 schemes, "
                  "7 configurations; 320 kernel cases x 6 tables x 5 vectors x 2 execution modes (n<=7)",
         "thorough": "all datasets n<=3 m<=3 (18.3k) x 1 scheme, n=4 m<=2 (22.6k) x 1 scheme, 10000 sampled (n<=7, "
                     "m<=5) x 5 schemes, 7 configurations; 1500 kernel cases"}
EXHAUSTIVE = {"quick": False, "thorough": False}
CHUNK = 4
# every 6th case is run a second time with every algorithm object used before on related inputs (bounded/algs.py: warm)
WARM_EVERY = {"quick": 6, "thorough": 6}
TIMEOUT = 300


def _gen_cases_main(tier, seed):
    quick = tier == "quick"
    kinds = list(D.NAME_KINDS)
    ns = len(SCHEMES)
    for i in range(320 if quick else 1500):
        yield {"kind": "kernel", "seed": seed * 7907 + i, "tables": 6, "vectors": 5, "nmax": 7}
    idx = 0
    for d in D.all_datasets(3, 2 if quick else 3):
        k = 2 if quick else 1
        yield {"kind": "api", "rankings": d, "namekind": kinds[idx % len(kinds)],
               "schemes": [SCHEMES[(idx * k + j) % ns] for j in range(k)]}
        idx += 1
    if not quick:
        for d in D.all_datasets(4, 2):
            if 3 in D.universe_of(d):
                yield {"kind": "api", "rankings": d, "namekind": kinds[idx % len(kinds)],
                       "schemes": [SCHEMES[idx % ns]]}
                idx += 1
    rng = random.Random(seed * 1299709 + 8)
    seen = set()
    for i in range(700 if quick else 10000):
        d = D.random_dataset(rng, 7, 5, complete=(i % 5 == 0), n_min=3)
        kind = kinds[i % len(kinds)]
        sch = [SCHEMES[(4 * i + j) % ns] for j in range(4)] + D.grid_schemes(rng, 1)
        if (kind, repr(d)) in seen:
            continue
        seen.add((kind, repr(d)))
        yield {"kind": "api", "rankings": d, "namekind": kind, "schemes": sch}


# ---------------------------------------------------------------------------------------------------------------
def make_alg(config):
    from corankco.algorithms.bioconsert.bioconsert import BioConsert
    from corankco.algorithms.bioconsert.bioco import BioCo
    from corankco.algorithms.borda.borda import BordaCount
    from corankco.algorithms.copeland.copeland import CopelandMethod
    from corankco.algorithms.kwiksort.kwiksortrandom import KwikSortRandom
    from corankco.algorithms.pickaperm.pickaperm import PickAPerm
    if config == "none":
        return BioConsert()
    if config == "BioCo":
        return BioCo()
    mk = {"Borda": BordaCount, "Copeland": CopelandMethod, "KwikSort": KwikSortRandom, "PickAPerm": PickAPerm}
    return BioConsert(starting_algorithms=[mk[nm]() for nm in config.strip("[]").split(",")])


def documented_refusal(exc):
    from corankco.algorithms.rank_aggregation_algorithm import ScoringSchemeNotHandledException
    from corankco.algorithms.pickaperm.pickaperm import InompleteRankingsIncompatibleWithScoringSchemeException
    return isinstance(exc, (ScoringSchemeNotHandledException, InompleteRankingsIncompatibleWithScoringSchemeException))


def improving_move(ranking, tab):
    """Best single-element move improving the table score by more than THRESH + EPS, or None."""
    s0 = O.score_from_table(ranking, tab)
    best = None
    for mv in O.single_moves(ranking):
        s = O.score_from_table(mv, tab)
        if s < s0 - THRESH - EPS and (best is None or s < best[1]):
            best = (mv, s)
    if best is None:
        return None
    return {"ranking": ranking, "score": s0, "move_to": best[0], "score_after_move": best[1]}


def check_api(case):
    from bounded import adapt as A
    canon_rankings = case["rankings"]
    kind = case["namekind"]
    names = D.NAME_KINDS[kind](max(D.universe_of(canon_rankings)) + 1)
    rankings = D.rename(canon_rankings, names)
    exp_r, _conv = A.expected_names(rankings)
    universe = D.universe_of(exp_r)
    complete = D.is_complete(exp_r)
    fails, evals, nk = [], 0, 0
    crashed = set()
    for scheme in case["schemes"]:
        tab = O.cost_table(universe, exp_r, scheme[0], scheme[1])
        for config in CONFIGS:
            site = "BioConsert " + ("no starters" if config == "none" else
                                    "BioCo" if config == "BioCo" else "with starters " + config)
            for one in ((False, True) if config == "none" else (False,)):
                evals += 1
                random.seed(20231 + len(rankings))
                try:
                    cons = make_alg(config).compute_consensus_rankings(A.mk_dataset(rankings), A.mk_scheme(scheme),
                                                                       one)
                except Exception as e:
                    if not complete and documented_refusal(e):
                        continue
                    if (site, type(e).__name__) not in crashed:
                        crashed.add((site, type(e).__name__))
                        fails.append({"clause": "C08.prop", "site": site + " crash",
                                      "detail": {"exception": "%s: %s" % (type(e).__name__, e), "scheme": scheme,
                                                 "rankings_as_given": rankings}})
                    continue
                nk += 1
                for r in cons.consensus_rankings:
                    raw = A.ranking_to_raw(r)
                    elems = [x for b in raw for x in b]
                    if sorted(map(repr, elems)) != sorted(map(repr, universe)) or any(len(b) == 0 for b in raw):
                        fails.append({"clause": "C08.prop", "site": site + " (result not over the universe)",
                                      "detail": {"returned": raw, "universe": universe, "scheme": scheme,
                                                 "rankings_as_given": rankings}})
                        break
                    bad = improving_move(raw, tab)
                    if bad is not None:
                        bad.update({"scheme": scheme, "rankings_as_given": rankings,
                                    "return_at_most_one_ranking": one})
                        fails.append({"clause": "C08.prop", "site": site, "detail": bad})
                        break
    if len(universe) < 2:
        nk = 0
    return {"fails": fails, "key": None, "nkeys": nk, "evals": evals,
            "sample": {"rankings": rankings, "namekind": kind, "schemes": case["schemes"][:1]}}


# ---------------------------------------------------------------------------------------------------------------
# kernels
def dense(vec):
    vals = sorted(set(vec))
    m = {v: i for i, v in enumerate(vals)}
    return [m[v] for v in vec]


def vscore(vec, tab, n):
    """Score of the ranking given by bucket ids (only their relative order matters), from the oracle table."""
    s = 0.0
    for i in range(n):
        for j in range(i + 1, n):
            t = tab[(i, j)]
            s += t[0] if vec[i] < vec[j] else (t[1] if vec[i] > vec[j] else t[2])
    return s


def join_target(r, e, b):
    v = list(r)
    v[e] = b
    return v


def new_target(r, e, p):
    """e alone in a new bucket inserted just before the bucket numbered p (p = max+1: at the end)."""
    v = [2 * x for x in r]
    v[e] = 2 * p - 1
    return v


def random_dense_vector(rng, n):
    k = rng.randint(1, n)
    return dense([rng.randrange(k) for _ in range(n)])


class _py_mode:
    """Make the module-level kernel names resolve to the pure-Python functions (so that
    _improve_one_ranking.py_func runs the Python source of its callees as well)."""
    NAMES = ["_compute_delta_costs", "_search_to_change_bucket", "_search_to_add_bucket", "_change_bucket",
             "_add_bucket"]

    def __enter__(self):
        import corankco.algorithms.bioconsert.bioconsert as mod
        self.mod = mod
        self.saved = {nm: getattr(mod, nm) for nm in self.NAMES}
        for nm in self.NAMES:
            setattr(mod, nm, self.saved[nm].py_func)

    def __exit__(self, *a):
        for nm in self.NAMES:
            setattr(self.mod, nm, self.saved[nm])


def check_kernel(case):
    import numpy as np
    import corankco.algorithms.bioconsert.bioconsert as mod
    rng = random.Random(case["seed"])
    fails = []
    seen_sig = set()
    evals = nk = 0

    def fail(clause, site, **detail):
        if (clause, site) in seen_sig:
            return
        seen_sig.add((clause, site))
        fails.append({"clause": clause, "site": site, "detail": detail})

    def rcall(clause, site, f, *args):
        """Call a repository kernel; an exception it raises is a finding, not a harness error."""
        try:
            return True, f(*args)
        except Exception as ex:
            fail(clause, site + " raises", exception="%s: %s" % (type(ex).__name__, ex),
                 args=[a.tolist() if hasattr(a, "tolist") else a for a in args[:1]] +
                      [int(a) for a in args if isinstance(a, (int, np.integer))])
            return False, None

    schemes = SCHEMES + D.grid_schemes(rng, 4)
    for _t in range(case["tables"]):
        d = D.random_dataset(rng, case["nmax"], 5, n_min=1)
        universe = sorted(D.universe_of(d))
        remap = {x: i for i, x in enumerate(universe)}
        d = [[[remap[x] for x in b] for b in r] for r in d]
        n = len(universe)
        scheme = schemes[rng.randrange(len(schemes))]
        tab = O.cost_table(list(range(n)), d, scheme[0], scheme[1])
        m1d = np.zeros(n * n * 3, dtype=np.float64)
        for (i, j), t in tab.items():
            for k in range(3):
                m1d[(i * n + j) * 3 + k] = t[k]
        ctx = {"rankings": d, "scheme": scheme}
        for _v in range(case["vectors"]):
            vec = random_dense_vector(rng, n)
            maxid = max(vec)
            if n >= 2:
                nk += 1
            results = {}
            for mode in ("compiled", "py_func"):
                pick = (lambda f: f) if mode == "compiled" else (lambda f: f.py_func)
                cdc, scb, sab = pick(mod._compute_delta_costs), pick(mod._search_to_change_bucket), \
                    pick(mod._search_to_add_bucket)
                chb, adb = pick(mod._change_bucket), pick(mod._add_bucket)
                s0 = vscore(vec, tab, n)
                for e in range(n):
                    evals += 1
                    r = np.array(vec, dtype=np.int32)
                    change = np.zeros(n + 2, dtype=np.float64)
                    add = np.zeros(n + 3, dtype=np.float64)
                    be = vec[e]
                    ok, alone = rcall("C08.delta.arrays", "_compute_delta_costs (%s)" % mode, cdc, r, np.int32(e),
                                      m1d, np.int32(be), change, add, np.int32(n))
                    if not ok:
                        continue
                    alone = int(alone)
                    here = dict(ctx, vector=vec, element=e)
                    if list(r) != vec or alone != int(vec.count(be) == 1):
                        fail("C08.delta.arrays", "_compute_delta_costs (%s)" % mode, alone=alone,
                             expected_alone=int(vec.count(be) == 1), ranking_after=[int(x) for x in r], **here)
                        continue
                    # oracle deltas for every target
                    d_join = {b: vscore(join_target(vec, e, b), tab, n) - s0 for b in range(maxid + 1) if b != be}
                    d_new = {p: vscore(new_target(vec, e, p), tab, n) - s0 for p in range(maxid + 2)}
                    # lemma: prefix sums away from the element's bucket
                    lem = None
                    acc = 0.0
                    for b in range(be + 1, maxid + 1):
                        acc += change[b]
                        if abs(acc - d_join[b]) > EPS:
                            lem = ("join", b, acc, d_join[b])
                    acc = 0.0
                    for b in range(be - 1, -1, -1):
                        acc += change[b]
                        if abs(acc - d_join[b]) > EPS:
                            lem = ("join", b, acc, d_join[b])
                    acc = 0.0
                    for p in range(be + 1, maxid + 2):
                        acc += add[p]
                        if abs(acc - d_new[p]) > EPS:
                            lem = ("new", p, acc, d_new[p])
                    acc = 0.0
                    for p in range(be, -1, -1):
                        acc += add[p]
                        if abs(acc - d_new[p]) > EPS:
                            lem = ("new", p, acc, d_new[p])
                    if lem is not None:
                        fail("C08.delta.lemma", "_compute_delta_costs (%s)" % mode, move=lem[0], target=lem[1],
                             prefix_sum=lem[2], oracle_delta=lem[3], change=list(change), add=list(add), **here)
                    # search + move: join
                    ch2 = change.copy()
                    ok, to = rcall("C08.search.change", "_search_to_change_bucket (%s)" % mode, scb, np.int32(be),
                                   ch2, np.int32(maxid))
                    to = int(to) if ok else None
                    if not ok:
                        pass
                    elif to >= 0:
                        if to == be or to > maxid or d_join[to] >= -THRESH + EPS or abs(ch2[to] - d_join[to]) > EPS:
                            fail("C08.search.change", "_search_to_change_bucket (%s)" % mode, result=to,
                                 array_value=float(ch2[to]) if to < len(ch2) else None,
                                 oracle_delta=d_join.get(to), **here)
                        else:
                            r2 = np.array(vec, dtype=np.int32)
                            ok, _ = rcall("C08.move.change", "_change_bucket (%s)" % mode, chb, r2, np.int32(n),
                                          np.int32(e), np.int32(be), np.int32(to), np.int32(alone))
                            if ok and [int(x) for x in r2] != dense(join_target(vec, e, to)):
                                fail("C08.move.change", "_change_bucket (%s)" % mode, to=to, alone=alone,
                                     got=[int(x) for x in r2], expected=dense(join_target(vec, e, to)), **here)
                    elif d_join and min(d_join.values()) < -THRESH - EPS:
                        fail("C08.search.change", "_search_to_change_bucket (%s)" % mode, result=-1,
                             oracle_deltas={str(k): v for k, v in d_join.items()}, **here)
                    # search + move: new bucket
                    ad2 = add.copy()
                    ok, to = rcall("C08.search.add", "_search_to_add_bucket (%s)" % mode, sab, np.int32(be), ad2,
                                   np.int32(maxid))
                    to = int(to) if ok else None
                    if not ok:
                        pass
                    elif to >= 0:
                        if to > maxid + 1 or d_new[to] >= -THRESH + EPS or abs(ad2[to] - d_new[to]) > EPS:
                            fail("C08.search.add", "_search_to_add_bucket (%s)" % mode, result=to,
                                 array_value=float(ad2[to]) if to < len(ad2) else None,
                                 oracle_delta=d_new.get(to), **here)
                        else:
                            r2 = np.array(vec, dtype=np.int32)
                            ok, _ = rcall("C08.move.add", "_add_bucket (%s)" % mode, adb, r2, np.int32(n),
                                          np.int32(e), np.int32(be), np.int32(to), np.int32(alone))
                            if ok and [int(x) for x in r2] != dense(new_target(vec, e, to)):
                                fail("C08.move.add", "_add_bucket (%s)" % mode, to=to, alone=alone,
                                     got=[int(x) for x in r2], expected=dense(new_target(vec, e, to)), **here)
                    elif min(d_new.values()) < -THRESH - EPS:
                        fail("C08.search.add", "_search_to_add_bucket (%s)" % mode, result=-1,
                             oracle_deltas={str(k): v for k, v in d_new.items()}, **here)
                # the sweep (not attempted once a kernel is known to be wrong: it might never return)
                if fails:
                    continue
                evals += 1
                r = np.array(vec, dtype=np.int32)
                if mode == "compiled":
                    ok, delta = rcall("C08.sweep", "_improve_one_ranking (compiled)", mod._improve_one_ranking, r, m1d,
                                      np.int32(n))
                else:
                    with _py_mode():
                        ok, delta = rcall("C08.sweep", "_improve_one_ranking (py_func)",
                                          mod._improve_one_ranking.py_func, r, m1d, n)
                if not ok:
                    continue
                delta = float(delta)
                after = [int(x) for x in r]
                results[mode] = (after, delta)
                site = "_improve_one_ranking (%s)" % mode
                here = dict(ctx, vector=vec, after=after, returned_delta=delta)
                if after != dense(after) or min(after) != 0:
                    fail("C08.sweep", site, problem="bucket ids not dense", **here)
                    continue
                s1 = vscore(after, tab, n)
                if abs((s1 - s0) - delta) > EPS or delta > 0:
                    fail("C08.sweep", site, problem="returned delta != score(after) - score(before), or > 0",
                         score_before=s0, score_after=s1, **here)
                mx = max(after)
                worst = None
                for e in range(n):
                    for b in range(mx + 1):
                        if b != after[e]:
                            dl = vscore(join_target(after, e, b), tab, n) - s1
                            if dl < -THRESH - EPS:
                                worst = ("join", e, b, dl)
                    for p in range(mx + 2):
                        dl = vscore(new_target(after, e, p), tab, n) - s1
                        if dl < -THRESH - EPS:
                            worst = ("new", e, p, dl)
                if worst is not None:
                    fail("C08.sweep", site, problem="not a local optimum", move=worst[0], element=worst[1],
                         target=worst[2], oracle_delta=worst[3], **here)
            if len(results) == 2 and (results["compiled"][0] != results["py_func"][0] or
                                      abs(results["compiled"][1] - results["py_func"][1]) > EPS):
                fail("C08.sweep", "_improve_one_ranking compiled vs py_func", compiled=results["compiled"],
                     py_func=results["py_func"], vector=vec, **ctx)
    return {"fails": fails, "key": None, "nkeys": nk, "evals": evals,
            "sample": {"kind": "kernel", "seed": case["seed"]}}


# ---------------------------------------------------------------------------------------------------------------
# A kernel that no longer terminates spins inside numba machine code, where the runner's SIGALRM handler cannot run.
# Every case is therefore executed in a forked child that the worker can kill.
_GUARD = {"timeouts": 0}
FIRST_LIMIT, NEXT_LIMIT, MAX_TIMEOUTS = 90, 15, 2


def guarded(fn, case, prop, site):
    """Run fn(case) in a forked child; no answer within the limit -> a `<prop>.terminates` fail.  After MAX_TIMEOUTS
    timeouts in one worker process the remaining cases of that worker are skipped (a violation is already reported)."""
    import os
    import pickle
    import select
    import signal
    import time
    import traceback
    if _GUARD["timeouts"] >= MAX_TIMEOUTS:
        return {"fails": [], "key": None, "evals": 0, "sample": {"skipped": "after %d timeouts" % MAX_TIMEOUTS}}
    limit = FIRST_LIMIT if _GUARD["timeouts"] == 0 else NEXT_LIMIT
    rfd, wfd = os.pipe()
    pid = os.fork()
    if pid == 0:
        code = 0
        try:
            os.close(rfd)
            try:
                out = ("ok", fn(case))
            except BaseException:
                out = ("exc", traceback.format_exc())
            data = pickle.dumps(out)
            with os.fdopen(wfd, "wb") as f:
                f.write(data)
        except BaseException:
            code = 1
        finally:
            os._exit(code)
    os.close(wfd)
    buf = []
    timed_out = False
    deadline = time.time() + limit
    try:
        while True:
            left = deadline - time.time()
            if left <= 0:
                timed_out = True
                break
            ready, _, _ = select.select([rfd], [], [], left)
            if not ready:
                timed_out = True
                break
            chunk = os.read(rfd, 1 << 16)
            if not chunk:
                break
            buf.append(chunk)
    finally:
        os.close(rfd)
        try:
            os.kill(pid, signal.SIGKILL)
        except ProcessLookupError:
            pass
        status = 0
        try:
            status = os.waitpid(pid, 0)[1]
        except ChildProcessError:
            pass
    if timed_out:
        _GUARD["timeouts"] += 1
        return {"fails": [{"clause": prop + ".terminates", "site": site,
                           "detail": "no answer within %d s (the case normally takes well under 1 s)" % limit}],
                "key": None, "evals": 1}
    if not buf and os.WIFSIGNALED(status):
        return {"fails": [{"clause": prop + ".terminates", "site": site.replace("does not return", "dies"),
                           "detail": "the process running the case was killed by signal %d" % os.WTERMSIG(status)}],
                "key": None, "evals": 1}
    if not buf:
        raise RuntimeError("guarded child died without an answer")
    kind, out = pickle.loads(b"".join(buf))
    if kind == "exc":
        raise RuntimeError("harness exception in guarded child:\n" + out)
    return out


def setup():
    """Once per worker: import (and let numba compile) everything, so that the forked children start warm."""
    from bounded import adapt  # noqa: F401
    import numpy  # noqa: F401
    import corankco.algorithms.bioconsert.bioconsert  # noqa: F401
    for config in CONFIGS:
        make_alg(config)
    documented_refusal(ValueError())


def _check_case_main(case):
    if case["kind"] == "api":
        return guarded(check_api, case, ID, "BioConsert.compute_consensus_rankings does not return")
    return guarded(check_kernel, case, ID, "_improve_one_ranking does not return (called directly)")


def gen_cases(tier, seed):
    from bounded import history
    yield from _gen_cases_main(tier, seed)
    yield from history.history_cases(ID, tier, seed)


def check_case(case):
    if case.get("kind") == "history":
        from bounded import history
        return guarded(history.check_history, case, ID, 'history scenario does not return')
    return _check_case_main(case)

"""C06 bounded tier: the ParCons ordered partition admits an optimal consensus; the optimality mark is truthful.

Clauses
  C06.partition  OrderedPartition.parcons_partition(D, S) is a partition of the universe (non-empty disjoint groups whose
                 union is the universe, element types as the Dataset is documented to produce them)
  C06.Th         some optimal consensus ranks every element of an earlier group strictly before every element of a later
                 group.  n <= 5: looked up in the oracle's complete set of optima; n <= 7: the best score among the
                 rankings that respect the partition (sum of per-group optima by subset DP + the "before" costs of all
                 cross-group pairs) equals the global optimum (subset DP)
  C06.respects   the consensus of every ParCons configuration respects that partition and features[WEAK_PARTITIONING]
                 is that partition as a list of sets, in order
  C06.flag       ParCons marks its consensus necessarily optimal exactly when no component was delegated to the auxiliary
                 algorithm (delegations counted by wrapping the auxiliary instance's compute_consensus_rankings)
  C06.optflag    for EVERY algorithm configuration: necessarily_optimal => every returned ranking is a well-formed ranking
                 of the universe whose oracle score equals the oracle optimum
  C06.scc.order  monitor of the external contract of igraph.Graph.components() on every call made while the partition is
                 computed: a partition of the vertices into strongly connected sets, listed so that no arc goes from a
                 later to an earlier one (igraph's method is wrapped, the repository is not patched)
  C06.crash      a ParCons configuration raised something that is not a documented refusal of its auxiliary algorithm
Sites separate root causes by properties of the INPUT only: "sparse dataset" = some input ranking misses >= 2 elements
of the universe (necessary for a ranking to miss a whole non-trivial component); "tiny-scaled scheme" = every penalty
< 2**-10 (generated only together with non-sparse datasets).
"""
import random

from bounded import domains as D
from bounded import oracle as O

ID = "C06"
RULE = ("one case = one (dataset, scheme) pair.  'th' cases: partition + theorem only; 'alg' cases additionally run the 4 "
        "ParCons configurations (default, bound 0, bound 2 / 3 + KwikSort, bound 0 + BioCo) with cplex absent and with the "
        "cplex stand-in, 9 heuristic / free-solver configurations and 3 CPLEX-API configurations through the stand-in. "
        "Datasets: every dataset n<=3, m<=2; 24 hand-shaped datasets (Condorcet cycle over integer-like string names "
        "next to a block of other string names) x 3 schemes; seeded generic datasets; seeded 'conflict' datasets (mostly strict rankings, "
        "3-6 rankings, presence probability 0.3-1.0, so that components are cyclic and rankings miss whole components); "
        "block datasets (rankings confined to one of two element blocks).  n<=6 quick / n<=7 thorough, all name kinds, "
        "presets + boundary + generic + scaled + random grid schemes.  Non-trivial = universe of >= 2 elements; "
        "distinct = distinct (dataset, scheme).")
EXHAUSTIVE = {"quick": False, "thorough": False}
SCOPE = {"quick": "th: 701 datasets (n<=3,m<=2) x 8 schemes + 6000 sampled (n<=6) with 150 grid schemes; "
                  "alg: 72 mixed-name cases + 3000 sampled (dataset n<=6, scheme) pairs x 20-21 (configuration, cplex mode) runs, ExactPulp on 1/3",
         "thorough": "th: 701 datasets x 25 schemes + 60000 sampled (n<=7) with 400 grid schemes; "
                     "alg: 72 mixed-name cases + 30000 sampled (dataset n<=7, scheme) pairs x 20-21 runs, ExactPulp on 1/3"}
CHUNK = 4
# every 8th case is run a second time with its datasets reached through a history (vlib.t2run._with_histories)
VIA_EVERY = {"quick": 8, "thorough": 8}
TIMEOUT = 300
ASSUMPTIONS = ["cplex stand-in: /verif/bounded/standin_cplex.py replaces the proprietary cplex module (complete 0/1 "
               "enumeration / CBC on the rows the repository builds); results say nothing about CPLEX itself",
               "delegation to the auxiliary algorithm is observed by wrapping compute_consensus_rankings on the "
               "auxiliary instance stored in ParCons._auxiliary_alg"]

PARCONS = ["ParCons", "ParCons(bound=0)", "ParCons(bound=2,aux=KwikSort)", "ParCons(bound=3,aux=KwikSort)",
           "ParCons(bound=0,aux=BioCo)"]
HEURISTICS = ["BioConsert", "BioConsert[Copeland,KwikSort]", "BioConsert[PickAPerm]", "BioCo", "KwikSortRandom", "Borda",
              "BordaBucketId", "Copeland", "PickAPerm"]
STANDIN_EXACT = ["Cplex(optimize=True)", "Cplex(optimize=False)", "CplexOptim1"]   # the selector is C05's subject
TINY = 2.0 ** -10
SCC_LOG = []         # (vertex count, arcs, components) of every igraph components() call in this worker


# ---------------------------------------------------------------------------------------------------------------------
def _conflict_dataset(rng, n, m, p_present, p_tie):
    elems = list(range(n))
    while True:
        d = []
        for _ in range(m):
            chosen = [x for x in elems if rng.random() < p_present]
            rng.shuffle(chosen)
            r = []
            for x in chosen:
                if r and rng.random() < p_tie:
                    r[-1].append(x)
                else:
                    r.append([x])
            d.append(r)
        if any(d):
            return d


def _block_dataset(rng, n):
    """Two blocks of elements; most rankings see one block only, a few order the blocks."""
    elems = list(range(n))
    rng.shuffle(elems)
    cut = rng.randint(1, n - 1)
    blocks = [elems[:cut], elems[cut:]]
    d = []
    for _ in range(rng.randint(3, 6)):
        b = rng.choice(blocks + [elems])
        chosen = [x for x in b if rng.random() < 0.8]
        if b is elems:
            chosen = [x for x in blocks[0] if rng.random() < 0.6] + [x for x in blocks[1] if rng.random() < 0.6]
        else:
            rng.shuffle(chosen)
        r = []
        for x in chosen:
            if r and rng.random() < 0.15:
                r[-1].append(x)
            else:
                r.append([x])
        d.append(r)
    if not any(d):
        d.append([[elems[0]]])
    return d


def _is_sparse(rankings):
    u = D.universe_of(rankings)
    return any(len(u) - sum(len(b) for b in r) >= 2 for r in rankings)


def _is_mixed(rankings):
    """some names are integer-like strings / ints and some are not: the Dataset keeps every name a string"""
    u = [str(x) for x in D.universe_of(rankings)]
    return any(x.isdigit() for x in u) and not all(x.isdigit() for x in u)


def _is_tiny(scheme):
    return max(max(scheme[0]), max(scheme[1])) < TINY


def _sample(rng, nmax, tiny):
    while True:
        mode = rng.random()
        if tiny:
            n = rng.randint(3, min(nmax, 5))
            d = _conflict_dataset(rng, n, rng.randint(1, 4), rng.choice([0.9, 1.0, 1.0]), rng.choice([0.3, 0.5]))
            if _is_sparse(d):
                continue
            return d
        if mode < 0.2:
            return D.random_dataset(rng, nmax, 5)
        if mode < 0.8:
            n = rng.randint(3, nmax)
            return _conflict_dataset(rng, n, rng.randint(2, 6), rng.choice([0.3, 0.4, 0.5, 0.7, 1.0]),
                                     rng.choice([0.0, 0.1, 0.3]))
        return _block_dataset(rng, rng.randint(3, nmax))


def _mixed_block_cases():
    """A Condorcet cycle over integer-like string names ranked before / after a block of other string names."""
    for k in (3, 4):
        cyc = [str(2 * i) for i in range(k)]
        for others in (["x1"], ["x1", "x3"]):
            for first in (True, False):
                d = []
                for sh in range(3):
                    c = [[x] for x in cyc[sh:] + cyc[:sh]]
                    o = [list(others)]
                    d.append(c + o if first else o + c)
                for s in (D.unifying(), D.pseudo(), D.GENERIC_B):
                    yield {"rankings": d, "scheme": s, "namekind": "mixed", "algs": True, "pulp": True}


def _two_cycle_cases():
    """Two Condorcet cycles of different sizes, one ranked wholly before the other by every ranking: two non-trivial
    components, so that an exact bound between their sizes delegates exactly one of them (first or last)."""
    for a, b in ((4, 3), (3, 4), (3, 3), (4, 4)):
        first = list(range(a))
        second = list(range(a, a + b))
        d = []
        for sh in range(3):        # three rotations: each block is one Condorcet cycle (majorities 2 to 1 around it)
            d.append([[x] for x in first[sh:] + first[:sh]] + [[x] for x in second[sh:] + second[:sh]])
        for s in (D.unifying(), D.pseudo(), D.induced()):
            yield {"rankings": d, "scheme": s, "namekind": "canon", "algs": True, "pulp": False}


def gen_cases(tier, seed):
    quick = tier == "quick"
    for c in _mixed_block_cases():
        yield c
    for c in _two_cycle_cases():
        yield c
    nmax = 6 if quick else 7
    small = (D.PRESETS[:4] + [D.GENERIC_B, D.GENERIC_C, D.BOUNDARY[3], D.BOUNDARY[4]]) if quick else D.SCHEMES_ALL
    for s in small:
        for d in D.all_datasets(3, 2):
            yield {"rankings": d, "scheme": s, "namekind": "canon", "algs": False}
    rng = random.Random(seed * 15485863 + 11)
    kinds = list(D.NAME_KINDS)
    grid = D.grid_schemes(rng, 150 if quick else 400)
    tiny = [D.scale(D.unifying(), 1. / 8192), D.scale(D.pseudo(), 1. / 8192), D.scale(D.induced(), 1. / 8192),
            D.scale(D.GENERIC_B, 1. / 16384)]
    pool = D.PRESETS + D.BOUNDARY + [D.GENERIC_B, D.GENERIC_C, D.scale(D.unifying(), 2.), D.scale(D.pseudo(), .25)]
    n_th, n_alg = (6000, 3000) if quick else (60000, 30000)
    for i in range(n_th + n_alg):
        with_algs = i >= n_th
        r = rng.random()
        if r < 0.08:
            s = tiny[i % len(tiny)]
        elif r < 0.5 or (with_algs and r < 0.75):
            s = pool[i % len(pool)]
            if with_algs and r < 0.3:
                s = D.unifying()            # the scheme under which the library's own documentation promises optimality
        else:
            s = grid[i % len(grid)]
        d = _sample(rng, nmax, _is_tiny(s))
        u = D.universe_of(d)
        kind = kinds[i % len(kinds)]
        names = D.NAME_KINDS[kind](max(u) + 1)
        yield {"rankings": D.rename(d, names), "scheme": s, "namekind": kind, "algs": with_algs,
               "pulp": with_algs and i % 3 == 0}


# ---------------------------------------------------------------------------------------------------------------------
def setup():
    """Wrap the THIRD-PARTY igraph.Graph.components so that its answers can be checked against its documented contract."""
    import igraph
    if getattr(igraph.Graph.components, "_c06_monitor", False):
        return
    orig = igraph.Graph.components

    def components(self, *a, **k):
        res = orig(self, *a, **k)
        try:
            SCC_LOG.append((self.vcount(), [tuple(e) for e in self.get_edgelist()], [list(c) for c in res]))
        except Exception:       # the monitor must never disturb the code under test
            pass
        return res
    components._c06_monitor = True
    igraph.Graph.components = components


def _scc_defect(nv, arcs, comps):
    idx = {}
    for ci, c in enumerate(comps):
        for v in c:
            if v in idx:
                return "vertex %d in two components" % v
            idx[v] = ci
    if sorted(idx) != list(range(nv)):
        return "components %s do not cover the %d vertices" % (comps, nv)
    succ = {v: set() for v in range(nv)}
    for u, v in arcs:
        if idx[u] > idx[v]:
            return "arc %d->%d goes from component %d back to component %d" % (u, v, idx[u], idx[v])
        if idx[u] == idx[v]:
            succ[u].add(v)
    for c in comps:             # strongly connected: everything reachable from c[0] and c[0] reachable from everything
        for start, nxt in ((c[0], succ), (c[0], None)):
            if nxt is None:
                nxt = {v: set(u for u in c if v in succ[u]) for v in c}
            seen, todo = {start}, [start]
            while todo:
                for w in nxt[todo.pop()]:
                    if w not in seen:
                        seen.add(w)
                        todo.append(w)
            if seen != set(c):
                return "component %s is not strongly connected" % c
    return None


def _partition_defect(groups, universe):
    seen = set()
    for g in groups:
        if len(g) == 0:
            return "empty group"
        for v in g:
            k = (type(v).__name__, v)
            if k in seen:
                return "element %r in two groups" % (v,)
            seen.add(k)
    want = set((type(v).__name__, v) for v in universe)
    if seen != want:
        return "union %s != universe %s" % (sorted(map(str, seen)), sorted(map(str, want)))
    return None


def _best_respecting(groups, tab):
    """Minimum score over the rankings that put every earlier group strictly before every later group."""
    total = 0
    for gi, g in enumerate(groups):
        sub = {(x, y): tab[(x, y)] for x in g for y in g if x != y}
        total += O.optimum_dp(list(g), sub)
        for h in groups[gi + 1:]:
            for x in g:
                for y in h:
                    total += tab[(x, y)][0]
    return total


def _close(a, b, scale):
    """Oracle scores are exact sums of dyadic penalties; the tolerance is relative to the smallest positive penalty."""
    return abs(a - b) <= 1e-9 * scale


def _refusal(e):
    return type(e).__name__ in ("ScoringSchemeNotHandledException",
                                "InompleteRankingsIncompatibleWithScoringSchemeException")


def check_case(case):
    from bounded import adapt as A
    from bounded import algs
    from corankco.partitioning.ordered_partition import OrderedPartition
    from corankco.consensus import ConsensusFeature
    setup()
    rankings, scheme = case["rankings"], case["scheme"]
    exp_r, _conv = A.expected_names(rankings)
    universe = D.universe_of(exp_r)
    n = len(universe)
    key = "%s|%s" % (rankings, scheme) if n >= 2 else None
    fails, evals = [], 0
    category = "tiny-scaled scheme" if _is_tiny(scheme) else "sparse dataset" if _is_sparse(exp_r) else "generic"
    minpos = min([v for v in scheme[0] + scheme[1] if v > 0] or [1.0])
    illsfx = " (mixed integer-like / other names)" if _is_mixed(rankings) else ""
    tab = O.cost_table(universe, exp_r, scheme[0], scheme[1])
    if n <= 5:
        opt, optima = O.optimum_enum(universe, tab)
    else:
        opt, optima = O.optimum_dp(universe, tab), None

    # ---- the partition -----------------------------------------------------------------------------------------------
    evals += 1
    del SCC_LOG[:]
    try:
        pc = [[A.val(e) for e in g] for g in
              OrderedPartition.parcons_partition(A.mk_dataset(rankings), A.mk_scheme(scheme)).partition]
    except Exception as e:
        fails.append({"clause": "C06.crash", "site": "OrderedPartition.parcons_partition raised",
                      "detail": {"exception": type(e).__name__, "message": str(e)[:300]}})
        return {"fails": fails, "key": key, "evals": evals, "sample": case}
    def scc_monitor():
        for nv, arcs, comps in SCC_LOG:
            scc_bad = _scc_defect(nv, arcs, comps)
            if scc_bad:
                fails.append({"clause": "C06.scc.order", "site": "igraph.Graph.components (external contract)",
                              "detail": {"problem": scc_bad, "arcs": arcs, "components": comps}})
                break
        del SCC_LOG[:]
    scc_monitor()
    bad = _partition_defect(pc, universe)
    if bad:
        fails.append({"clause": "C06.partition", "site": "OrderedPartition.parcons_partition",
                      "detail": {"partition": pc, "problem": bad}})
        pc_ok = False
    else:
        pc_ok = True
        if optima is not None:
            th = any(O.respects(pc, o) for o in optima)
            best_resp = None
        else:
            best_resp = _best_respecting(pc, tab)
            th = _close(best_resp, opt, minpos)
        if not th:
            fails.append({"clause": "C06.Th", "site": "OrderedPartition.parcons_partition",
                          "detail": {"partition": pc, "optimum": opt, "best_respecting_score": best_resp,
                                     "optima": optima[:5] if optima else None}})
    if not case.get("algs"):
        return {"fails": fails, "key": key, "evals": evals, "sample": case}

    # ---- algorithms --------------------------------------------------------------------------------------------------
    def run(name, present):
        nonlocal evals
        evals += 1
        calls = [0]
        with algs.cplex_mode(present):
            alg = algs.make(name)
            if name in PARCONS:
                aux = alg._auxiliary_alg
                orig = aux.compute_consensus_rankings

                def counted(*a, **k):
                    calls[0] += 1
                    return orig(*a, **k)
                aux.compute_consensus_rankings = counted
            with A.quiet():
                if name in PARCONS and len(rankings) % 2:
                    # the object has been used before, on another dataset (every other case): what it reports for THIS
                    # dataset must not depend on that (partition, mark and consensus are judged on the second call)
                    try:
                        alg.compute_consensus_rankings(A.mk_dataset([[["w1"], ["w2"], ["w3"]], [["w2"], ["w3"], ["w1"]],
                                                                      [["w3"], ["w1"], ["w2"]]]), A.mk_scheme(scheme), True)
                    except Exception as e:
                        if not _refusal(e):
                            raise
                    calls[0] = 0
                cons = alg.compute_consensus_rankings(A.mk_dataset(rankings), A.mk_scheme(scheme), True)
        return cons, calls[0]

    def optflag(name, mode, cons):
        """necessarily_optimal => global minimiser"""
        if not cons.necessarily_optimal:
            return
        if name in PARCONS:
            site = {"sparse dataset": "ParCons sub-problem projection (sparse dataset)",
                    "tiny-scaled scheme": "ParCons no-tie pruning threshold (tiny-scaled scheme)",
                    "generic": "%s, %s" % (name, mode)}[category]
        else:
            site = "%s, %s%s" % (name, mode, "" if category == "generic" else " (%s)" % category)
        wf = algs.well_formed(cons, set(universe), False)
        if wf is not None:
            fails.append({"clause": "C06.optflag",
                          "site": "%s, %s: ill-formed consensus marked optimal%s" % (name, mode, illsfx),
                          "detail": {"config": name, "cplex": mode, "problem": wf}})
            return
        for r in cons.consensus_rankings:
            raw = A.ranking_to_raw(r)
            got = O.score_from_table(raw, tab)
            if not _close(got, opt, minpos):
                fails.append({"clause": "C06.optflag", "site": site,
                              "detail": {"config": name, "cplex": mode, "consensus": raw, "score": got, "optimum": opt,
                                         "an_optimum": optima[0] if optima else None, "category": category}})
                return

    for present in (False, True):
        mode = "cplex stand-in" if present else "cplex absent"
        for name in PARCONS:
            try:
                cons, calls = run(name, present)
            except Exception as e:
                if _refusal(e):
                    continue            # refusal of the auxiliary algorithm (documented)
                if not present and isinstance(e, (NameError, ImportError)):
                    site = "ParCons, cplex absent"
                else:
                    site = "%s, %s: raised %s" % (name, mode, type(e).__name__)
                fails.append({"clause": "C06.crash", "site": site,
                              "detail": {"config": name, "exception": type(e).__name__, "message": str(e)[:300]}})
                continue
            wf = algs.well_formed(cons, set(universe), True)
            if wf is not None:
                fails.append({"clause": "C06.respects", "site": "ParCons consensus ill-formed" + illsfx,
                              "detail": {"config": name, "cplex": mode, "problem": wf}})
                continue
            raw = A.ranking_to_raw(cons.consensus_rankings[0])
            if pc_ok and not O.respects(pc, raw):
                fails.append({"clause": "C06.respects", "site": "ParCons consensus",
                              "detail": {"config": name, "cplex": mode, "consensus": raw, "partition": pc}})
            weak = cons.features.get(ConsensusFeature.WEAK_PARTITIONING)
            try:
                weak_raw = [set(A.val(e) for e in g) for g in weak]
                same = isinstance(weak, list) and all(isinstance(g, (set, frozenset)) for g in weak) and \
                    [set((type(v).__name__, v) for v in g) for g in weak_raw] == \
                    [set((type(v).__name__, v) for v in g) for g in pc]
            except TypeError:
                weak_raw, same = repr(weak), False
            if pc_ok and not same:
                fails.append({"clause": "C06.respects", "site": "ParCons WEAK_PARTITIONING",
                              "detail": {"config": name, "cplex": mode, "weak_partitioning": str(weak_raw),
                                         "partition": pc}})
            if bool(cons.necessarily_optimal) != (calls == 0):
                fails.append({"clause": "C06.flag", "site": name,
                              "detail": {"cplex": mode, "necessarily_optimal": cons.necessarily_optimal,
                                         "delegations_to_auxiliary": calls, "partition": pc}})
            optflag(name, mode, cons)
        others = (HEURISTICS + (["ExactPulp"] if case.get("pulp") else [])) if not present else STANDIN_EXACT
        for name in others:
            try:
                cons, _ = run(name, present)
            except Exception as e:
                if name in STANDIN_EXACT and not _refusal(e):
                    fails.append({"clause": "C06.crash", "site": "%s, %s: raised %s" % (name, mode, type(e).__name__),
                                  "detail": {"config": name, "exception": type(e).__name__, "message": str(e)[:300]}})
                continue        # heuristics: refusals / crashes are the subject of C03, C14; no consensus, no mark
            optflag(name, mode, cons)
    scc_monitor()
    return {"fails": fails, "key": key, "evals": evals, "sample": case}

"""C20 bounded tier: random generators deliver valid datasets of the requested shape.

Invariant Dense(v): entries >= -1, and the non-negative entries are exactly 0..max with every id used.

Clauses
  C20.move.{add_left,add_right,change_left,change_right,remove,put_first}
                 each private Markov move, called directly on every dense bucket-id vector of length <= L and every
                 admissible element (ranked; unranked for put_first): Dense is preserved, the ranked/unranked status
                 changes only as documented (remove: elem -> -1; put_first: elem alone in bucket 0; the four others:
                 nobody changes status), the relative order of all other elements is unchanged.
                 The same clause names are used by the monitor wrapped around the moves during the walks below
                 (Dense after every single step; all entries >= 0 in complete mode).
  C20.prop       Ranking.generate_rankings(n, m, steps, complete) over a grid x seeds: a list of at most m Rankings
                 (exactly m when complete, and whenever steps < n), only non-empty pairwise disjoint buckets of int
                 elements within 0..n-1, complete => every ranking contains all n elements, steps == 0 => the identity
                 ranking [{0},..,{n-1}], each ranking keeps >= n - steps elements.
  C20.dataset    Dataset.get_random_dataset_markov: complete => a Dataset with exactly m rankings, n elements, flagged
                 complete; incomplete => a well-formed Dataset or EmptyDatasetException, the latter exactly when the
                 walk removed every element from every ranking (seen by the monitor); no other exception.
  C20.uniform    Ranking.uniform_permutations / Dataset.get_uniform_permutation_dataset: exactly m rankings, each n
                 singleton buckets forming a permutation of 1..n; dataset flagged complete and without ties.
"""
import itertools
from functools import lru_cache

from bounded import oracle as O

ID = "C20"
STEPS = (0, 1, 2, 5, 20, 60)
CHUNK = 2
TIMEOUT = 600

RULE = ("moves: every dense vector of length <= L (= every ranking with ties over every subset of L positions, "
        "including the all-unranked vector) x every admissible element x 6 moves; distinct = (vector, element, move), "
        "all non-trivial.  walks: grid n in 1..6 (+ 8, 10), m in 1..4, steps in {0,1,2,5,20,60}, complete / incomplete, "
        "S seeds each through random.seed(k): generate_rankings and the Dataset wrapper with the six private moves "
        "replaced on the class by checking wrappers; distinct = (n, m, steps, mode, seed), non-trivial = steps > 0.  "
        "uniform: n in 1..7, m in 1..4, S seeds.")
SCOPE = {"quick": "moves on all 1,082+ dense vectors of length <= 5 (L=5); walks: 384 grid points x 80 seeds (30,720 walks, "
                  "each also through the Dataset wrapper), every Markov step monitored; uniform: 28 grid points x 80 seeds",
         "thorough": "moves L=7 (94,586 vectors of length 7); walks: 384 grid points x 600 seeds (230,400 walks); "
                     "uniform: 28 grid points x 600 seeds"}
EXHAUSTIVE = {"quick": False, "thorough": False}

MOVES = (("add_left", "_Ranking__add_left"), ("add_right", "_Ranking__add_right"),
         ("change_left", "_Ranking__change_left"), ("change_right", "_Ranking__change_right"),
         ("remove", "_Ranking__remove_element"), ("put_first", "_Ranking__put_element_first"))


def dense(vals):
    """Dense(v) on a list of Python ints."""
    nonneg = set()
    for x in vals:
        if x < -1:
            return False
        if x >= 0:
            nonneg.add(x)
    return nonneg == set(range(len(nonneg)))


@lru_cache(maxsize=None)
def dense_vectors(length):
    """All dense vectors of the given length: a ranking with ties over each subset of the positions."""
    out = []
    for r in O.rankings_over(length):
        v = [-1] * length
        for bi, b in enumerate(r):
            for e in b:
                v[e] = bi
        out.append(v)
    return out


def gen_cases(tier, seed):
    lmax = 5 if tier == "quick" else 7
    for length in range(1, lmax + 1):
        vs = dense_vectors(length)
        pack = 2000
        for start in range(0, len(vs), pack):
            yield {"kind": "moves", "len": length, "start": start, "count": min(pack, len(vs) - start)}
    nseeds = 80 if tier == "quick" else 600
    block = 20 if tier == "quick" else 100
    for n in (1, 2, 3, 4, 5, 6, 8, 10):
        for m in (1, 2, 3, 4):
            for steps in STEPS:
                for complete in (True, False):
                    for s0 in range(0, nseeds, block):
                        yield {"kind": "walk", "n": n, "m": m, "steps": steps, "complete": complete,
                               "seed0": seed * 1000003 + s0, "count": block}
    for n in range(1, 8):
        for m in (1, 2, 3, 4):
            yield {"kind": "uniform", "n": n, "m": m, "seed0": seed * 1000003, "count": nseeds}


# ---------------------------------------------------------------------------------------------------------------------
class _Fails:
    def __init__(self):
        self.items = []
        self._seen = set()

    def add(self, clause, site, detail):
        if (clause, site) not in self._seen:
            self._seen.add((clause, site))
            self.items.append({"clause": clause, "site": site, "detail": detail})


def _sign(a, b):
    return (a > b) - (a < b)


def _check_moves(case):
    import numpy as np
    from corankco.ranking import Ranking
    F = _Fails()
    length = case["len"]
    vs = dense_vectors(length)[case["start"]:case["start"] + case["count"]]
    fns = [(name, getattr(Ranking, attr)) for name, attr in MOVES]
    evals = 0
    for v in vs:
        for name, fn in fns:
            clause = "C20.move." + name
            for elem in range(length):
                if (v[elem] < 0) != (name == "put_first"):
                    continue
                arr = np.array(v, dtype=int)
                evals += 1
                try:
                    fn(arr, elem)
                    w = [int(x) for x in arr]
                except Exception as e:      # noqa: BLE001 -- repo exception: classified
                    F.add(clause, "raised", {"vector": v, "elem": elem, "exception": "%s: %s" % (type(e).__name__, e)})
                    continue
                det = {"vector": v, "elem": elem, "after": w}
                if len(w) != length or not dense(w):
                    F.add(clause, "Dense not preserved", det)
                    continue
                # membership
                others = [x for x in range(length) if x != elem]
                if any((v[x] < 0) != (w[x] < 0) for x in others):
                    F.add(clause, "another element changes ranked/unranked status", det)
                if name == "remove":
                    if w[elem] != -1:
                        F.add(clause, "element still ranked", det)
                elif name == "put_first":
                    if w[elem] != 0 or any(w[x] == 0 for x in others):
                        F.add(clause, "element not alone in the first bucket", det)
                elif w[elem] < 0:
                    F.add(clause, "element becomes unranked", det)
                # relative order of the others
                ranked = [x for x in others if v[x] >= 0 and w[x] >= 0]
                for x, y in itertools.combinations(ranked, 2):
                    if _sign(v[x], v[y]) != _sign(w[x], w[y]):
                        F.add(clause, "relative order of other elements changed", det)
                        break
    return {"fails": F.items, "key": None, "nkeys": evals, "evals": evals,
            "sample": {"vectors": "length %d, %d..%d" % (length, case["start"], case["start"] + case["count"] - 1),
                       "first": vs[0] if vs else None}}


# ---------------------------------------------------------------------------------------------------------------------
class _Monitor:
    """Replaces the six private moves on the class by wrappers that call the original and then check Dense."""

    def __init__(self, F, complete, ctx):
        self.F, self.complete, self.ctx = F, complete, ctx
        self.saved = {}
        self.final = {}         # data address of the row -> last vector seen
        self.steps = 0

    def _wrap(self, name, orig):
        mon = self

        def wrapper(ranking, elem):
            before = [int(x) for x in ranking]
            orig(ranking, elem)
            after = [int(x) for x in ranking]
            mon.steps += 1
            mon.final[ranking.__array_interface__["data"][0]] = after
            ok_before = dense(before) and not (mon.complete and min(before) < 0)
            if ok_before and (not dense(after) or (mon.complete and min(after) < 0)):   # blame the step that broke it
                mon.F.add("C20.move." + name, "Dense not preserved (monitor)",
                          dict(mon.ctx, before=before, elem=int(elem), after=after))
        return wrapper

    def __enter__(self):
        from corankco.ranking import Ranking
        for name, attr in MOVES:
            raw = Ranking.__dict__[attr]
            self.saved[attr] = raw
            setattr(Ranking, attr, staticmethod(self._wrap(name, raw.__func__)))
        return self

    def __exit__(self, *exc):
        from corankco.ranking import Ranking
        for attr, raw in self.saved.items():
            setattr(Ranking, attr, raw)
        return False

    def rows_emptied(self):
        return sum(1 for v in self.final.values() if all(x < 0 for x in v))


def _wellformed_ranking(r, n, lo=0):
    """None if r is a Ranking with non-empty disjoint buckets of int elements within lo..lo+n-1, else a message."""
    from corankco.ranking import Ranking
    from corankco.element import Element
    if not isinstance(r, Ranking):
        return "not a Ranking: %r" % (r,)
    seen = set()
    for b in r.buckets:
        if not isinstance(b, set) or len(b) == 0:
            return "empty bucket or not a set"
        for e in b:
            x = e.value if isinstance(e, Element) else e
            if isinstance(x, bool) or not isinstance(x, int):
                return "element %r is not an int" % (x,)
            if not lo <= x < lo + n:
                return "element %r outside %d..%d" % (x, lo, lo + n - 1)
            if x in seen:
                return "element %r appears twice" % (x,)
            seen.add(x)
    return None


def _raw(r):
    from bounded import adapt as A
    return A.ranking_to_raw(r)


def _check_walk(case):
    import random
    from corankco.ranking import Ranking
    from corankco.dataset import Dataset, EmptyDatasetException
    F = _Fails()
    n, m, steps, complete = case["n"], case["m"], case["steps"], case["complete"]
    evals = 0
    for k in range(case["seed0"], case["seed0"] + case["count"]):
        ctx = {"n": n, "m": m, "steps": steps, "complete": complete, "random.seed": k}
        # ---- generate_rankings -------------------------------------------------------------------------------------
        random.seed(k)
        evals += 1
        out = None
        with _Monitor(F, complete, ctx) as mon:
            try:
                out = Ranking.generate_rankings(n, m, steps, complete)
            except Exception as e:      # noqa: BLE001 -- repo exception: classified
                F.add("C20.prop", "generate_rankings raised", dict(ctx, exception="%s: %s" % (type(e).__name__, e)))
        if out is not None:
            if not isinstance(out, list):
                F.add("C20.prop", "generate_rankings result type", dict(ctx, got=repr(out)))
            else:
                raws = []
                bad = None
                for r in out:
                    bad = _wellformed_ranking(r, n)
                    if bad:
                        break
                    raws.append(_raw(r))
                if bad:
                    F.add("C20.prop", "ill-formed ranking", dict(ctx, problem=bad, got=str(out)))
                else:
                    sizes = [sum(len(b) for b in r) for r in raws]
                    if len(out) > m or ((complete or steps < n) and len(out) != m):
                        F.add("C20.prop", "number of rankings", dict(ctx, got=raws))
                    elif complete and any(s != n for s in sizes):
                        F.add("C20.prop", "complete option: missing elements", dict(ctx, got=raws))
                    elif any(s < n - steps for s in sizes):
                        F.add("C20.prop", "more elements removed than steps", dict(ctx, got=raws))
                    elif steps == 0 and any(r != [[i] for i in range(n)] for r in raws):
                        F.add("C20.prop", "zero steps: not the identity ranking", dict(ctx, got=raws))
        # ---- Dataset wrapper ---------------------------------------------------------------------------------------
        random.seed(k)
        evals += 1
        ds, exc = None, None
        with _Monitor(F, complete, ctx) as mon:
            try:
                ds = Dataset.get_random_dataset_markov(n, m, steps, complete)
            except EmptyDatasetException as e:
                exc = e
            except Exception as e:      # noqa: BLE001
                F.add("C20.dataset", "get_random_dataset_markov raised",
                      dict(ctx, exception="%s: %s" % (type(e).__name__, e)))
                continue
        all_emptied = (not complete) and mon.rows_emptied() == m
        if exc is not None:
            if complete:
                F.add("C20.dataset", "EmptyDatasetException in complete mode", ctx)
            elif not all_emptied:
                F.add("C20.dataset", "EmptyDatasetException although some ranking kept an element",
                      dict(ctx, final_vectors=list(mon.final.values())))
            continue
        if all_emptied:
            F.add("C20.dataset", "no EmptyDatasetException although every element was removed everywhere",
                  dict(ctx, got=str(ds)))
            continue
        if not isinstance(ds, Dataset):
            F.add("C20.dataset", "result type", dict(ctx, got=repr(ds)))
            continue
        bad = None
        for r in ds.rankings:
            bad = _wellformed_ranking(r, n)
            if bad:
                break
        if bad:
            F.add("C20.dataset", "ill-formed ranking", dict(ctx, problem=bad, got=str(ds)))
            continue
        if ds.nb_rankings > m:
            F.add("C20.dataset", "number of rankings", dict(ctx, got=str(ds)))
        if complete:
            raws = [_raw(r) for r in ds.rankings]
            if ds.nb_rankings != m or len(ds.rankings) != m:
                F.add("C20.dataset", "number of rankings", dict(ctx, got=raws))
            elif any(sum(len(b) for b in r) != n for r in raws) or ds.nb_elements != n:
                F.add("C20.dataset", "complete option: missing elements", dict(ctx, got=raws))
            elif ds.is_complete is not True:
                F.add("C20.dataset", "complete flag", dict(ctx, got=raws, is_complete=ds.is_complete))
    nk = case["count"] if steps > 0 else 0
    return {"fails": F.items, "key": None if steps > 0 else "walk|%d|%d|0|%s" % (n, m, complete), "nkeys": nk,
            "evals": evals, "sample": dict(case)}


def _check_uniform(case):
    import random
    from corankco.ranking import Ranking
    from corankco.dataset import Dataset
    F = _Fails()
    n, m = case["n"], case["m"]
    evals = 0
    want = list(range(1, n + 1))
    for k in range(case["seed0"], case["seed0"] + case["count"]):
        ctx = {"n": n, "m": m, "random.seed": k}
        for api in ("Ranking.uniform_permutations", "Dataset.get_uniform_permutation_dataset"):
            random.seed(k)
            evals += 1
            try:
                if api.startswith("Ranking"):
                    out = Ranking.uniform_permutations(n, m)
                    rankings = out
                else:
                    out = Dataset.get_uniform_permutation_dataset(n, m)
                    rankings = out.rankings
            except Exception as e:      # noqa: BLE001 -- repo exception: classified
                F.add("C20.uniform", api + " raised", dict(ctx, exception="%s: %s" % (type(e).__name__, e)))
                continue
            bad = None
            for r in rankings:
                bad = _wellformed_ranking(r, n, lo=1)
                if bad:
                    break
            if bad:
                F.add("C20.uniform", api + ": ill-formed ranking", dict(ctx, problem=bad, got=str(out)))
                continue
            raws = [_raw(r) for r in rankings]
            if len(raws) != m:
                F.add("C20.uniform", api + ": number of rankings", dict(ctx, got=raws))
            elif any(any(len(b) != 1 for b in r) or sorted(b[0] for b in r) != want for r in raws):
                F.add("C20.uniform", api + ": not a tie-free permutation of 1..n", dict(ctx, got=raws))
            elif not api.startswith("Ranking"):
                if out.is_complete is not True or out.without_ties is not True or out.nb_rankings != m \
                        or out.nb_elements != n:
                    F.add("C20.uniform", api + ": dataset flags",
                          dict(ctx, got=raws, is_complete=out.is_complete, without_ties=out.without_ties,
                               nb_rankings=out.nb_rankings, nb_elements=out.nb_elements))
    return {"fails": F.items, "key": None, "nkeys": case["count"], "evals": evals, "sample": dict(case)}


def check_case(case):
    if case["kind"] == "moves":
        return _check_moves(case)
    if case["kind"] == "walk":
        return _check_walk(case)
    return _check_uniform(case)

"""C18 bounded tier: round trip through text and files; parser totality.

Clauses
  C18.roundtrip.str   Ranking.from_string(text(r)) == r for r over <= 3 (thorough 4) names taken from one of the two
                      alphabets of the statement (non-negative ints incl. multi-digit / delimiter-free strings that are
                      not readable as integers), text(r) being str(r), its bracket form, its compact form, with
                      surrounding whitespace / newlines and with a "name:" prefix; also the two low-level parsers
                      parse_ranking_with_ties_of_int / _of_str on the same texts.
  C18.roundtrip.file  Dataset.write(fresh path) then Dataset.from_file(path): same multiset of rankings (own canonical
                      comparison = verdict; the repo's Dataset.__eq__ is evaluated too and a disagreement is reported
                      under its own site), datasets with empty rankings, int / string / integer-like-string names.
  C18.total           every string over the alphabet "[]{},a1 :" up to a length bound is parsed (list of sets of
                      Element / a Ranking) or refused with ValueError by each of the three entry points.
  C18.terminates      a CPU-time step budget (ITIMER_VIRTUAL: 1 s per input string in the totality sweep, normal cost
                      ~10 us) or the runner's per-case alarm expires inside a parser call; the input is reported.
"""
import random

from bounded import domains as D
from bounded import oracle as O

ID = "C18"
ALPHABET = "[]{},a1 :"
PACK = 20000
TIMEOUT = 60            # wall-clock fallback of the runner; the real step budgets are the CPU budgets below
STRING_BUDGET = 1.0     # user-CPU seconds for one input string through the three entry points (normal: ~10 us)
FILE_BUDGET = 0.5       # one file round trip (normal: < 1 ms of CPU)
TIMEOUT_IS_VIOLATION = True
CHUNK = 4

RULE = ("roundtrip.str: every ranking with ties (incl. the empty one) over every subset of a 3-name pool (4 in "
        "thorough), 5 int pools and 4 string pools, x 14 textual variants; distinct = distinct (ranking, variant), "
        "non-trivial = ranking non-empty.  roundtrip.file: all datasets of <= 2 rankings from R(3) (thorough: <= 3) "
        "under 6 namings + seeded random datasets (n<=5, m<=4); distinct = distinct written dataset, all non-trivial. "
        "total: every string of length <= L over the 9-character alphabet, 3 entry points; distinct = distinct "
        "string, non-trivial = the string contains at least one bracket/brace.")
SCOPE = {"quick": "str: 9 pools x R(3)=26 rankings x 14 variants; file: ~4.2k enumerated + 400 sampled datasets; "
                  "total: all 66,430 strings of length <= 5 over 9 characters x 3 parsers",
         "thorough": "str: 9 pools x R(4)=150 x 14 variants; file: all m<=3 over R(3) (18.3k) x namings + 3000 sampled; "
                     "total: all 5,380,840 strings of length <= 7 x 3 parsers"}
EXHAUSTIVE = {"quick": False, "thorough": False}

INT_POOLS = [[0, 1, 2, 3], [10, 123, 5, 77], [8, 0, 16, 24], [1000000, 42, 7, 99], [3, 2, 1, 0]]
STR_POOLS = [["a", "bob", "x1", "Z"], ["1a", "B_2", "zz", "q-r"], ["c", "b", "a", "d"], ["x10", "x9", "y", "x"],
             # names with punctuation other than the format's delimiters  [ ] { } , :  and blanks
             ["C++", "F#", "a@b", "p53(mut)"], ["IL-2/IL-4", "x.y", "50%", "a'b"], ["<tag>", "a=b", "q?", "~z!"]]


def _variants(s):
    """Textual forms of a ranking whose str() is s (the statement: both notations, surrounding whitespace, a name)."""
    br = s.replace("{", "[").replace("}", "]")
    compact = s.replace(" ", "")
    compact_br = br.replace(" ", "")
    return [("str", s), ("brackets", br), ("compact", compact), ("compact-brackets", compact_br),
            ("spaces", "  " + s + "   "), ("newline", s + "\n"), ("nl-both", "\n" + br + " \n"),
            ("tab", "\t" + s + "\t"), ("name", "r1: " + s), ("name-br", "r1: " + br),
            ("name-compact", "r1:" + compact_br), ("name-space", "  my ranking :  " + s + " \n"),
            ("name-only-colon", ":" + s), ("crlf", br + "\r\n")]


def gen_cases(tier, seed):
    nn = 3 if tier == "quick" else 4
    for kind, pools in (("int", INT_POOLS), ("str", STR_POOLS)):
        for pool in pools:
            yield {"kind": "str", "alpha": kind, "pool": pool[:nn]}
    # file round trip -----------------------------------------------------------------------------------------------
    mmax = 2 if tier == "quick" else 3
    kinds = list(D.NAME_KINDS)
    for d in D.all_datasets(3, mmax):
        for kind in kinds:
            yield {"kind": "file", "rankings": D.rename(d, D.NAME_KINDS[kind](3)), "namekind": kind}
    rng = random.Random(seed * 104729 + 18)
    for i in range(400 if tier == "quick" else 3000):
        d = D.random_dataset(rng, 5, 4)
        if rng.random() < 0.3:
            d.insert(rng.randrange(len(d) + 1), [])
        n = max(D.universe_of(d)) + 1
        kind = kinds[i % len(kinds)]
        names = D.NAME_KINDS[kind](n)
        if i % 7 == 3:
            names = [100 * x + 10 for x in range(n)]            # multi-digit ints
        if i % 7 == 5:
            names = ["n%d_%s" % (x, "ab"[x % 2]) for x in range(n)]
        if i % 7 == 1:          # integers beyond 2**53 (not representable as floats) and beyond 2**63
            names = [2 ** 53 + 1, 2 ** 53 + 3, 10 ** 18 + 1, 2 ** 63 - 1, 2 ** 64 + 5, 5][:n]
        if i % 7 == 6:          # strings that read as floats / other literals but not as integers
            names = ["1e3", "2e1", "inf", "1.0", "0x10", "nan"][:n]
        yield {"kind": "file", "rankings": D.rename(d, names), "namekind": kind}
    # totality ------------------------------------------------------------------------------------------------------
    lmax = 5 if tier == "quick" else 7
    for length in range(0, lmax + 1):
        total = len(ALPHABET) ** length
        for start in range(0, total, PACK):
            yield {"kind": "total", "len": length, "start": start, "count": min(PACK, total - start)}


def _nth_string(length, idx):
    out = []
    for _ in range(length):
        idx, r = divmod(idx, len(ALPHABET))
        out.append(ALPHABET[r])
    return "".join(out)


class _Budget(Exception):
    """Raised by the SIGVTALRM handler: the CPU-time step budget of one parser input is exhausted."""


def _on_budget(_sig, _frm):
    raise _Budget()


def setup():
    import signal
    signal.signal(signal.SIGVTALRM, _on_budget)


def _arm(seconds):
    """Step budget in user-CPU seconds (immune to descheduling on a loaded machine); 0 disarms."""
    import signal
    if signal.getsignal(signal.SIGVTALRM) is not _on_budget:
        signal.signal(signal.SIGVTALRM, _on_budget)
    signal.setitimer(signal.ITIMER_VIRTUAL, seconds)


def _is_timeout(exc):
    return isinstance(exc, _Budget) or type(exc).__name__ == "CaseTimeout"


def _check_str(case):
    from bounded import adapt as A
    from corankco.ranking import Ranking
    from corankco.element import Element
    from corankco import utils as U
    fails, evals, nk = [], 0, 0
    pool, alpha = case["pool"], case["alpha"]
    low = U.parse_ranking_with_ties_of_int if alpha == "int" else U.parse_ranking_with_ties_of_str

    def fail(site, r, variant, text, got):
        if not any(f["site"] == site for f in fails):
            fails.append({"clause": "C18.roundtrip.str", "site": site,
                          "detail": {"ranking": r, "variant": variant, "text": text, "got": got}})

    for r in O.rankings_over(pool):
        rr = A.mk_ranking(r)
        want = O.canon(r)
        s = str(rr)
        for vname, text in _variants(s):
            evals += 1
            if r:
                nk += 1
            _arm(STRING_BUDGET)
            try:
                with A.quiet():
                    back = Ranking.from_string(text)
            except Exception as e:      # noqa: BLE001 -- repo exception: classified
                if _is_timeout(e):
                    return {"fails": [{"clause": "C18.terminates", "site": "Ranking.from_string",
                                       "detail": {"text": text}}], "key": None, "evals": evals}
                fail("Ranking.from_string raised", r, vname, text, "%s: %s" % (type(e).__name__, e))
                continue
            if not isinstance(back, Ranking):
                fail("Ranking.from_string", r, vname, text, repr(back))
                continue
            got = A.raw_canon(back)         # raw values: 1 != '1', so the int-or-string decision is compared too
            if got != want:
                fail("Ranking.from_string", r, vname, text, A.ranking_to_raw(back))
            elif not (back == rr) or not (rr == back):      # noqa: SIM201 -- exercise __eq__ both ways
                fail("Ranking.__eq__ after from_string", r, vname, text, A.ranking_to_raw(back))
            # the low-level parser of the matching alphabet
            try:
                with A.quiet():
                    raw = low(text)
            except Exception as e:      # noqa: BLE001
                if _is_timeout(e):
                    return {"fails": [{"clause": "C18.terminates", "site": low.__name__,
                                       "detail": {"text": text}}], "key": None, "evals": evals}
                fail(low.__name__ + " raised", r, vname, text, "%s: %s" % (type(e).__name__, e))
                continue
            ok = isinstance(raw, list) and all(isinstance(b, set) and all(isinstance(e, Element) for e in b)
                                               for b in raw)
            if not ok or tuple(frozenset(e.value for e in b) for b in raw) != want:
                fail(low.__name__, r, vname, text, repr(raw))
    return {"fails": fails, "key": None, "nkeys": nk, "evals": 2 * evals,
            "sample": {"pool": pool, "rankings": "all over subsets of the pool", "variants": 14}}


def _multiset(canons):
    out = {}
    for c in canons:
        k = tuple(tuple(sorted(((type(x).__name__, x) for x in b))) for b in c)
        out[k] = out.get(k, 0) + 1
    return out


def _check_file(case):
    import os
    import shutil
    import tempfile
    from bounded import adapt as A
    from corankco.dataset import Dataset
    fails = []
    rankings = case["rankings"]
    ds = A.mk_dataset(rankings)
    # "reading it back yields an equal dataset": the reference is the content of the dataset object that is written
    exp_r = [A.ranking_to_raw(r) for r in ds.rankings]
    want = _multiset(A.raw_canon(r) for r in ds.rankings)
    tmp = tempfile.mkdtemp(prefix="verif-c18-")
    cwd0 = os.getcwd()
    # the "fresh file" is named in one of four ways: absolute path, bare name / ./name relative to the current directory,
    # name inside an existing sub-directory
    form = len(str(rankings)) % 4
    try:
        os.mkdir(os.path.join(tmp, "sub"))
        os.chdir(tmp)
        path = [os.path.join(tmp, "d.txt"), "d.txt", os.path.join(".", "d.txt"), os.path.join("sub", "d.txt")][form]
        try:
            _arm(FILE_BUDGET)       # armed only around the repo calls (imports may JIT-compile for seconds)
            with A.quiet():
                ds.write(path)
                back = Dataset.from_file(path)
            _arm(0)
        except Exception as e:      # noqa: BLE001 -- repo exception: classified
            _arm(0)
            if _is_timeout(e):
                return {"fails": [{"clause": "C18.terminates", "site": "Dataset.from_file",
                                   "detail": {"rankings": rankings}}], "key": None, "evals": 1}
            text = None
            if os.path.isfile(path):
                with open(path, encoding="utf-8") as f:
                    text = f.read()
            fails.append({"clause": "C18.roundtrip.file", "site": "write/from_file raised",
                          "detail": {"exception": "%s: %s" % (type(e).__name__, e), "file": text, "path_form": path}})
            return {"fails": fails, "key": str(rankings), "evals": 1, "sample": case}
        with open(path, encoding="utf-8") as f:
            text = f.read()
    finally:
        os.chdir(cwd0)
        shutil.rmtree(tmp, ignore_errors=True)
    got = _multiset(A.raw_canon(r) for r in back.rankings)
    if got != want:
        n_empty = sum(1 for r in exp_r if len(r) == 0)
        want_wo = _multiset(A.raw_canon(r) for r in ds.rankings if len(r) > 0)
        site = "empty ranking line dropped on read" if n_empty and got == want_wo else "Dataset.write/from_file"
        fails.append({"clause": "C18.roundtrip.file", "site": site,
                      "detail": {"written": exp_r, "file": text,
                                 "read_back": [A.ranking_to_raw(r) for r in back.rankings]}})
    else:
        eq1, eq2 = (back == ds), (ds == back)
        if eq1 is not True or eq2 is not True:
            fails.append({"clause": "C18.roundtrip.file", "site": "Dataset.__eq__ after round trip",
                          "detail": {"written": exp_r, "file": text, "back==orig": eq1, "orig==back": eq2,
                                     "str_orig": str(ds), "str_back": str(back)}})
    return {"fails": fails, "key": str(rankings), "evals": 1, "sample": case}


def _check_total(case):
    from bounded import adapt as A
    from corankco.ranking import Ranking
    from corankco.element import Element
    from corankco import utils as U
    fails = []
    entry = [("parse_ranking_with_ties_of_str", U.parse_ranking_with_ties_of_str, False),
             ("parse_ranking_with_ties_of_int", U.parse_ranking_with_ties_of_int, False),
             ("Ranking.from_string", Ranking.from_string, True)]
    length = case["len"]
    nk = 0
    seen_sites = set()
    with A.quiet():
        for idx in range(case["start"], case["start"] + case["count"]):
            s = _nth_string(length, idx)
            if any(c in s for c in "[]{}"):
                nk += 1
            _arm(STRING_BUDGET)
            for name, fn, is_ranking in entry:
                try:
                    res = fn(s)
                except ValueError:
                    continue
                except Exception as e:      # noqa: BLE001 -- repo exception: classified
                    if _is_timeout(e):
                        return {"fails": [{"clause": "C18.terminates", "site": name, "detail": {"text": s}}],
                                "key": None, "evals": 3 * (idx - case["start"] + 1)}
                    site = "%s raises %s" % (name, type(e).__name__)
                    if site not in seen_sites:
                        seen_sites.add(site)
                        fails.append({"clause": "C18.total", "site": site,
                                      "detail": {"text": s, "exception": "%s: %s" % (type(e).__name__, e)}})
                    continue
                if is_ranking:
                    ok = isinstance(res, Ranking)
                else:
                    ok = isinstance(res, list) and all(
                        isinstance(b, set) and all(isinstance(e, Element) for e in b) for b in res)
                if not ok:
                    site = "%s result type" % name
                    if site not in seen_sites:
                        seen_sites.add(site)
                        fails.append({"clause": "C18.total", "site": site, "detail": {"text": s, "got": repr(res)}})
    return {"fails": fails, "key": None, "nkeys": nk, "evals": 3 * case["count"],
            "sample": {"strings": "length %d, indices %d..%d" % (length, case["start"],
                                                                  case["start"] + case["count"] - 1),
                       "first": _nth_string(length, case["start"])}}


def check_case(case):
    try:
        if case["kind"] == "str":
            return _check_str(case)
        if case["kind"] == "file":
            return _check_file(case)
        return _check_total(case)
    finally:
        _arm(0)

"""C19 bounded tier: scoring schemes -- validation, scaling, equivalence, nickname.

Clauses
  C19.accept     ScoringScheme([B, T]) for 12-tuples over {0, 1/2, 1, 2} (given as floats and as int-where-integral):
                 accepted <=> oracle.valid_scheme; a rejected grid tuple raises ForbiddenAssociationPenalties...;
                 an accepted scheme exposes exactly the given penalties.  NaN anywhere must be refused with
                 NonRealPositiveValues... (NaN is not a non-negative number); -0.0 counts as 0.
  C19.shape      wrong container type / length / nesting -> InvalidScoringScheme; a negative or non-number entry (in an
                 otherwise well-shaped argument, valid or association-violating) -> NonRealPositiveValues... .
  C19.mul        s*k and k*s, k in {2, 1/4, 3, 1, 1/2} as float and int: new object, every penalty multiplied, s unchanged,
                 result valid.
  C19.homog      Kemeny score under s*k == k * Kemeny score under s (dyadic penalties and factors: exact).
  C19.equiv      a.is_equivalent_to(b) == proportional on both vectors, 6 entries;
                 a.is_equivalent_to_on_complete_rankings_only(b) == proportional on both vectors, first 3 entries;
                 all ordered pairs of a pool of valid schemes.
  C19.nickname   UKSP / GPDP / IGKS / EKS / str(penalties) from the (both-vector) equivalences, in this order.
"""
import itertools
import random
from functools import lru_cache

from bounded import domains as D
from bounded import oracle as O

ID = "C19"
V = (0., .5, 1., 2.)
KS = (2, 2., .25, 3, 3., 1, 1., .5)
PACK_VALID = 1024
PACK_GRID = 100000
CHUNK = 1
TIMEOUT = 600

RULE = ("validation: 12-tuples over {0,.5,1,2} indexed in base 4 (quick: all 30,720 valid tuples + every single-entry "
        "perturbation of every 6th valid tuple + 100k seeded uniform tuples; thorough: all 4^12), each as floats and as "
        "ints-where-integral; distinct = distinct tuple (the uniform sample is not counted: it may overlap), all "
        "non-trivial.  Special values / shapes: a fixed table x 12 "
        "positions x 4 base schemes.  Scaling: every valid grid scheme x 8 factors x 2 sides.  Equivalence: all ordered "
        "pairs of a pool (presets, p=0 and p=1/2 variants, multiples, boundary schemes, seeded valid grid schemes and for "
        "each of them partners that are proportional on B only / on each vector with different factors / on the first "
        "three entries only / truly proportional); distinct = ordered pair, non-trivial = pair of different schemes.  "
        "Nickname: every valid grid scheme and every pool scheme.  Homogeneity: seeded datasets (n<=5, m<=4) x complete "
        "candidates x schemes x factors; non-trivial = non-zero score.")
SCOPE = {"quick": "validation 30,720 valid + ~184k perturbed + 100k uniform tuples (x2 number types); 5.3k special/shape "
                  "probes; 491k scalings; pool ~450 schemes -> ~200k ordered pairs x 2 predicates; 31k nicknames; "
                  "300 homogeneity samples x 5 factors",
         "thorough": "validation all 16,777,216 tuples (x2 number types); pool ~1600 schemes -> ~2.5M ordered pairs x 2; "
                     "3000 homogeneity samples x 5 factors; rest as quick"}
EXHAUSTIVE = {"quick": False, "thorough": False}

RULES = ("B[0]!=0", "B[1]==0", "B[3]>B[4]", "T[0]!=T[1]", "T[2]!=0", "T[3]!=T[4]")


def _violated(B, T):
    bad = []
    if not B[0] == 0:
        bad.append(RULES[0])
    if not B[1] > 0:
        bad.append(RULES[1])
    if not B[3] <= B[4]:
        bad.append(RULES[2])
    if not T[0] == T[1]:
        bad.append(RULES[3])
    if not T[2] == 0:
        bad.append(RULES[4])
    if not T[3] == T[4]:
        bad.append(RULES[5])
    return bad


@lru_cache(maxsize=None)
def valid_grid():
    """All valid schemes over the grid V: 3 * 4 * 10 * 4 * 4 * 4 * 4 = 30,720."""
    out = []
    for b1 in V[1:]:
        for b2 in V:
            for b3 in V:
                for b4 in V:
                    if b3 > b4:
                        continue
                    for b5, t0, t3, t5 in itertools.product(V, repeat=4):
                        out.append(((0., b1, b2, b3, b4, b5), (t0, t0, 0., t3, t3, t5)))
    return out


def tuple_of_index(idx):
    vals = []
    for _ in range(12):
        idx, r = divmod(idx, 4)
        vals.append(V[r])
    return tuple(vals[:6]), tuple(vals[6:])


def _as_int_where_integral(vec):
    return [int(x) if float(x).is_integer() else x for x in vec]


# ---------------------------------------------------------------------------------------------------------------------
# pool for the equivalence clauses
def _canon_scheme(s):
    return (tuple(float(x) for x in s[0]), tuple(float(x) for x in s[1]))


@lru_cache(maxsize=None)
def pool(tier, seed):
    rng = random.Random(seed * 6007 + 19)
    base = [D.unifying(), D.pseudo(), D.induced(), D.extended(), D.unifying(.5), D.pseudo(.5), D.induced(.5),
            D.unifying(0.), D.pseudo(0.), D.induced(0.), D.unifying(2.), D.pseudo(2.), D.induced(2.)]
    base += [D.scale(s, k) for s in base[:4] for k in (2., .25, 3.)]
    base += [D.GENERIC_B, D.GENERIC_C] + D.BOUNDARY
    vg = valid_grid()
    nrand, nder = (120, 45) if tier == "quick" else (400, 170)
    rnd = [[list(b), list(t)] for b, t in rng.sample(vg, nrand)]
    out = list(base) + rnd
    for s in base[:13] + rnd[:nder]:
        B, T = list(s[0]), list(s[1])
        out.append([[2 * x for x in B], [2 * x for x in T]])                  # truly proportional
        out.append([list(B), [2 * x for x in T]])                             # proportional on B only
        out.append([[2 * x for x in B], [.5 * x for x in T]])                 # each vector proportional, factors differ
        out.append([[2 * x for x in B], list(T)])                             # proportional on T only
        out.append([B[:5] + [B[5] + 1.], list(T)])                            # differs at B[5] only
        out.append([list(B), T[:5] + [T[5] + 1.]])                            # differs at T[5] only
        out.append([B[:3] + [B[3], B[4] + .5, B[5]], list(T)])                # differs at B[4] only
        out.append([list(B), T[:3] + [T[3] + .5, T[4] + .5, T[5]]])           # differs at T[3], T[4] only
        out.append([list(B), [T[0] + .5, T[1] + .5] + T[2:]])                 # differs at T[0], T[1] only
        out.append([B[:2] + [B[2] + .5] + B[3:], list(T)])                    # differs at B[2] only
        out.append([[3 * x for x in B[:3]] + B[3:], [3 * x for x in T[:3]] + T[3:]])   # x3 on the first three entries
        out.append([[3 * x for x in B[:3]] + [3 * B[3], 3 * B[4], B[5]], [3 * x for x in T[:5]] + [3 * T[5]]])
    seen, res = set(), []
    for s in out:
        c = _canon_scheme(s)
        if c in seen or not O.valid_scheme(c[0], c[1]):
            continue
        seen.add(c)
        res.append([list(c[0]), list(c[1])])
    return res


def proportional_b_only(a, b, stop):
    """What a comparison that reads only the B vectors would answer (used to name the site, never as the oracle)."""
    return O.proportional([a[0], [0] * 6], [b[0], [0] * 6], stop)


NICKS = (("UKSP", D.unifying(1.)), ("GPDP", D.pseudo(1.)), ("IGKS", D.induced(1.)), ("EKS", D.extended()))


def nickname_oracle(s, prop=O.proportional):
    for name, ref in NICKS:
        if prop(s, ref, 6):
            return name
    return str([[float(x) for x in s[0]], [float(x) for x in s[1]]])


# ---------------------------------------------------------------------------------------------------------------------
def gen_cases(tier, seed):
    nvalid = len(valid_grid())
    for start in range(0, nvalid, PACK_VALID):
        yield {"kind": "valid", "start": start, "count": min(PACK_VALID, nvalid - start)}
    if tier == "quick":
        for start in range(0, nvalid, PACK_VALID):
            yield {"kind": "perturb", "start": start, "count": min(PACK_VALID, nvalid - start), "stride": 6}
        for i in range(10):
            yield {"kind": "gridsample", "seed": seed * 1000 + i, "count": 10000}
    else:
        for start in range(0, 4 ** 12, PACK_GRID):
            yield {"kind": "grid", "start": start, "count": min(PACK_GRID, 4 ** 12 - start)}
    yield {"kind": "special"}
    yield {"kind": "shape"}
    npool = len(pool(tier, seed))
    for i in range(npool):
        yield {"kind": "equiv", "tier": tier, "seed": seed, "i": i}
    rng = random.Random(seed * 31337 + 190)
    schemes = D.SCHEMES_ALL + D.grid_schemes(rng, 20)
    kinds = list(D.NAME_KINDS)
    for i in range(300 if tier == "quick" else 3000):
        d = D.random_dataset(rng, 5, 4, n_min=2)
        u = D.universe_of(d)
        n = max(u) + 1
        cand = D.random_ranking(rng, list(u), complete=True)      # complete over the dataset's universe
        names = D.NAME_KINDS[kinds[i % len(kinds)]](n)
        yield {"kind": "homog", "rankings": D.rename(d, names), "cand": D.rename([cand], names)[0],
               "scheme": schemes[i % len(schemes)]}


# ---------------------------------------------------------------------------------------------------------------------
class _Fails:
    """Keeps the first fail per (clause, site) within one case."""

    def __init__(self):
        self.items = []
        self._seen = set()

    def add(self, clause, site, detail):
        if (clause, site) not in self._seen:
            self._seen.add((clause, site))
            self.items.append({"clause": clause, "site": site, "detail": detail})


def _construct(SS, pen):
    """-> ("ok", scheme) | ("exc", exception type name, message)."""
    try:
        return ("ok", SS(pen))
    except Exception as e:      # noqa: BLE001 -- repo exception: classified by the caller
        return ("exc", type(e).__name__, str(e)[:120])


def _check_tuple(SS, B, T, F):
    """One grid tuple (all entries non-negative numbers): accept <=> valid, else the association exception."""
    want = O.valid_scheme(B, T)
    n = 0
    for form in ("float", "int"):
        if form == "float":
            pen = [list(B), list(T)]
        else:
            pen = [_as_int_where_integral(B), _as_int_where_integral(T)]
        n += 1
        res = _construct(SS, pen)
        if res[0] == "ok":
            if not want:
                F.add("C19.accept", "ScoringScheme.__init__ accepts " + _violated(B, T)[0],
                      {"penalties": pen, "violated": _violated(B, T)})
                continue
            s = res[1]
            try:
                got = [list(s.penalty_vectors[0]), list(s.penalty_vectors[1])]
                ok = got == [list(B), list(T)] and list(s.b_vector) == list(B) and list(s.t_vector) == list(T)
            except Exception as e:      # noqa: BLE001
                got, ok = "%s: %s" % (type(e).__name__, e), False
            if not ok:
                F.add("C19.accept", "penalty_vectors of an accepted scheme", {"penalties": pen, "stored": got})
        else:
            if want:
                F.add("C19.accept", "ScoringScheme.__init__ rejects a valid scheme",
                      {"penalties": pen, "exception": res[1:]})
            elif res[1] != "ForbiddenAssociationPenaltiesScoringScheme":
                F.add("C19.accept", "wrong exception for a forbidden association",
                      {"penalties": pen, "exception": res[1:], "violated": _violated(B, T)})
    return n


def _check_grid(case):
    from corankco.scoringscheme import ScoringScheme as SS
    F = _Fails()
    evals = 0
    kind = case["kind"]
    if kind == "grid":
        it = (tuple_of_index(i) for i in range(case["start"], case["start"] + case["count"]))
    elif kind == "gridsample":
        rng = random.Random(case["seed"])
        it = (tuple_of_index(rng.randrange(4 ** 12)) for _ in range(case["count"]))
    else:   # perturb
        vg = valid_grid()

        def gen():
            for i in range(case["start"], case["start"] + case["count"]):
                if i % case["stride"]:
                    continue
                B, T = vg[i]
                flat = list(B) + list(T)
                for p in range(12):
                    for v in V:
                        if v != flat[p]:
                            f2 = flat[:p] + [v] + flat[p + 1:]
                            yield tuple(f2[:6]), tuple(f2[6:])
        it = gen()
    nt = 0
    for B, T in it:
        nt += 1
        evals += _check_tuple(SS, B, T, F)
    return {"fails": F.items, "key": None, "nkeys": nt if kind != "gridsample" else 0, "evals": evals,
            "sample": dict(case)}


def _check_valid(case):
    """Valid grid schemes: acceptance, nickname, scaling."""
    from corankco.scoringscheme import ScoringScheme as SS
    F = _Fails()
    evals = 0
    vg = valid_grid()
    for i in range(case["start"], case["start"] + case["count"]):
        B, T = vg[i]
        evals += _check_tuple(SS, B, T, F)
        res = _construct(SS, [list(B), list(T)])
        if res[0] != "ok":
            continue        # already reported by _check_tuple
        s = res[1]
        evals += _check_nickname(s, [list(B), list(T)], F)
        evals += _check_mul(SS, s, B, T, F)
    return {"fails": F.items, "key": None, "nkeys": case["count"], "evals": evals,
            "sample": {"valid grid schemes": "%d..%d" % (case["start"], case["start"] + case["count"] - 1),
                       "first": vg[case["start"]]}}


def _check_nickname(s, raw, F):
    want = nickname_oracle(raw)
    try:
        got = s.get_nickname()
    except Exception as e:      # noqa: BLE001
        F.add("C19.nickname", "get_nickname raised", {"scheme": raw, "exception": "%s: %s" % (type(e).__name__, e)})
        return 1
    if got != want:
        b_only = nickname_oracle(raw, lambda a, b, stop: proportional_b_only(a, b, stop))
        site = "T vector ignored" if got == b_only else "get_nickname"
        F.add("C19.nickname", site, {"scheme": raw, "got": got, "expected": want})
    return 1


def _check_mul(SS, s, B, T, F):
    n = 0
    snap = [list(B), list(T)]
    for k in KS:
        for side in ("s*k", "k*s"):
            n += 1
            try:
                r = s * k if side == "s*k" else k * s
            except Exception as e:      # noqa: BLE001
                F.add("C19.mul", "%s raised" % side, {"scheme": snap, "k": k,
                                                      "exception": "%s: %s" % (type(e).__name__, e)})
                continue
            want = [[x * k for x in B], [x * k for x in T]]
            if not isinstance(r, SS) or r is s:
                F.add("C19.mul", "%s result object" % side, {"scheme": snap, "k": k, "got": repr(r)})
                continue
            got = [list(r.penalty_vectors[0]), list(r.penalty_vectors[1])]
            if got != want:
                F.add("C19.mul", "%s penalties" % side, {"scheme": snap, "k": k, "got": got, "expected": want})
            elif not O.valid_scheme(got[0], got[1]):
                F.add("C19.mul", "%s result invalid" % side, {"scheme": snap, "k": k, "got": got})
            now = [list(s.penalty_vectors[0]), list(s.penalty_vectors[1])]
            if now != snap:
                F.add("C19.mul", "%s modifies the original" % side, {"scheme": snap, "k": k, "after": now})
                s = SS([list(B), list(T)])
    return n


# ---------------------------------------------------------------------------------------------------------------------
VALID_BASES = [[[0., 1., 1., 0., 1., 0.], [1., 1., 0., 1., 1., 0.]],
               [[0., 2., .5, 1., 2., .5], [.5, .5, 0., 2., 2., 1.]]]
ASSOC_BAD_BASES = [[[1., 1., 1., 0., 1., 0.], [1., 1., 0., 1., 1., 0.]],        # B[0] != 0
                   [[0., 1., 1., 2., 1., 0.], [1., 2., 1., 1., 2., 0.]]]        # B3>B4, T0!=T1, T2!=0, T3!=T4


def _put(base, p, v):
    pen = [list(base[0]), list(base[1])]
    pen[p // 6][p % 6] = v
    return pen


def _check_special(_case):
    from corankco.scoringscheme import ScoringScheme as SS
    F = _Fails()
    evals = 0
    nan = float("nan")
    NONREAL = "NonRealPositiveValuesScoringScheme"
    # NaN at every position of valid and association-violating bases
    for base in VALID_BASES + ASSOC_BAD_BASES:
        for p in range(12):
            pen = _put(base, p, nan)
            evals += 1
            res = _construct(SS, pen)
            if res[0] == "ok" or res[1] != NONREAL:
                F.add("C19.accept", "NaN penalty",
                      {"penalties": str(pen), "position": "BT"[p // 6] + "[%d]" % (p % 6),
                       "outcome": "accepted" if res[0] == "ok" else res[1:], "expected": NONREAL})
    # negative and non-number entries: the non-real exception, also when an association rule is violated as well
    bad_entries = [-1, -1., -.5, -1e-9, float("-inf"), "a", "1", None, [1.], (1.,), 1j, {}]
    for base in VALID_BASES + ASSOC_BAD_BASES:
        for p in range(12):
            for v in bad_entries:
                pen = _put(base, p, v)
                evals += 1
                res = _construct(SS, pen)
                kind = "negative entry" if isinstance(v, (int, float)) else "non-number entry"
                if res[0] == "ok":
                    F.add("C19.shape", "%s accepted" % kind, {"penalties": str(pen)})
                elif res[1] != NONREAL:
                    F.add("C19.shape", "%s: wrong exception" % kind,
                          {"penalties": str(pen), "exception": res[1:], "expected": NONREAL})
    # -0.0 is the number zero
    for base in VALID_BASES:
        for p in range(12):
            if base[p // 6][p % 6] != 0:
                continue
            pen = _put(base, p, -0.0)
            evals += 1
            res = _construct(SS, pen)
            if res[0] != "ok":
                F.add("C19.accept", "negative zero rejected", {"penalties": str(pen), "exception": res[1:]})
    return {"fails": F.items, "key": "special", "nkeys": evals - 1, "evals": evals, "sample": "special values table"}


def _shapes():
    B, T = VALID_BASES[0]
    B, T = list(B), list(T)
    return [
        ("None", None), ("int", 5), ("str", "abc"), ("dict", {}), ("dict of lists", {0: B, 1: T}),
        ("tuple of lists", (B, T)), ("list of tuples", [tuple(B), tuple(T)]), ("first is tuple", [tuple(B), T]),
        ("second is tuple", [B, tuple(T)]), ("one list", [B]), ("three lists", [B, T, T]), ("empty list", []),
        ("flat list of 12", B + T), ("B of length 5", [B[:5], T]), ("T of length 5", [B, T[:5]]),
        ("B of length 7", [B + [0.], T]), ("T of length 7", [B, T + [0.]]), ("both of length 5", [B[:5], T[:5]]),
        ("both empty", [[], []]), ("nested", [[B], [T]]), ("strings of length 6", ["012345", "012345"]),
        ("second None", [B, None]), ("first None", [None, T]), ("second a number", [B, 0.]),
        ("set", {1, 2}), ("generator", (x for x in (B, T))), ("dict values", {"B": B, "T": T}),
    ] + [
        # twelve valid numbers cut at the wrong place (lengths k and 12 - k, k != 6): not "two lists of six"
        ("lengths %d and %d" % (k, 12 - k), [(B + T)[:k], (B + T)[k:]]) for k in range(0, 13) if k != 6
    ] + [
        ("lengths %d and %d" % (a, b), [(B + T + B)[:a], (T + B + T)[:b]]) for a, b in ((6, 12), (12, 6), (3, 3), (1, 6), (6, 1))
    ]


def _check_shape(_case):
    from corankco.scoringscheme import ScoringScheme as SS
    F = _Fails()
    evals = 0
    for name, obj in _shapes():
        evals += 1
        res = _construct(SS, obj)
        if res[0] == "ok":
            F.add("C19.shape", "malformed container accepted", {"shape": name})
        elif res[1] != "InvalidScoringScheme":
            F.add("C19.shape", "malformed container: wrong exception", {"shape": name, "exception": res[1:]})
    return {"fails": F.items, "key": "shape", "nkeys": evals - 1, "evals": evals, "sample": "shape table"}


# ---------------------------------------------------------------------------------------------------------------------
def _check_equiv(case):
    from corankco.scoringscheme import ScoringScheme as SS
    F = _Fails()
    P = pool(case["tier"], case["seed"])
    a_raw = P[case["i"]]
    objs = getattr(_check_equiv, "_objs", None)
    if objs is None or objs[0] != (case["tier"], case["seed"]):
        built = [_construct(SS, [list(s[0]), list(s[1])]) for s in P]
        objs = ((case["tier"], case["seed"]), [r[1] if r[0] == "ok" else None for r in built])
        _check_equiv._objs = objs
    S = objs[1]
    a = S[case["i"]]
    evals = 0
    if a is None:       # a valid scheme that the constructor refuses (repo fault, not a harness fault)
        F.add("C19.accept", "ScoringScheme.__init__ rejects a valid scheme", {"penalties": a_raw})
        return {"fails": F.items, "key": None, "evals": 1, "sample": {"a": a_raw}}
    for j, b_raw in enumerate(P):
        b = S[j]
        if b is None:
            continue
        for api, stop in (("is_equivalent_to", 6), ("is_equivalent_to_on_complete_rankings_only", 3)):
            evals += 1
            want = O.proportional(a_raw, b_raw, stop)
            try:
                got = getattr(a, api)(b)
            except Exception as e:      # noqa: BLE001
                F.add("C19.equiv", "%s raised" % api, {"a": a_raw, "b": b_raw,
                                                       "exception": "%s: %s" % (type(e).__name__, e)})
                continue
            if not isinstance(got, bool) or got != want:
                site = "T vector ignored" if got == proportional_b_only(a_raw, b_raw, stop) else api
                F.add("C19.equiv", site, {"api": api, "a": a_raw, "b": b_raw, "got": got, "expected": want})
    evals += _check_nickname(a, a_raw, F)
    return {"fails": F.items, "key": None, "nkeys": len(P) - 1, "evals": evals,
            "sample": {"a": a_raw, "against": "all %d pool schemes" % len(P)}}


def _check_homog(case):
    from bounded import adapt as A
    from corankco.kemeny_score_computation import KemenyComputingFactory
    F = _Fails()
    rankings, cand, scheme = case["rankings"], case["cand"], case["scheme"]
    _exp, conv = A.expected_names(rankings)
    ds = A.mk_dataset(rankings)
    rc = A.mk_ranking([[conv(x) for x in b] for b in cand])
    evals = 0
    try:
        s = A.mk_scheme(scheme)
        base = float(KemenyComputingFactory(s).get_kemeny_score(rc, ds))
    except Exception as e:      # noqa: BLE001
        F.add("C19.homog", "get_kemeny_score raised", {"exception": "%s: %s" % (type(e).__name__, e)})
        return {"fails": F.items, "key": None, "evals": 1, "sample": case}
    for k in (2., .25, 4, 3, .5):
        evals += 1
        try:
            sk = s * k if evals % 2 else k * s
            got = float(KemenyComputingFactory(sk).get_kemeny_score(rc, ds))
        except Exception as e:      # noqa: BLE001
            F.add("C19.homog", "scaled scheme raised", {"k": k, "exception": "%s: %s" % (type(e).__name__, e)})
            continue
        if got != k * base:
            F.add("C19.homog", "get_kemeny_score under s*k", {"k": k, "score_s": base, "score_sk": got,
                                                              "expected": k * base})
    return {"fails": F.items, "key": ("%s|%s|%s" % (rankings, cand, scheme)) if base != 0 else None,
            "evals": evals + 1, "sample": case}


def check_case(case):
    kind = case["kind"]
    if kind in ("grid", "gridsample", "perturb"):
        return _check_grid(case)
    if kind == "valid":
        return _check_valid(case)
    if kind == "special":
        return _check_special(case)
    if kind == "shape":
        return _check_shape(case)
    if kind == "equiv":
        return _check_equiv(case)
    return _check_homog(case)

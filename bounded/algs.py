"""Algorithm configurations used by several bounded modules (runs under /venv/bin/python only)."""
import contextlib

from bounded import adapt as A

# name -> (factory, flags).  flags: standin = needs the cplex stand-in installed; random = uses random pivots;
#                                   one_only = must be called with return_at_most_one_ranking=True
CONFIGS = {}


def _reg(name, **flags):
    def deco(f):
        CONFIGS[name] = (f, flags)
        return f
    return deco


@_reg("BioConsert")
def _():
    from corankco.algorithms.bioconsert.bioconsert import BioConsert
    return BioConsert()


@_reg("BioConsert[Copeland,KwikSort]", random=True)
def _():
    from corankco.algorithms.bioconsert.bioconsert import BioConsert
    from corankco.algorithms.copeland.copeland import CopelandMethod
    from corankco.algorithms.kwiksort.kwiksortrandom import KwikSortRandom
    return BioConsert(starting_algorithms=[CopelandMethod(), KwikSortRandom()])


@_reg("BioConsert[KwikSort,Borda]", random=True)
def _():
    # a starter that accepts every scheme FIRST, then one that refuses some: the refusal must still surface
    from corankco.algorithms.bioconsert.bioconsert import BioConsert
    from corankco.algorithms.borda.borda import BordaCount
    from corankco.algorithms.kwiksort.kwiksortrandom import KwikSortRandom
    return BioConsert(starting_algorithms=[KwikSortRandom(), BordaCount()])


@_reg("BioConsert[BioConsert,BioConsert[Borda]]")
def _():
    # nested BioConserts as starters (they carry the same name): the second one refuses what Borda refuses
    from corankco.algorithms.bioconsert.bioconsert import BioConsert
    from corankco.algorithms.borda.borda import BordaCount
    return BioConsert(starting_algorithms=[BioConsert(), BioConsert(starting_algorithms=[BordaCount()])])


@_reg("BioConsert[PickAPerm]")
def _():
    from corankco.algorithms.bioconsert.bioconsert import BioConsert
    from corankco.algorithms.pickaperm.pickaperm import PickAPerm
    return BioConsert(starting_algorithms=[PickAPerm()])


@_reg("BioCo")
def _():
    from corankco.algorithms.bioconsert.bioco import BioCo
    return BioCo()


@_reg("KwikSortRandom", random=True)
def _():
    from corankco.algorithms.kwiksort.kwiksortrandom import KwikSortRandom
    return KwikSortRandom()


@_reg("Borda")
def _():
    from corankco.algorithms.borda.borda import BordaCount
    return BordaCount()


@_reg("BordaBucketId")
def _():
    from corankco.algorithms.borda.borda import BordaCount
    return BordaCount(use_bucket_id=True)


@_reg("Copeland")
def _():
    from corankco.algorithms.copeland.copeland import CopelandMethod
    return CopelandMethod()


@_reg("PickAPerm")
def _():
    from corankco.algorithms.pickaperm.pickaperm import PickAPerm
    return PickAPerm()


@_reg("ParCons")
def _():
    from corankco.algorithms.parcons.parcons import ParCons
    return ParCons()


@_reg("ParCons(bound=0)")
def _():
    from corankco.algorithms.parcons.parcons import ParCons
    return ParCons(bound_for_exact=0)


@_reg("ParCons(bound=2,aux=KwikSort)", random=True)
def _():
    from corankco.algorithms.parcons.parcons import ParCons
    from corankco.algorithms.kwiksort.kwiksortrandom import KwikSortRandom
    return ParCons(auxiliary_algorithm=KwikSortRandom(), bound_for_exact=2)


@_reg("ParCons(bound=3,aux=KwikSort)", random=True)
def _():
    from corankco.algorithms.parcons.parcons import ParCons
    from corankco.algorithms.kwiksort.kwiksortrandom import KwikSortRandom
    return ParCons(auxiliary_algorithm=KwikSortRandom(), bound_for_exact=3)


@_reg("ParCons(bound=0,aux=BioCo)")
def _():
    from corankco.algorithms.parcons.parcons import ParCons
    from corankco.algorithms.bioconsert.bioco import BioCo
    return ParCons(auxiliary_algorithm=BioCo(), bound_for_exact=0)


@_reg("ExactPulp")
def _():
    from corankco.algorithms.exact.exactalgorithmpulp import ExactAlgorithmPulp
    return ExactAlgorithmPulp()


@_reg("Exact(optimize=True)", one_only=True)
def _():
    from corankco.algorithms.exact.exactalgorithm import ExactAlgorithm
    return ExactAlgorithm(optimize=True)


@_reg("Exact(optimize=False)")
def _():
    from corankco.algorithms.exact.exactalgorithm import ExactAlgorithm
    return ExactAlgorithm(optimize=False)


@_reg("Cplex(optimize=True)", standin=True, one_only=True)
def _():
    from corankco.algorithms.exact.exactalgorithmcplex import ExactAlgorithmCplex
    return ExactAlgorithmCplex(optimize=True)


@_reg("Cplex(optimize=False)", standin=True)
def _():
    from corankco.algorithms.exact.exactalgorithmcplex import ExactAlgorithmCplex
    return ExactAlgorithmCplex(optimize=False)


@_reg("CplexOptim1", standin=True)
def _():
    from corankco.algorithms.exact.exactalgorithmcplexforpaperoptim1 import ExactAlgorithmCplexForPaperOptim1
    return ExactAlgorithmCplexForPaperOptim1()


def make(name):
    return CONFIGS[name][0]()


def flags(name):
    return CONFIGS[name][1]


@contextlib.contextmanager
def cplex_mode(present):
    """Run a block with the cplex stand-in installed (present=True) or with cplex absent (the sandbox's real state)."""
    if present:
        A.install_cplex_standin()
    else:
        A.remove_cplex_standin()
    try:
        yield
    finally:
        A.remove_cplex_standin()


@contextlib.contextmanager
def controlled_pivots(chooser):
    """Replace `choice` as seen by KwikSortRandom._get_pivot (the repo's own _get_pivot still runs).
    chooser(elements:list) -> one of the elements."""
    import corankco.algorithms.kwiksort.kwiksortrandom as mod
    old = mod.choice
    mod.choice = chooser
    try:
        yield
    finally:
        mod.choice = old


def well_formed(consensus, universe_vals, one):
    """Property contract W of C03.  Returns None if fine, else a string describing what is wrong.
    universe_vals: set of raw values (int / str) expected, with the types the Dataset is documented to produce."""
    rs = consensus.consensus_rankings
    if len(rs) < 1:
        return "no consensus ranking"
    if one and len(rs) != 1:
        return "%d rankings although at most one was requested" % len(rs)
    for r in rs:
        seen = set()
        for b in r:
            if len(b) == 0:
                return "empty bucket in %s" % r
            for e in b:
                v = A.val(e)
                if (type(v), v) in seen:
                    return "element %r twice in %s" % (v, r)
                seen.add((type(v), v))
        if seen != set((type(v), v) for v in universe_vals):
            return "elements %s != universe %s" % (sorted(map(str, seen)), sorted(map(str, universe_vals)))
    return None


# ---------------------------------------------------------------------------------------------------------------------
# algorithm objects with a past (round 7): with `warm()` active, every top-level call of compute_consensus_rankings on an
# algorithm object is preceded by calls of THE SAME OBJECT on related inputs — the same dataset and scheme with the
# other value of return_at_most_one_ranking; the same dataset under the scheme scaled by 2**-13 and by 3; the same
# dataset under a scheme with the same B vector and another T vector; a dataset over the same universe whose elements
# first appear in another order.  What the object answers afterwards must not depend on that past.
_WARM = {"on": False, "depth": 0, "patched": False, "calls": 0}


def _warmups(dataset, scheme, one, light):
    """order matters: a memo that is filled once and never overwritten is poisoned by the FIRST related call, a memo of
    the last call by the LAST one (same dataset and scheme, other flag value)"""
    from corankco.scoringscheme import ScoringScheme
    from corankco.dataset import Dataset
    from corankco.ranking import Ranking
    out = []
    try:
        out.append((dataset, scheme * (2. ** -13), one))
    except Exception:
        pass
    if not light:
        try:
            out.append((dataset, scheme * 3., one))
            b, t = [list(v) for v in scheme.penalty_vectors]
            out.append((dataset, ScoringScheme([b, [t[0] + 1., t[1] + 1., 0., t[3], t[4], t[5]]]), one))
        except Exception:
            pass
        try:
            rev = [Ranking([set(bk) for bk in list(r)[::-1]]) for r in list(dataset.rankings)[::-1]]
            out.append((Dataset(rev), scheme, one))
        except Exception:
            pass
    # the dataset numbered differently comes first in every other top-level call (a memo of the first dataset's ids)
    _WARM["toggle"] = not _WARM.get("toggle", False)
    if _WARM["toggle"] and len(out) >= 2 and out[-1][0] is not dataset:
        out.insert(0, out.pop())
    out.append((dataset, scheme, not one))
    return out


def _patch_for_warm():
    if _WARM["patched"]:
        return
    _WARM["patched"] = True
    import importlib
    import corankco.algorithms.kwiksort.kwiksortrandom as kmod
    from corankco.algorithms.rank_aggregation_algorithm import RankAggAlgorithm
    for m_ in ("bioconsert.bioconsert", "bioconsert.bioco", "borda.borda", "copeland.copeland", "exact.exactalgorithm",
               "exact.exactalgorithmpulp", "exact.exactalgorithmcplex", "exact.exactalgorithmbase",
               "kwiksort.kwiksortabs", "kwiksort.kwiksortrandom", "parcons.parcons", "pickaperm.pickaperm",
               "pairwisebasedalgorithm"):
        try:
            importlib.import_module("corankco.algorithms." + m_)
        except Exception:
            pass

    def subclasses(c):
        for s in c.__subclasses__():
            yield s
            yield from subclasses(s)

    def wrap(cls):
        orig = cls.__dict__["compute_consensus_rankings"]

        def wrapped(self, dataset, scoring_scheme, return_at_most_one_ranking=True, bench_mode=False):
            if _WARM["on"] and _WARM["depth"] == 0:
                _WARM["depth"] += 1
                name = type(self).__name__
                light = ("Exact" in name) or ("ParCons" in name)
                old_choice = kmod.choice
                kmod.choice = lambda seq: list(seq)[0]      # warm-up runs do not consume a scripted pivot sequence
                try:
                    for d2, s2, o2 in _warmups(dataset, scoring_scheme, return_at_most_one_ranking, light):
                        try:
                            with A.quiet():
                                orig(self, d2, s2, o2)
                            _WARM["calls"] += 1
                        except Exception:
                            pass
                finally:
                    kmod.choice = old_choice
                    _WARM["depth"] -= 1
            _WARM["depth"] += 1
            try:
                return orig(self, dataset, scoring_scheme, return_at_most_one_ranking, bench_mode)
            finally:
                _WARM["depth"] -= 1
        wrapped.__wrapped__ = orig
        cls.compute_consensus_rankings = wrapped

    for c in set(subclasses(RankAggAlgorithm)):
        if "compute_consensus_rankings" in c.__dict__:
            wrap(c)


@contextlib.contextmanager
def warm():
    _patch_for_warm()
    old = _WARM["on"]
    _WARM["on"] = True
    try:
        yield
    finally:
        _WARM["on"] = old


def is_warm():
    return _WARM["on"]


@contextlib.contextmanager
def cold():
    """inside a warm() block: calls made here are plain calls (no warm-up in front of them)"""
    old = _WARM["on"]
    _WARM["on"] = False
    try:
        yield
    finally:
        _WARM["on"] = old

"""C16 bounded tier: Ranking / Dataset views stay consistent through every construction and mutation.

Ranking predicate RI(r) (expected values are recomputed from r.buckets only):
  buckets pairwise disjoint; positions[x] == 1 + #elements in strictly earlier buckets; set(positions) == union of the
  buckets == domain; nb_elements == |union|; len(r) == number of buckets; iterating r yields the buckets.
Dataset predicate DI(d):
  RI for every ranking; universe == union of the ranking domains; mapping_elem_id a bijection universe -> 0..n-1;
  mapping_id_elem its inverse and NOTHING ELSE; nb_elements == n; nb_rankings == len(rankings); element types
  homogeneous (all int when every name is integer-like, else all str); is_complete <=> every domain == universe;
  without_ties <=> every bucket a singleton; get_positions() / get_bucket_ids(): shape (n, m), -1 iff absent,
  position-1 / bucket index otherwise.

Clauses (site = the API after which the predicate was evaluated)
  C16.ranking.inv     RI on rankings from constructors, from_string, generators, and on the rankings of any dataset
  C16.unified.inv     RI on every ranking returned by unified_rankings()                 [site Dataset.unified_rankings]
  C16.ids.bijection   id maps.  After mutators: site "Dataset re-analysis after mutation" when the only problem is extra
                      keys in mapping_id_elem; site "Dataset re-analysis after mutation: mapping_elem_id" when the forward
                      map (hence universe / nb_elements / matrix shape) is wrong
  C16.flags           is_complete / without_ties
  C16.prop            everything else: universe, counts, types, matrices, and the CONTENT of what the API returns:
                      constructors keep the given buckets (names converted as documented); unification appends exactly
                      the missing elements as one last bucket (nothing when none is missing); projection keeps exactly
                      the rankings meeting the kept set, relative order of rankings and buckets kept, empty buckets
                      dropped; remove_elements(S) leaves the non-empty projections on universe \\ S in order;
                      remove_elements_rate_presence_lower_than(t) removes exactly the elements with presence/m < t;
                      remove_empty_rankings removes exactly the rankings without bucket; RI of consensus rankings
"""
import itertools
import random
from fractions import Fraction

from bounded import domains as D
from bounded import oracle as O

ID = "C16"
RULE = ("static: every dataset with n<=3, m<=2 (701 per name kind, 6 name kinds: canonical / permuted / hash-colliding ints, "
        "strings, integer-like strings, mixed) through Ranking(sets of raw values | Elements), Ranking.from_string (2 "
        "notations), Dataset(...), from_raw_list, unified_rankings, unified_dataset, sub_problem_from_elements / _from_ids "
        "for EVERY subset of the universe (+ a foreign element). seq: for the same datasets every sequence of <= 2 "
        "(thorough <= 3) mutators among 15 = remove_elements(S) for S given by 7 index masks over the sorted current "
        "universe + all-but-last + everything, rate filter at 0, .34, .5, .67, 1, remove_empty_rankings; predicate and "
        "content oracle evaluated after the last mutator of every sequence (prefixes are sequences themselves). "
        "Plus seeded datasets n<=5, m<=4, generators (random seeded) and consensus rankings of 5 algorithms. "
        "Distinct non-trivial = distinct (dataset, API) with a universe of >= 2 elements, or distinct (dataset, mutator "
        "sequence) whose last mutator changed the dataset.")
EXHAUSTIVE = {"quick": False, "thorough": False}
SCOPE = {"quick": "6 x 701 datasets (n<=3, m<=2): all static APIs, all projections, all 240 non-empty mutator sequences of length "
                  "<= 2; 120 sampled datasets n<=5, m<=4 (same); generator grid n<=5, m<=3, steps {0,3,30}, 3 seeds; "
                  "240 datasets x 5 algorithms",
         "thorough": "3 x 701 datasets (permuted ints, integer-like strings, mixed): all 3615 non-empty mutator sequences of "
                     "length <= 3, the 3 other name kinds <= 2; 2 x 17 550 datasets n<=3, m=3 with sequences <= 2; 1500 sampled datasets n<=6, m<=5 (sequences <= 2); generator grid n<=6, m<=4, 20 "
                     "seeds; 1500 datasets x 5 algorithms"}
CHUNK = 2
TIMEOUT = 900

S_MUT = "Dataset re-analysis after mutation"
RATES = [0.0, 0.34, 0.5, 0.67, 1.0]
OPS = ["rm:%d" % m for m in range(7)] + ["rm:allbutlast", "rm:all"] + ["rate:%s" % r for r in RATES] + ["empties"]
DEEP_KINDS = ("perm", "intstr", "mixed")
ALGOS = ["Borda", "Copeland", "BioConsert", "KwikSortRandom", "PickAPerm"]


# ---------------------------------------------------------------------------------------------------------------------
def passthrough(e):
    """The runner's per-case alarm (CaseTimeout) must never be taken for an exception of the code under test."""
    if type(e).__name__ == "CaseTimeout":
        raise e


def _many_rankings():
    """hundreds of rankings (counts beyond the small integers CPython caches): flags and matrices as for small datasets"""
    a, b = [[0], [1], [2]], [[1], [0, 2]]
    return [[[[0]]] * 257, [a] * 300, [a, b] * 150, [a] * 299 + [[[0], [1]]], [a, b] * 500 + [[]]]


def gen_cases(tier, seed):
    yield {"kind": "static", "namekind": "canon", "datasets": _many_rankings(), "max_proj": 4}
    quick = tier == "quick"
    kinds = list(D.NAME_KINDS)
    base = list(D.all_datasets(3, 2))
    for kind in kinds:
        names = D.NAME_KINDS[kind](3)
        for i in range(0, len(base), 12):
            yield {"kind": "static", "namekind": kind, "datasets": [D.rename(x, names) for x in base[i:i + 12]]}
        depth = 3 if (not quick and kind in DEEP_KINDS) else 2
        step = 6 if depth == 2 else 1
        for i in range(0, len(base), step):
            yield {"kind": "seq", "namekind": kind, "datasets": [D.rename(x, names) for x in base[i:i + step]],
                   "depth": depth}
    # names of mixed RAW types (Python ints next to non-integer-like strings): everything must become str
    for names in ([0, "a", 2], ["b", 1, "2"]):
        for i in range(0, len(base), 12):
            yield {"kind": "static", "namekind": "typemix", "datasets": [D.rename(x, names) for x in base[i:i + 12]]}
        for i in range(0, len(base), 24):
            yield {"kind": "seq", "namekind": "typemix", "datasets": [D.rename(x, names) for x in base[i:i + 6]], "depth": 2}
    if not quick:
        for kind in ("perm", "mixed"):
            names = D.NAME_KINDS[kind](3)
            buf = []
            for ds in D.all_datasets(3, 3, exact_m=True):
                buf.append(ds)
                if len(buf) == 10:
                    yield {"kind": "seq", "namekind": kind, "datasets": [D.rename(x, names) for x in buf], "depth": 2}
                    buf = []
            if buf:
                yield {"kind": "seq", "namekind": kind, "datasets": [D.rename(x, names) for x in buf], "depth": 2}
    rng = random.Random(seed * 6151 + 3)
    count = 120 if quick else 1500
    for i in range(count):
        d = D.random_dataset(rng, 5 if quick else 6, 4 if quick else 5)
        if rng.random() < 0.3:
            d.insert(rng.randrange(len(d) + 1), [])
        kind = kinds[i % len(kinds)]
        names = D.NAME_KINDS[kind](max(D.universe_of(d)) + 1)
        rd = [D.rename(d, names)]
        yield {"kind": "static", "namekind": kind, "datasets": rd, "max_proj": 40}
        yield {"kind": "seq", "namekind": kind, "datasets": rd, "depth": 2}
    # generators
    nmax, mmax = (5, 3) if quick else (6, 4)
    for n in range(1, nmax + 1):
        for m in range(1, mmax + 1):
            yield {"kind": "gen", "n": n, "m": m, "steps": [0, 3, 30], "seeds": list(range(seed, seed + (3 if quick else 20)))}
    # consensus rankings
    count = 240 if quick else 1500
    buf = []
    for i in range(count):
        d = D.random_dataset(rng, 4 if quick else 5, 3 if quick else 4)
        kind = kinds[i % len(kinds)]
        names = D.NAME_KINDS[kind](max(D.universe_of(d)) + 1)
        buf.append(D.rename(d, names))
        if len(buf) == 10:
            yield {"kind": "algos", "datasets": buf}
            buf = []
    if buf:
        yield {"kind": "algos", "datasets": buf}


# ---------------------------------------------------------------------------------------------------------------------
# predicates (read the repo objects, recompute every expected value from the buckets)
def tv(e):
    return (type(e.value).__name__, e.value)


def tvraw(x):
    return (type(x).__name__, x)


def raw_of(r):
    """repo Ranking -> list of sets of (typename, value), from the buckets only."""
    return [set(tv(e) for e in b) for b in r.buckets]


def ranking_problems(r):
    from corankco.element import Element
    probs = []
    buckets = list(r.buckets)
    exp_pos, acc = {}, 0
    for b in buckets:
        for e in b:
            if not isinstance(e, Element):
                probs.append("bucket member %r is not an Element" % (e,))
                return probs
            if tv(e) in exp_pos:
                probs.append("element %r in two buckets" % (e.value,))
            exp_pos[tv(e)] = acc + 1
        acc += len(b)
    got_pos = {}
    for e, p in r.positions.items():
        got_pos[tv(e)] = p
    if got_pos != exp_pos:
        probs.append("positions %s, expected from buckets %s" % (sorted(got_pos.items(), key=str),
                                                                 sorted(exp_pos.items(), key=str)))
    dom = set(tv(e) for e in r.domain)
    if dom != set(exp_pos):
        probs.append("domain %s != union of buckets %s" % (sorted(dom, key=str), sorted(exp_pos, key=str)))
    if r.nb_elements != len(exp_pos):
        probs.append("nb_elements %s != %d" % (r.nb_elements, len(exp_pos)))
    if len(r) != len(buckets):
        probs.append("len %s != %d buckets" % (len(r), len(buckets)))
    if [set(tv(e) for e in b) for b in r] != [set(tv(e) for e in b) for b in buckets]:
        probs.append("iteration does not yield the buckets")
    return probs


def dataset_problems(d):
    """-> list of (category, text); categories ranking, ids.map, ids.extra, universe, count, types, flags, matrix."""
    probs = []
    rk = list(d.rankings)
    raws = []
    for i, r in enumerate(rk):
        rp = ranking_problems(r)
        if rp:
            probs.append(("ranking", "ranking %d: %s" % (i, "; ".join(rp))))
        raws.append(raw_of(r))
    union = set()
    for r in raws:
        for b in r:
            union |= b
    n, m = len(union), len(rk)
    # element types
    intlike = all(isinstance(v, int) or (isinstance(v, str) and v.isdigit()) for _, v in union)
    want = "int" if intlike else "str"
    bad = sorted((x for x in union if x[0] != want), key=str)
    if bad:
        probs.append(("types", "elements %s should all be %s" % (bad, want)))
    # flags
    comp = all(set(x for b in r for x in b) == union for r in raws)
    ties = all(len(b) == 1 for r in raws for b in r)
    if bool(d.is_complete) != comp:
        probs.append(("flags", "is_complete %r, expected %r" % (d.is_complete, comp)))
    if bool(d.without_ties) != ties:
        probs.append(("flags", "without_ties %r, expected %r" % (d.without_ties, ties)))
    if d.nb_rankings != m or len(list(iter(d))) != m:
        probs.append(("count", "nb_rankings %s != %d" % (d.nb_rankings, m)))
    # id maps
    fwd = {}
    for e, i in d.mapping_elem_id.items():
        fwd[tv(e)] = i
    if set(fwd) != union or len(d.mapping_elem_id) != n:
        probs.append(("ids.map", "mapping_elem_id keys %s != universe %s" % (sorted(fwd, key=str), sorted(union, key=str))))
        return probs            # universe, nb_elements and the matrices are derived from this map
    if sorted(fwd.values(), key=str) != list(range(n)):
        probs.append(("ids.map", "mapping_elem_id values %s are not 0..%d" % (sorted(fwd.values(), key=str), n - 1)))
        return probs
    inv = d.mapping_id_elem
    inv_ok = True
    for x, i in fwd.items():
        if i not in inv or tv(inv[i]) != x:
            inv_ok = False
            probs.append(("ids.map", "mapping_id_elem[%d] is %r, expected %r" % (i, inv.get(i), x[1])))
            break
    if inv_ok and set(inv.keys()) != set(range(n)):
        extra = sorted(k for k in inv.keys() if k not in range(n))
        probs.append(("ids.extra", "mapping_id_elem has stale keys %s (n=%d): %s" % (extra, n, dict(inv))))
    uni = set(tv(e) for e in d.universe)
    if uni != union:
        probs.append(("universe", "universe %s != union of domains %s" % (sorted(uni, key=str), sorted(union, key=str))))
    if d.nb_elements != n:
        probs.append(("count", "nb_elements %s != %d" % (d.nb_elements, n)))
    # matrices
    for what, mat in (("get_positions", d.get_positions()), ("get_bucket_ids", d.get_bucket_ids())):
        if tuple(mat.shape) != (n, m):
            probs.append(("matrix", "%s shape %s != (%d, %d)" % (what, tuple(mat.shape), n, m)))
            continue
        for j, r in enumerate(raws):
            exp = {}
            acc = 0
            for bi, b in enumerate(r):
                for x in b:
                    exp[x] = acc if what == "get_positions" else bi
                acc += len(b)
            col = dict((x, int(mat[fwd[x]][j])) for x in union)
            want_col = dict((x, exp.get(x, -1)) for x in union)
            if col != want_col:
                probs.append(("matrix", "%s column %d: %s, expected %s" % (what, j, sorted(col.items(), key=str),
                                                                            sorted(want_col.items(), key=str))))
                break
    return probs


CLAUSE_OF = {"ranking": "C16.ranking.inv", "ids.map": "C16.ids.bijection", "ids.extra": "C16.ids.bijection",
             "flags": "C16.flags", "universe": "C16.prop", "count": "C16.prop", "types": "C16.prop", "matrix": "C16.prop"}


class Rec:
    def __init__(self):
        self.fails = []
        self.seen = {}
        self.evals = 0
        self.nk = 0

    def add(self, clause, site, detail):
        k = (clause, site)
        self.seen[k] = self.seen.get(k, 0) + 1
        if self.seen[k] <= 2:
            self.fails.append({"clause": clause, "site": site, "detail": detail})

    def dataset(self, d, site, ctx, mutated=False):
        self.evals += 1
        for cat, text in dataset_problems(d):
            s = site
            if mutated and cat == "ids.map":
                s = site + ": mapping_elem_id"
            elif cat == "ids.map":
                s = site + ": id maps"
            self.add(CLAUSE_OF[cat], s, dict(ctx, problem=text))

    def ranking(self, r, clause, site, ctx):
        self.evals += 1
        rp = ranking_problems(r)
        if rp:
            self.add(clause, site, dict(ctx, problem="; ".join(rp), ranking=str(r)))

    def content(self, got_rankings, expected, site, ctx, what="rankings"):
        """got_rankings: list of repo Rankings; expected: list of lists of buckets of raw (already converted) values."""
        got = [[set(tv(e) for e in b) for b in r.buckets] for r in got_rankings]
        exp = [[set(tvraw(x) for x in b) for b in r] for r in expected]
        if got != exp:
            self.add("C16.prop", site, dict(ctx, problem="%s differ" % what, got=str(got_rankings), expected=str(expected)))


def sort_universe(vals):
    return sorted(vals, key=lambda v: (type(v).__name__, v))


def raise_text(e):
    return "%s: %s" % (type(e).__name__, str(e)[:200])


# ---------------------------------------------------------------------------------------------------------------------
def render(r, style):
    if style == 0:
        return "[" + ", ".join("{" + ", ".join(str(x) for x in b) + "}" for b in r) + "]"
    return " [" + ",".join("[" + ",".join(str(x) for x in b) + "]" for b in r) + "] "


def check_static(case, rec):
    from bounded import adapt as A
    from corankco.dataset import Dataset, EmptyDatasetException
    from corankco.ranking import Ranking
    from corankco.element import Element
    for spec in case["datasets"]:
        ctx = {"dataset": spec}
        exp, conv = A.expected_names(spec)
        uni = D.universe_of(exp)
        if len(uni) >= 2:
            rec.nk += 1
        # --- Ranking constructors
        for r in spec:
            for how in ("raw", "element", "frozen"):
                try:
                    if how == "raw":
                        ro = Ranking([set(b) for b in r])
                    elif how == "element":
                        ro = Ranking([set(Element(x) for x in b) for b in r])
                    else:
                        ro = Ranking([frozenset(b) for b in r])
                except Exception as e:                      # noqa: BLE001
                    passthrough(e)
                    rec.add("C16.ranking.inv", "Ranking(...) raises", dict(ctx, ranking=r, exception=raise_text(e)))
                    continue
                rec.ranking(ro, "C16.ranking.inv", "Ranking(...)", dict(ctx, how=how))
                rec.content([ro], [r], "Ranking(...)", dict(ctx, how=how), "buckets")
            for style in (0, 1):
                txt = render(r, style)
                try:
                    ro = Ranking.from_string(txt)
                except Exception as e:                      # noqa: BLE001
                    passthrough(e)
                    rec.add("C16.ranking.inv", "Ranking.from_string raises", dict(ctx, text=txt, exception=raise_text(e)))
                    continue
                rec.ranking(ro, "C16.ranking.inv", "Ranking.from_string", dict(ctx, text=txt))
                rec.content([ro], A.expected_names([r])[0], "Ranking.from_string", dict(ctx, text=txt), "buckets")
        # --- Dataset constructors
        ds = None
        for how in ("Dataset(...)", "Dataset.from_raw_list"):
            try:
                if how == "Dataset(...)":
                    d = Dataset([Ranking([set(b) for b in r]) for r in spec], name="nm")
                else:
                    d = Dataset.from_raw_list([[set(b) for b in r] for r in spec], name="nm")
            except Exception as e:                          # noqa: BLE001
                passthrough(e)
                rec.add("C16.prop", how + " raises", dict(ctx, exception=raise_text(e)))
                continue
            rec.dataset(d, how, ctx)
            rec.content(d.rankings, exp, how, ctx)
            if d.name != "nm":
                rec.add("C16.prop", how, dict(ctx, problem="name %r" % (d.name,)))
            ds = d
        if ds is None:
            continue
        # --- unification
        exp_uni = [O.unify(r, uni) for r in exp]
        try:
            ur = ds.unified_rankings()
            for i, r in enumerate(ur):
                rec.ranking(r, "C16.unified.inv", "Dataset.unified_rankings", dict(ctx, index=i))
            rec.content(ur, exp_uni, "Dataset.unified_rankings", ctx)
        except Exception as e:                              # noqa: BLE001
            passthrough(e)
            rec.add("C16.prop", "Dataset.unified_rankings raises", dict(ctx, exception=raise_text(e)))
        try:
            ud = ds.unified_dataset()
            rec.dataset(ud, "Dataset.unified_dataset", ctx)
            rec.content(ud.rankings, exp_uni, "Dataset.unified_dataset", ctx)
            if not ud.is_complete:
                rec.add("C16.flags", "Dataset.unified_dataset", dict(ctx, problem="unified dataset not flagged complete"))
        except Exception as e:                              # noqa: BLE001
            passthrough(e)
            rec.add("C16.prop", "Dataset.unified_dataset raises", dict(ctx, exception=raise_text(e)))
        # copies of the dataset and of its rankings (copy, deepcopy, pickle round trip) are datasets / rankings like any
        # other: same content, views consistent with it
        import copy as _copy
        import pickle as _pickle
        for how, fn_ in (("copy.copy", _copy.copy), ("copy.deepcopy", _copy.deepcopy),
                         ("pickle round trip", lambda o: _pickle.loads(_pickle.dumps(o)))):
            try:
                dc = fn_(ds)
                rec.dataset(dc, "Dataset obtained by %s" % how, ctx)
                rec.content(dc.rankings, exp, "Dataset obtained by %s" % how, ctx)
                for i, r in enumerate(ds.rankings):
                    rc_ = fn_(r)
                    rec.ranking(rc_, "C16.prop", "Ranking obtained by %s" % how, dict(ctx, index=i))
                    rec.content([rc_], [exp[i]], "Ranking obtained by %s" % how, dict(ctx, index=i))
            except Exception as e:                          # noqa: BLE001
                passthrough(e)
                rec.add("C16.prop", "Dataset / Ranking obtained by %s raises" % how, dict(ctx, exception=raise_text(e)))
        # the dataset itself must still be consistent (unification works on copies)
        rec.dataset(ds, "Dataset(...) after unified_rankings", ctx)
        rec.content(ds.rankings, exp, "Dataset(...) after unified_rankings", ctx)
        # --- projections
        su = sort_universe(uni)
        try:
            ids = dict((tv(e)[1], i) for e, i in ds.mapping_elem_id.items())
        except Exception as e:                                   # noqa: BLE001
            passthrough(e)
            ids = {}
        subsets = [c for k in range(0, len(su) + 1) for c in itertools.combinations(su, k)]
        if "max_proj" in case and len(subsets) > case["max_proj"]:
            subsets = random.Random(len(subsets)).sample(subsets, case["max_proj"])
        for keep in subsets:
            for variant in ("elements", "ids", "foreign"):
                if variant == "foreign":
                    if len(keep) != 1:
                        continue
                    foreign = 99 if isinstance(su[0], int) else "zz"
                    kset = set(Element(x) for x in keep) | {Element(foreign)}
                elif variant == "ids":
                    if any(x not in ids for x in keep):
                        continue
                    kset = set(ids[x] for x in keep)
                else:
                    kset = set(Element(x) for x in keep)
                site = "Dataset.sub_problem_from_ids" if variant == "ids" else "Dataset.sub_problem_from_elements"
                pctx = dict(ctx, keep=list(keep), variant=variant)
                proj = []
                for r in exp:
                    pr = [[x for x in b if x in keep] for b in r]
                    pr = [b for b in pr if b]
                    if pr:
                        proj.append(pr)
                rec.evals += 1
                try:
                    sub = ds.sub_problem_from_ids(kset) if variant == "ids" else ds.sub_problem_from_elements(kset)
                except EmptyDatasetException:
                    if proj:
                        rec.add("C16.prop", site, dict(pctx, problem="EmptyDatasetException although %d rankings meet "
                                                                      "the kept set" % len(proj)))
                    continue
                except Exception as e:                      # noqa: BLE001
                    passthrough(e)
                    rec.add("C16.prop", site + " raises", dict(pctx, exception=raise_text(e)))
                    continue
                if not proj:
                    # nothing meets the kept set: an (empty) Dataset is refused by the constructor; anything returned
                    # must at least be consistent
                    rec.dataset(sub, site, pctx)
                    continue
                rec.dataset(sub, site, pctx)
                rec.content(sub.rankings, A.expected_names(proj)[0], site, pctx)
                if len(keep) >= 1 and len(uni) >= 2:
                    rec.nk += 1
                if variant == "foreign":
                    continue
                # the two optional flags, one at a time and together: keep_empty_rankings keeps the rankings that do
                # not meet the kept set as empty rankings; keep_element_types keeps the names as they are in the dataset
                proj_all = [[b2 for b2 in ([x for x in b if x in keep] for b in r) if b2] for r in exp]
                for kempty, ktypes in ((True, False), (False, True), (True, True)):
                    want = proj_all if kempty else proj
                    if not any(want):
                        continue
                    fctx = dict(pctx, keep_empty_rankings=kempty, keep_element_types=ktypes)
                    rec.evals += 1
                    try:
                        if variant == "ids":
                            sub2 = ds.sub_problem_from_ids(kset, keep_empty_rankings=kempty, keep_element_types=ktypes)
                        else:
                            sub2 = ds.sub_problem_from_elements(kset, keep_empty_rankings=kempty,
                                                                keep_element_types=ktypes)
                    except Exception as e:                      # noqa: BLE001
                        passthrough(e)
                        rec.add("C16.prop", site + " raises", dict(fctx, exception=raise_text(e)))
                        continue
                    rec.content(sub2.rankings, want if ktypes else A.expected_names(want)[0], site + " (optional flags)",
                                fctx)


# ---------------------------------------------------------------------------------------------------------------------
def current_raw(d):
    """Plain values of the current rankings (from the buckets)."""
    return [[[e.value for e in b] for b in r.buckets] for r in d.rankings]


def removal_set(op_arg, uni):
    if op_arg == "allbutlast":
        return set(uni[:-1])
    if op_arg == "all":
        return set(uni)
    mask = int(op_arg)
    return set(x for j, x in enumerate(uni) if mask >> (j % 3) & 1)


def apply_op(d, op, before):
    """Apply one mutator to the repo Dataset; `before` = plain-value rankings before the call.  Elements to remove are
    always members of the current universe and are passed as Element objects."""
    from corankco.element import Element
    uni = sort_universe(set(x for r in before for b in r for x in b))
    kind, _, arg = op.partition(":")
    if kind == "empties":
        d.remove_empty_rankings()
    elif kind == "rm":
        d.remove_elements(set(Element(x) for x in removal_set(arg, uni)))
    else:
        d.remove_elements_rate_presence_lower_than(float(arg))


def expected_after(op, before):
    """(expected rankings, exact).  exact=False: rankings without bucket in the result are ignored in the comparison
    (whether an emptied ranking is kept is not part of the property; the repo drops them)."""
    uni = sort_universe(set(x for r in before for b in r for x in b))
    kind, _, arg = op.partition(":")
    if kind == "empties":
        return [r for r in before if len(r) > 0], True
    if kind == "rm":
        s = removal_set(arg, uni)
    else:
        m = len(before)
        t = Fraction(arg)
        s = set(x for x in uni if Fraction(sum(1 for r in before if any(x in b for b in r)), m) < t)
    out = []
    for r in before:
        pr = [[x for x in b if x not in s] for b in r]
        pr = [b for b in pr if b]
        if pr:
            out.append(pr)
    return out, False


MUTATOR = {"rm": "remove_elements", "rate": "remove_elements_rate_presence_lower_than", "empties": "remove_empty_rankings"}


def check_seq(case, rec):
    from bounded import adapt as A
    from corankco.dataset import Dataset, EmptyDatasetException
    from corankco.ranking import Ranking
    depth = case["depth"]
    for spec in case["datasets"]:
        dead = set()
        for k in range(1, depth + 1):
            for seq in itertools.product(OPS, repeat=k):
                if seq[:-1] in dead:
                    dead.add(seq)
                    continue
                ctx = {"dataset": spec, "sequence": list(seq)}
                try:
                    d = Dataset([Ranking([set(b) for b in r]) for r in spec])
                except Exception as e:                      # noqa: BLE001
                    passthrough(e)
                    rec.add("C16.prop", "Dataset(...) raises", dict(ctx, exception=raise_text(e)))
                    break
                ok = True
                before = None
                for i, op in enumerate(seq):
                    before = current_raw(d)
                    exp, exact = expected_after(op, before)
                    must_refuse = not any(exp)
                    try:
                        apply_op(d, op, before)
                    except EmptyDatasetException:
                        ok = False
                        dead.add(seq[:i + 1])
                        if not must_refuse and i == k - 1:
                            rec.evals += 1
                            rec.add("C16.prop", MUTATOR[op.split(":")[0]] + " raises",
                                    dict(ctx, problem="EmptyDatasetException although elements remain", before=before))
                        break
                    except Exception as e:                  # noqa: BLE001
                        passthrough(e)
                        ok = False
                        dead.add(seq[:i + 1])
                        if i == k - 1:
                            rec.evals += 1
                            rec.add("C16.prop", MUTATOR[op.split(":")[0]] + " raises",
                                    dict(ctx, exception=raise_text(e), before=before))
                        break
                if not ok:
                    continue
                # predicate + content after the last mutator
                rec.dataset(d, S_MUT, ctx, mutated=True)
                exp, exact = expected_after(seq[-1], before)
                exp_conv = A.expected_names(exp)[0] if any(exp) else exp
                got = d.rankings if exact else [r for r in d.rankings if len(r.buckets) > 0]
                name = MUTATOR[seq[-1].split(":")[0]]
                rec.content(got, exp_conv, name + " content", dict(ctx, before=before))
                if exp != before:
                    rec.nk += 1


# ---------------------------------------------------------------------------------------------------------------------
def check_gen(case, rec):
    from corankco.dataset import Dataset, EmptyDatasetException
    from corankco.ranking import Ranking
    n, m = case["n"], case["m"]
    for sd in case["seeds"]:
        for steps in case["steps"]:
            for complete in (False, True):
                ctx = {"n": n, "m": m, "steps": steps, "complete": complete, "seed": sd}
                random.seed(sd * 1000 + steps)
                try:
                    rs = Ranking.generate_rankings(n, m, steps, complete)
                    for r in rs:
                        rec.ranking(r, "C16.ranking.inv", "Ranking.generate_rankings", ctx)
                except Exception as e:                      # noqa: BLE001
                    passthrough(e)
                    rec.add("C16.ranking.inv", "Ranking.generate_rankings raises", dict(ctx, exception=raise_text(e)))
                random.seed(sd * 1000 + steps + 1)
                try:
                    d = Dataset.get_random_dataset_markov(n, m, steps, complete)
                    rec.dataset(d, "Dataset.get_random_dataset_markov", ctx)
                    rec.nk += 1
                except EmptyDatasetException:
                    if complete:
                        rec.add("C16.prop", "Dataset.get_random_dataset_markov raises",
                                dict(ctx, problem="EmptyDatasetException in complete mode"))
                except Exception as e:                      # noqa: BLE001
                    passthrough(e)
                    rec.add("C16.prop", "Dataset.get_random_dataset_markov raises", dict(ctx, exception=raise_text(e)))
        ctx = {"n": n, "m": m, "seed": sd}
        random.seed(sd)
        try:
            for r in Ranking.uniform_permutations(n, m):
                rec.ranking(r, "C16.ranking.inv", "Ranking.uniform_permutations", ctx)
            d = Dataset.get_uniform_permutation_dataset(n, m)
            rec.dataset(d, "Dataset.get_uniform_permutation_dataset", ctx)
            rec.nk += 1
        except Exception as e:                              # noqa: BLE001
            passthrough(e)
            rec.add("C16.prop", "uniform permutations raise", dict(ctx, exception=raise_text(e)))


def check_algos(case, rec):
    from bounded import adapt as A
    from bounded import algs
    for spec in case["datasets"]:
        ds = A.mk_dataset(spec)
        sc = A.mk_scheme(D.unifying())
        for name in ALGOS:
            ctx = {"dataset": spec, "algorithm": name}
            random.seed(7)
            try:
                with algs.cplex_mode(False), A.quiet():
                    cons = algs.make(name).compute_consensus_rankings(ds, sc, False)
                rks = list(cons.consensus_rankings)
            except Exception as e:                          # noqa: BLE001
                passthrough(e)
                rec.add("C16.prop", "consensus ranking: %s raises" % name, dict(ctx, exception=raise_text(e)))
                continue
            for r in rks:
                rec.ranking(r, "C16.prop", "consensus ranking: %s" % name, ctx)
            rec.nk += 1
        rec.dataset(ds, "Dataset(...) after algorithms", {"dataset": spec})


def check_case(case):
    rec = Rec()
    {"static": check_static, "seq": check_seq, "gen": check_gen, "algos": check_algos}[case["kind"]](case, rec)
    sample = dict(case)
    if "datasets" in sample:
        sample["datasets"] = sample["datasets"][:2]
    return {"fails": rec.fails, "key": None, "nkeys": rec.nk, "evals": rec.evals, "sample": sample}

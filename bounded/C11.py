"""C11 bounded tier: KwikSort is pivot-independent when the cheapest pairwise placements cohere; every element is placed
relative to the pivot of its recursion step by the cheapest placement (tie preferred on equal cost, then before).

The random pivot is controlled through algs.controlled_pivots (the repo's own _get_pivot still runs; only the name
`choice` seen by kwiksortrandom is replaced).  ALL pivot sequences of a (dataset, scheme) are enumerated by an odometer over
the choice points: the chooser answers from a script of indices into the `elements` list it is given (0 beyond the script),
the sizes of the lists are recorded, and the next script is the lexicographic successor.

Definitional placement of x relative to y, from the oracle cost table (before, after, tied)(x, y):
    the cheapest of the three; on equal cost tie is preferred, then before, then after.
The relation is *coherent* when it is antisymmetric (x before y <=> y after x; tie is symmetric by the table's mirror
consistency) and is the pairwise relation of a ranking with ties R (R is then unique).

Clauses
  C11.prop        coherent => the consensus is exactly R for every pivot sequence
  C11.identical   corollary: m copies of a complete ranking r, scheme with T[0] > 0 and B[2] > 0 (creating / breaking a tie
                  costs) => the consensus is r for every pivot sequence  (expected value does not use the placement oracle)
  C11.partition   every dataset and pivot sequence: the consensus equals the definitional KwikSort recursion replayed on the
                  logged pivots (pivot of a sub-problem looked up by its element set): elements placed before / tied / after
                  the pivot of their step per the definitional placement, before-group and after-group solved recursively,
                  groups of one element emitted as they are; the first sub-problem is the universe, no other sub-problem is
                  ever submitted to the pivot chooser
  C11.decision    KwikSortRandom._where_should_it_be(pos_pivot, pos_other, S) on random int32 position vectors (entries
                  -1..4, m <= 6) and valid dyadic schemes == -1 / 0 / 1 per the definitional counts of the six statuses of
                  (other, pivot)
  C11.raises      any exception out of compute_consensus_rankings
"""
import random

from bounded import domains as D
from bounded import oracle as O

ID = "C11"
RULE = ("for each (dataset, scheme): every pivot sequence (odometer over the controlled choice points; at most Catalan(n) "
        "runs).  exhaustive part: all datasets of 1..m rankings of R(n) under 7 schemes (3 generic + 4 presets), name kinds "
        "rotating; identical part: m in {1,2,3} copies of every complete ranking with n <= nmax elements under every scheme "
        "of SCHEMES_ALL with T[0]>0 and B[2]>0; sampled part: seeded random datasets under all 25 schemes; restriction "
        "part: seeded datasets made of restrictions / coarsenings of one ranking (mostly coherent).  Non-trivial: universe "
        ">= 2 elements (at least one placement decision); distinct = distinct (dataset, name kind, scheme); every pivot "
        "sequence of a triple is one evaluation.")
EXHAUSTIVE = {"quick": False, "thorough": False}
SCOPE = {"quick": "pivot sequences: all, universes n<=4.  all 700 datasets n<=3, m<=2 x 7 schemes; identical rankings n<=4; "
                  "600 sampled datasets n<=4, m<=4 x 25 schemes; 400 restriction datasets n<=4 x 25 schemes; 2000 direct "
                  "_where_should_it_be inputs",
         "thorough": "pivot sequences: all, universes n<=5.  all datasets n<=3, m<=3 (18 275) and all with exactly 4 "
                     "elements, m<=2 (20 072) x 7 schemes; identical rankings n<=5; 3000 sampled datasets n<=5, m<=5 x 25 "
                     "schemes; 2000 restriction datasets n<=5 x 25 schemes; 40 000 direct _where_should_it_be inputs"}
CHUNK = 1
# every 6th case is run a second time with every algorithm object used before on related inputs (bounded/algs.py: warm)
WARM_EVERY = {"quick": 6, "thorough": 6}
# every 8th case is run a second time with its datasets reached through a history (vlib.t2run._with_histories)
VIA_EVERY = {"quick": 8, "thorough": 8}
TIMEOUT = 900
ASSUMPTIONS = ["C11.pivot: random.choice(elements) returns a member of elements (the controlled chooser does)"]

SCHEMES_EXH = [D.GENERIC_A, D.GENERIC_B, D.GENERIC_C, D.unifying(), D.pseudo(), D.induced(), D.extended()]
# local name kinds: the shared ones plus negative integers (-1 is also the placeholder KwikSort starts from)
NAME_KINDS = dict(D.NAME_KINDS)
NAME_KINDS["neg"] = lambda n: [i - 1 for i in range(n)]
KINDS = list(NAME_KINDS)
PACK = 20


def _restriction_dataset(rng, n, m_max):
    """Rankings that are restrictions (sometimes coarsenings) of one target ranking over {0..n-1}."""
    target = D.random_ranking(rng, list(range(n)), complete=True)
    m = rng.randint(1, m_max)
    p = rng.choice([0.6, 0.8, 1.0])
    out = []
    for _ in range(m):
        r = [[x for x in b if rng.random() < p] for b in target]
        r = [b for b in r if b]
        if len(r) >= 2 and rng.random() < 0.2:       # coarsen: merge two adjacent buckets
            k = rng.randrange(len(r) - 1)
            r = r[:k] + [r[k] + r[k + 1]] + r[k + 2:]
        out.append(r)
    if not any(out):
        out.append([list(b) for b in target])
    return out


def gen_cases(tier, seed):
    quick = tier == "quick"
    nmax = 4 if quick else 5
    # ---- exhaustive datasets -------------------------------------------------------------------------------------
    streams = [D.all_datasets(3, 2)] if quick else \
        [D.all_datasets(3, 3), (d for d in D.all_datasets(4, 2) if len(D.universe_of(d)) == 4)]
    idx = 0
    for st in streams:
        pack = []
        for d in st:
            pack.append(d)
            if len(pack) == PACK:
                yield {"kind": "pack", "first": idx, "datasets": pack}
                idx += len(pack)
                pack = []
        if pack:
            yield {"kind": "pack", "first": idx, "datasets": pack}
            idx += len(pack)
    # ---- identical rankings --------------------------------------------------------------------------------------
    gi = 0
    for n in range(1, nmax + 1):
        cr = D.complete_rankings(n)
        step = 6 if n <= 4 else 12
        for k in range(0, len(cr), step):
            yield {"kind": "identical", "first": gi, "rankings": cr[k:k + step]}
            gi += step
    # ---- sampled -------------------------------------------------------------------------------------------------
    rng = random.Random(seed * 7919 + 11)
    for i in range(600 if quick else 3000):
        d = D.random_dataset(rng, nmax, 4 if quick else 5, n_min=(nmax if i % 2 else 2))
        if i % 7 == 3:
            d = d + [[list(b) for b in d[0]]]
        if i % 11 == 5:
            d = d + [[]]
        yield {"kind": "sample", "dataset": d, "namekind": KINDS[i % len(KINDS)]}
    for i in range(400 if quick else 2000):
        d = _restriction_dataset(rng, nmax if i % 2 else rng.randint(2, nmax), 4)
        yield {"kind": "sample", "dataset": d, "namekind": KINDS[(i + 2) % len(KINDS)], "restriction": True}
    # ---- direct decision kernel ----------------------------------------------------------------------------------
    for i in range((2000 if quick else 80000) // 100):
        yield {"kind": "where", "seed": rng.randrange(1 << 30), "count": 100}


# ---------------------------------------------------------------------------------------------------------------------
# definitional side
def placement(tab, x, y):
    """'tie' / 'before' / 'after': cheapest placement of x relative to y; tie preferred on equal cost, then before."""
    bef, aft, tie = tab[(x, y)]
    mn = min(bef, aft, tie)
    if tie == mn:
        return "tie"
    if bef == mn:
        return "before"
    return "after"


def coherent_ranking(universe, tab):
    """The ranking with ties whose pairwise relation is `placement`, or None when the placements are not antisymmetric
    or are not the relation of any ranking with ties."""
    universe = list(universe)
    rel = {}
    for x in universe:
        for y in universe:
            if x != y:
                rel[(x, y)] = placement(tab, x, y)
    inv = {"before": "after", "after": "before", "tie": "tie"}
    for (x, y), v in rel.items():
        if rel[(y, x)] != inv[v]:
            return None
    # in a ranking with ties the bucket of x is determined by the number of elements placed before x
    nb_before = {x: sum(1 for y in universe if y != x and rel[(y, x)] == "before") for x in universe}
    R = [[x for x in universe if nb_before[x] == v] for v in sorted(set(nb_before.values()))]
    pos = O.bucket_index(R)
    for (x, y), v in rel.items():
        want = "before" if pos[x] < pos[y] else ("after" if pos[x] > pos[y] else "tie")
        if v != want:
            return None
    return R


class _Replay(Exception):
    pass


def expected_from_pivots(universe, tab, pivots):
    """Definitional KwikSort on the logged pivots.  pivots: dict frozenset(sub-problem) -> pivot."""
    used = set()

    def rec(S):
        if S in pivots:
            p = pivots[S]
            used.add(S)
            if p not in S:
                raise _Replay("pivot %r not in its sub-problem %s" % (p, sorted(map(repr, S))))
        elif len(S) == 1:
            return [S]
        else:
            raise _Replay("no pivot was asked for the sub-problem %s" % sorted(map(repr, S)))
        groups = {"before": set(), "tie": {p}, "after": set()}
        for e in S:
            if e != p:
                groups[placement(tab, e, p)].add(e)
        out = []
        if groups["before"]:
            out += rec(frozenset(groups["before"]))
        out.append(frozenset(groups["tie"]))
        if groups["after"]:
            out += rec(frozenset(groups["after"]))
        return out

    res = rec(frozenset(universe))
    extra = [sorted(map(repr, S)) for S in pivots if S not in used]
    if extra:
        raise _Replay("pivot asked for sets that are no sub-problem of the recursion: %s" % extra)
    return tuple(res)


def _pos_status(p, q):
    if p != -1 and q != -1:
        return 0 if p < q else (1 if p > q else 2)
    if p != -1:
        return 3
    if q != -1:
        return 4
    return 5


# ---------------------------------------------------------------------------------------------------------------------
def _all_runs(run):
    """Odometer over choice points.  run(script) -> sizes of the candidate lists met.  Yields nothing; run has side effects."""
    script = []
    nruns = 0
    while True:
        sizes = run(script)
        nruns += 1
        if sizes is None or nruns > 5000:
            return nruns
        full = list(script[:len(sizes)]) + [0] * (len(sizes) - len(script))
        i = len(full) - 1
        while i >= 0 and full[i] + 1 >= sizes[i]:
            i -= 1
        if i < 0:
            return nruns
        script = full[:i] + [full[i] + 1]


def _show(c):
    return [sorted(map(repr, b)) for b in c]


def _eval(rankings, scheme, A, G, KwikSortRandom, fails, identical_of=None):
    """All pivot sequences of one (dataset, scheme).  Returns (#runs, coherent?)."""
    exp_r, _ = A.expected_names(rankings)
    universe = D.universe_of(exp_r)
    B, T = scheme
    tab = O.cost_table(universe, exp_r, B, T)
    R = coherent_ranking(universe, tab)
    R_canon = O.canon(R) if R is not None else None
    ident_canon = O.canon(identical_of) if identical_of is not None else None
    ds = A.mk_dataset(rankings)
    sch = A.mk_scheme(scheme)
    alg = KwikSortRandom()
    state = {"stop": False}

    def run(script):
        log = []

        def chooser(elements):
            k = len(log)
            idx = script[k] if k < len(script) else 0
            raw = [A.val(e) for e in elements]
            log.append((raw, idx))
            return elements[idx]            # IndexError on an empty list, like random.choice

        try:
            with G.controlled_pivots(chooser):
                cons = alg.compute_consensus_rankings(ds, sch, True)
            rs = cons.consensus_rankings
        except Exception as e:
            fails.append({"clause": "C11.raises", "site": "KwikSortRandom.compute_consensus_rankings",
                          "detail": {"exception": type(e).__name__, "msg": str(e)[:300],
                                     "pivot_log": [(list(map(repr, r)), i) for r, i in log]}})
            return None
        piv = [(raw, raw[i]) for raw, i in log]
        info = {"pivots": [{"elements": list(map(repr, raw)), "pivot": repr(p)} for raw, p in piv]}
        if len(rs) != 1:
            fails.append({"clause": "C11.partition", "site": "KwikSortRandom consensus (number of rankings)",
                          "detail": dict(info, nb_rankings=len(rs))})
            return [len(raw) for raw, _ in log]
        got = A.raw_canon(rs[0])
        info["consensus"] = _show(got)
        # -- per-step clause: definitional recursion on the logged pivots
        pivots = {}
        problem = None
        for raw, p in piv:
            S = frozenset(raw)
            if len(S) != len(raw) or S in pivots:
                problem = "sub-problem %s submitted with duplicates or twice" % sorted(map(repr, raw))
                break
            pivots[S] = p
        if problem is None and piv and frozenset(piv[0][0]) != frozenset(universe):
            problem = "first sub-problem %s is not the universe" % sorted(map(repr, piv[0][0]))
        if problem is None:
            try:
                exp = expected_from_pivots(universe, tab, pivots)
                if got != exp:
                    problem = "consensus differs from the definitional recursion on the same pivots"
                    info["expected"] = _show(exp)
            except _Replay as e:
                problem = str(e)
        if problem is not None:
            fails.append({"clause": "C11.partition", "site": "KwikSortRandom._kwik_sort", "detail": dict(info, problem=problem)})
        # -- pivot independence
        if R_canon is not None and got != R_canon:
            fails.append({"clause": "C11.prop", "site": "KwikSortRandom consensus vs coherent ranking",
                          "detail": dict(info, coherent_ranking=_show(R_canon))})
        if ident_canon is not None and got != ident_canon:
            fails.append({"clause": "C11.identical", "site": "KwikSortRandom on identical rankings",
                          "detail": dict(info, input_ranking=_show(ident_canon))})
        return [len(raw) for raw, _ in log]

    nruns = _all_runs(run)
    return nruns, R is not None


def _check_where(case, fails):
    import numpy as np
    from corankco.algorithms.kwiksort.kwiksortrandom import KwikSortRandom
    rng = random.Random(case["seed"])
    alg = KwikSortRandom()
    schemes = D.grid_schemes(rng, 6) + [D.GENERIC_A, D.GENERIC_B, D.GENERIC_C, D.unifying(), D.induced(.5)]
    arrays = [np.asarray(s, dtype=float) for s in schemes]
    evals = 0
    for i in range(case["count"]):
        m = rng.randint(1, 6)
        pm = rng.choice([0.1, 0.3, 0.6])
        hi = rng.choice([1, 4])
        p = [(-1 if rng.random() < pm else rng.randint(0, hi)) for _ in range(m)]
        o = [(-1 if rng.random() < pm else rng.randint(0, hi)) for _ in range(m)]
        k = rng.randrange(len(schemes))
        B, T = schemes[k]
        bef = sum(B[_pos_status(a, b)] for a, b in zip(o, p))
        aft = sum(B[_pos_status(b, a)] for a, b in zip(o, p))
        tie = sum(T[_pos_status(a, b)] for a, b in zip(o, p))
        mn = min(bef, aft, tie)
        exp = 0 if tie == mn else (-1 if bef == mn else 1)
        pa, oa = np.asarray(p, dtype=np.int32), np.asarray(o, dtype=np.int32)
        try:
            got = alg._where_should_it_be(pa, oa, arrays[k])
        except Exception as e:
            fails.append({"clause": "C11.decision", "site": "KwikSortRandom._where_should_it_be",
                          "detail": {"exception": type(e).__name__, "msg": str(e)[:300], "pivot": p, "other": o, "scheme": schemes[k]}})
            continue
        evals += 1
        if got != exp or pa.tolist() != p or oa.tolist() != o:
            fails.append({"clause": "C11.decision", "site": "KwikSortRandom._where_should_it_be",
                          "detail": {"pos_pivot": p, "pos_other": o, "scheme": schemes[k], "got": int(got), "expected": exp,
                                     "cost(before,after,tied) of other vs pivot": [bef, aft, tie]}})
    return evals


def _dedupe(fails):
    seen, out = set(), []
    for f in fails:
        k = (f["clause"], f["site"])
        if k not in seen:
            seen.add(k)
            out.append(f)
    return out


def check_case(case):
    from bounded import adapt as A
    from bounded import algs as G
    from corankco.algorithms.kwiksort.kwiksortrandom import KwikSortRandom
    fails = []
    evals = 0
    if case["kind"] == "where":
        evals = _check_where(case, fails)
        return {"fails": _dedupe(fails), "key": "where|%d" % case["seed"], "nkeys": max(evals - 1, 0), "evals": evals,
                "sample": case}
    if case["kind"] == "pack":
        nk = ncoh = 0
        for off, d in enumerate(case["datasets"]):
            gi = case["first"] + off
            u = D.universe_of(d)
            for si, scheme in enumerate(SCHEMES_EXH):
                kind = KINDS[(si + gi) % len(KINDS)]
                rk = D.rename(d, NAME_KINDS[kind](max(u) + 1))
                sub = []
                nr, coh = _eval(rk, scheme, A, G, KwikSortRandom, sub)
                evals += nr
                for f in sub:
                    f["detail"] = {"rankings": rk, "scheme": scheme, "namekind": kind, "what": f["detail"]}
                fails.extend(sub)
                nk += len(u) >= 2
                ncoh += coh and len(u) >= 2
        return {"fails": _dedupe(fails), "key": None, "nkeys": nk, "evals": evals,
                "sample": {"datasets": case["datasets"][:2], "schemes": "3 generic + 4 presets", "coherent": ncoh, "of": nk}}
    if case["kind"] == "identical":
        nk = 0
        for off, r in enumerate(case["rankings"]):
            gi = case["first"] + off
            n = sum(len(b) for b in r)
            for si, scheme in enumerate(D.SCHEMES_ALL):
                if not (scheme[1][0] > 0 and scheme[0][2] > 0):
                    continue
                m = 1 + (gi + si) % 3
                kind = KINDS[(si + gi) % len(KINDS)]
                names = NAME_KINDS[kind](n)
                rk = D.rename([r] * m, names)
                exp_r, _ = A.expected_names(rk)
                sub = []
                nr, coh = _eval(rk, scheme, A, G, KwikSortRandom, sub, identical_of=exp_r[0])
                evals += nr
                for f in sub:
                    f["detail"] = {"rankings": rk, "scheme": scheme, "namekind": kind, "what": f["detail"]}
                fails.extend(sub)
                nk += n >= 4 and m == 3      # disjoint from the exhaustive part (n<=3, or n=4 with m<=2)
        return {"fails": _dedupe(fails), "key": None, "nkeys": nk, "evals": evals,
                "sample": {"identical copies of": case["rankings"][:2], "schemes": "SCHEMES_ALL with T0>0 and B2>0"}}
    d = case["dataset"]
    u = D.universe_of(d)
    rk = D.rename(d, NAME_KINDS[case["namekind"]](max(u) + 1))
    ncoh = 0
    for scheme in D.SCHEMES_ALL:
        sub = []
        nr, coh = _eval(rk, scheme, A, G, KwikSortRandom, sub)
        evals += nr
        ncoh += coh
        for f in sub:
            f["detail"] = {"rankings": rk, "scheme": scheme, "what": f["detail"]}
        fails.extend(sub)
    key = str(rk) if len(u) >= 2 else None
    return {"fails": _dedupe(fails), "key": key, "nkeys": (len(D.SCHEMES_ALL) - 1) if key else 0, "evals": evals,
            "sample": {"rankings": rk, "schemes": "all of domains.SCHEMES_ALL", "coherent_under": ncoh}}

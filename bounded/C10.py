"""C10 bounded tier: PickAPerm returns exactly the best input rankings.

Clauses
  C10.guard    incomplete dataset: accepted iff the scheme is a positive multiple of the unifying scheme ON BOTH
               VECTORS (oracle.proportional, exact Fractions), otherwise refused with
               InompleteRankingsIncompatibleWithScoringSchemeException; a complete dataset is never refused
  C10.inputs   every returned ranking is one of the input rankings, completed with one last bucket holding its
               missing elements when the dataset is incomplete (compared as tuples of frozensets of raw values,
               with the element types the Dataset is documented to produce)
  C10.prop     every returned ranking has the minimum oracle Kemeny score among the (completed) input rankings;
               return_at_most_one_ranking=True -> exactly one ranking; False -> the set of distinct returned rankings
               equals the set of distinct minimal (completed) input rankings (duplicates in the returned list are
               tolerated)
Stale `positions` of the returned Ranking objects are the business of another module (C16) and are ignored here.
"""
import random

from bounded import domains as D
from bounded import oracle as O

ID = "C10"

# schemes whose B vector is a positive multiple of the unifying B vector but whose T vector is not the same multiple
T_DIFFERENT = [
    [[0., 1., 1., 0., 1., 1.], [0., 0., 0., 1., 1., 0.]],      # differs from the unifying scheme on T[0] = T[1] only
    [[0., 1., 1., 0., 1., 1.], [3., 3., 0., 1., 1., 0.]],
    [[0., 2., 2., 0., 2., 2.], [0., 0., 0., .5, .5, .5]],
    [[0., 1., 1., 0., 1., 1.], [1., 1., 0., 1., 1., 1.]],
    [[0., 1., 1., 0., 1., 1.], [.5, .5, 0., .5, .5, 0.]],
]
ACCEPTED = [D.unifying(), D.scale(D.unifying(), 2.), D.scale(D.unifying(), .25), D.scale(D.unifying(), 3.),
            D.scale(D.unifying(), 1. / 8192)]
OTHERS = [D.pseudo(), D.induced(), D.extended(), D.unifying(.5), D.pseudo(.5), D.induced(.5),
          D.GENERIC_A, D.GENERIC_B, D.GENERIC_C] + D.BOUNDARY + [D.scale(D.pseudo(), 2.), D.scale(D.induced(), .25)]
# near ties: a tie costs 1 + 2**-33 where an inversion costs 1, so scores that differ do so by ~1e-10 relative (exact in
# double precision for these counts): "minimum" and "equal to the minimum" must be exact comparisons, not tolerant ones
NEAR_TIE = [D.pseudo(1. + 2. ** -33), D.pseudo(1. - 2. ** -33)]
SCHEMES_QUICK = ACCEPTED[:3] + T_DIFFERENT[:5] + [D.pseudo(), D.induced(), D.extended(), D.unifying(.5), D.GENERIC_B,
                                              D.GENERIC_C, D.BOUNDARY[0], D.BOUNDARY[3]] + NEAR_TIE
SCHEMES_ALL = ACCEPTED + T_DIFFERENT + OTHERS + NEAR_TIE

RULE = ("one case = one dataset, evaluated under every scheme of the tier's scheme list and both values of "
        "return_at_most_one_ranking. quick: every dataset over R(3) with 1..2 rankings (canonical names), plus 400 "
        "seeded datasets n<=5, m<=4 cycling through 6 element-name kinds (canonical, permuted ints, hash-colliding "
        "ints, strings, integer-like strings, mixed), 5 datasets built with keep_element_types=True where 1 and '1' are "
        "different elements, 16 schemes (incl. two near-tie schemes, tie cost 1 +- 2**-33 (unifying x1, x2, x1/4; three schemes proportional "
        "to unifying on B only; presets; generic / boundary schemes). thorough: R(3) m<=3, R(4) m<=2 (datasets of 3 "
        "rankings and those over 4 names under a rotating window of 9 of the 27 schemes), 20000 samples n<=6, m<=5 "
        "under all 27 schemes. Non-trivial = universe of >= 2 elements (at least one pair is scored); distinct = "
        "distinct (dataset, scheme) pair.")
SCOPE = {"quick": "all datasets n<=3 m<=2 (701) + 400 sampled n<=5 m<=4; 14 schemes; both flag values",
         "thorough": "all datasets n<=3 m<=2 x 27 schemes; n<=3 m=3 (17.6k) and n=4 m<=2 (21.9k) x 9 rotating "
                     "schemes; 20000 sampled n<=6 m<=5 x 29 schemes; both flag values"}
EXHAUSTIVE = {"quick": False, "thorough": False}
CHUNK = 4
# every 4th case is run a second time with its datasets reached through a history (vlib.t2run._with_histories)
VIA_EVERY = {"quick": 4, "thorough": 4}


def _typed_twin_cases(si):
    """datasets built with keep_element_types=True in which the int 1 and the string "1" are two different elements:
    rankings that differ only by which twin comes first print alike but are different rankings with different scores"""
    twins = [
        [[[1], ["1"]], [["1"], [1]], [["1"], [1]]],
        [[["1"], [1]], [[1], ["1"]], [[1], ["1"]], [["1"], [1]], [["1"], [1]]],
        [[[1], ["1"], [2]], [["1"], [1], [2]], [["1"], [2], [1]], [["1"], [1], [2]]],
        [[[1, 2], ["1"]], [["1", 2], [1]], [["1"], [1, 2]], [["1", 2], [1]]],
        [[["a"], [1], ["1"]], [["a"], ["1"], [1]], [["1"], ["a"], [1]], [["a"], ["1"], [1]]],
        # integer-like STRING names kept as strings, incomplete: the unified rankings must keep them as strings too
        [[["1"], ["2"], ["3"], ["4"]], [["4"], ["1"]], [["2"], ["3", "4"]], [["4"], ["1"]]],
        [[["10"], ["20"]], [["20"], ["30"], ["10"]], [["30"]]],
    ]
    for d in twins:
        yield {"rankings": d, "schemes": si, "namekind": "typed twins (keep_element_types)", "keep_types": True}


def gen_cases(tier, seed):
    quick = tier == "quick"
    si = "quick" if quick else "all"
    idx = 0
    yield from _typed_twin_cases(si)
    for d in D.all_datasets(3, 2 if quick else 3):
        yield {"rankings": d, "schemes": si if quick or len(d) < 3 else "w%d" % idx, "namekind": "canon"}
        idx += 1
    if not quick:
        for d in D.all_datasets(4, 2):
            if 3 in D.universe_of(d):           # the others were enumerated above
                yield {"rankings": d, "schemes": "w%d" % idx, "namekind": "canon"}
                idx += 1
    rng = random.Random(seed * 104729 + 10)
    kinds = list(D.NAME_KINDS)
    count = 400 if quick else 20000
    seen = set()
    for i in range(count):
        d = D.random_dataset(rng, 5 if quick else 6, 4 if quick else 5,
                             complete=(i % 4 == 0))
        if i % 7 == 3 and len(d) >= 2:
            d[rng.randrange(len(d))] = [list(b) for b in d[0]]        # duplicated ranking
        kind = kinds[i % len(kinds)]
        if not D.universe_of(d):
            continue                                # the duplication replaced the only non-empty ranking
        names = D.NAME_KINDS[kind](max(D.universe_of(d)) + 1)
        d = D.rename(d, names)
        if kind == "canon" and max(D.universe_of(d)) <= 3 and len(d) <= 3:
            continue                                # inside (or possibly inside) the enumerated part
        if repr(d) in seen:
            continue
        seen.add(repr(d))
        yield {"rankings": d, "schemes": si, "namekind": kind}


def _refusal_site(scheme):
    if O.proportional([scheme[0], scheme[0]], [D.unifying()[0], D.unifying()[0]]):
        return "PickAPerm refusal, T vector ignored"
    return "PickAPerm refusal"


def _schemes(spec):
    if spec == "quick":
        return SCHEMES_QUICK
    if spec == "all":
        return SCHEMES_ALL
    k = int(spec[1:])                       # "w<k>": a rotating window of 9 schemes
    return [SCHEMES_ALL[(5 * k + j) % len(SCHEMES_ALL)] for j in range(9)]


def check_case(case):
    from bounded import adapt as A
    from corankco.algorithms.pickaperm.pickaperm import (PickAPerm,
                                                         InompleteRankingsIncompatibleWithScoringSchemeException)
    rankings = case["rankings"]
    schemes = _schemes(case["schemes"])
    keep = bool(case.get("keep_types"))
    exp_r = rankings if keep else A.expected_names(rankings)[0]
    universe = D.universe_of(exp_r)
    complete = D.is_complete(exp_r)
    unified = [O.unify(r, universe) for r in exp_r]
    unified_canon = [O.canon(r) for r in unified]
    fails = []
    evals = 0

    def fail(clause, site, scheme, one, **detail):
        detail.update({"scheme": scheme, "return_at_most_one_ranking": one, "rankings_as_given": rankings})
        fails.append({"clause": clause, "site": site, "detail": detail})

    for scheme in schemes:
        accept = complete or O.proportional(scheme, D.unifying())
        scores = [O.kemeny(u, exp_r, scheme[0], scheme[1]) for u in unified]
        best = min(scores)
        minimal = set(c for c, s in zip(unified_canon, scores) if s == best)
        for one in (True, False):
            evals += 1
            if keep:
                from corankco.dataset import Dataset
                ds = Dataset([A.mk_ranking(r) for r in rankings], keep_element_types=True)
            else:
                ds = A.mk_dataset(rankings)
            try:
                cons = PickAPerm().compute_consensus_rankings(ds, A.mk_scheme(scheme), one)
            except InompleteRankingsIncompatibleWithScoringSchemeException:
                if accept:
                    fail("C10.guard", "PickAPerm acceptance", scheme, one,
                         observed="refused", expected="accepted", complete=complete)
                continue
            except Exception as e:  # repo exception of an undocumented kind
                fail("C10.prop", "PickAPerm crash", scheme, one, observed="%s: %s" % (type(e).__name__, e))
                continue
            if not accept:
                fail("C10.guard", _refusal_site(scheme), scheme, one, observed="accepted",
                     expected="InompleteRankingsIncompatibleWithScoringSchemeException")
                continue
            got = [A.raw_canon(r) for r in cons.consensus_rankings]
            got_txt = [[sorted(map(repr, b)) for b in r] for r in got]
            if len(got) == 0:
                fail("C10.prop", "PickAPerm returned set", scheme, one, observed="no ranking returned")
                continue
            foreign = [g for g in got if g not in set(unified_canon)]
            if foreign:
                fail("C10.inputs", "PickAPerm returned ranking", scheme, one, observed=got_txt,
                     expected_one_of=[[sorted(map(repr, b)) for b in r] for r in unified_canon])
                continue
            worse = [g for g in got if g not in minimal]
            if worse:
                fail("C10.prop", "PickAPerm minimality", scheme, one, observed=got_txt,
                     scores_of_inputs=scores, minimum=best)
                continue
            if one:
                if len(got) != 1:
                    fail("C10.prop", "PickAPerm at most one", scheme, one, observed=got_txt)
            elif set(got) != minimal:
                fail("C10.prop", "PickAPerm completeness", scheme, one, observed=got_txt,
                     expected=[[sorted(map(repr, b)) for b in r] for r in minimal],
                     duplicates_in_output=len(got) != len(set(got)))
    nk = len(schemes) if len(universe) >= 2 else 0
    return {"fails": fails, "key": None, "nkeys": nk, "evals": evals,
            "sample": {"rankings": rankings, "namekind": case["namekind"], "schemes": len(schemes)}}

"""C02 bounded tier: pairwise cost table == definition; mirror-consistent; same from positions / bucket ids; selected
entries sum to the Kemeny score.

Clauses
  C02.matrices          Dataset.get_positions / get_bucket_ids: shape (n, m), int32, entry -1 iff the element is absent
                        from the ranking, entries >= 0 otherwise, and for x, y both ranked in r the sign of the difference
                        of their entries is the sign of the difference of their bucket indices; mapping_id_elem is a
                        bijection {0..n-1} -> universe (with the element types the Dataset is documented to produce)
  C02.prop              PairwiseBasedAlgorithm.pairwise_cost_matrix(matrix, scheme)[i][j] == (before, after, tied)(e_i, e_j)
                        of the definitional oracle (ids mapped through mapping_id_elem), shape (n, n, 3), zero diagonal;
                        for both matrices
  C02.table.mirror      M[j][i] == (M[i][j][1], M[i][j][0], M[i][j][2])
  C02.same_from_ids     table built from positions == table built from bucket ids
  C02.wrapper.weights   weights=None == explicit ones; non-unit dyadic weights == weighted definitional table
  C02.table.frame       the wrapper / kernel leave positions, scheme array and weights unchanged
  C02.sum_is_score      for every complete candidate over the universe (all of them for n <= 4, a seeded sample above):
                        sum of the entries selected by the candidate's pairwise placements == oracle K == get_kemeny_score
  C02.kernel            _pairwise_cost_matrix_only (compiled) and its .py_func on random int32 position matrices
                        (entries -1..4), random dyadic weights and random generic scheme arrays obeying the kernel's
                        precondition (S[1][0]==S[1][1], S[1][3]==S[1][4]) against a definitional computation made from
                        the positions matrix alone
"""
import random

from bounded import domains as D
from bounded import oracle as O

ID = "C02"
RULE = ("exhaustive part: every dataset (sequence of 1..m rankings of R(n), not all empty), each under the three generic "
        "schemes and all six element-name kinds (two kinds per scheme, rotating); sampled part: seeded random datasets, "
        "each under every scheme of domains.SCHEMES_ALL with one name kind (rotating), with random dyadic weights; kernel "
        "part: random int32 matrices. A dataset evaluation is non-trivial when the universe has >= 2 elements (at least "
        "one off-diagonal table entry); distinct = distinct (dataset, name kind, scheme) triple / distinct kernel input.")
EXHAUSTIVE = {"quick": False, "thorough": False}
SCOPE = {"quick": "all 700 datasets n<=3, m<=2 x 3 generic schemes x 2 name kinds; 300 sampled datasets n<=5, m<=4 (+ "
                  "duplicated / empty rankings) x 25 schemes; candidates: all complete rankings for n<=4, 40 sampled for "
                  "n=5; 600 kernel inputs n<=6, m<=5, entries -1..4",
         "thorough": "all datasets n<=3, m<=3 (18 275) and all with exactly 4 elements, m<=2 (20 072) x 3 generic schemes "
                     "x 2 name kinds; 5000 sampled datasets n<=6, m<=5 x 25 schemes; candidates: all for n<=4, 40 sampled "
                     "above; 6000 kernel inputs"}
CHUNK = 1
TIMEOUT = 600

GENERICS = [D.GENERIC_A, D.GENERIC_B, D.GENERIC_C]
KINDS = list(D.NAME_KINDS)
WEIGHT_VALUES = [0.5, 1.0, 1.5, 2.0, 3.0, 0.25]
PACK = 25


def _gen_cases_main(tier, seed):
    # ---- exhaustive datasets, packed -----------------------------------------------------------------------------
    if tier == "quick":
        streams = [D.all_datasets(3, 2)]
    else:
        streams = [D.all_datasets(3, 3), (d for d in D.all_datasets(4, 2) if len(D.universe_of(d)) == 4)]
    idx = 0
    for st in streams:
        pack = []
        for d in st:
            pack.append(d)
            if len(pack) == PACK:
                yield {"kind": "pack", "first": idx, "datasets": pack}
                idx += len(pack)
                pack = []
        if pack:
            yield {"kind": "pack", "first": idx, "datasets": pack}
            idx += len(pack)
    # ---- sampled datasets ----------------------------------------------------------------------------------------
    rng = random.Random(seed * 7919 + 2)
    count = 300 if tier == "quick" else 5000
    for i in range(count):
        d = D.random_dataset(rng, 5 if tier == "quick" else 6, 4 if tier == "quick" else 5)
        if i % 7 == 3:          # duplicated ranking
            d = d + [[list(b) for b in d[0]]]
        if i % 11 == 5:         # an empty ranking inside the dataset
            d = d + [[]]
        w = [rng.choice(WEIGHT_VALUES) for _ in d]
        yield {"kind": "sample", "dataset": d, "namekind": KINDS[i % len(KINDS)], "weights": w,
               "cseed": rng.randrange(1 << 30)}
    # ---- kernel inputs -------------------------------------------------------------------------------------------
    count = 600 if tier == "quick" else 6000
    per = 20
    for i in range(count // per):
        yield {"kind": "kernel", "seed": rng.randrange(1 << 30), "count": per}


# ---------------------------------------------------------------------------------------------------------------------
def _sign(v):
    return (v > 0) - (v < 0)


def _pos_status(p, q):
    """Status of the ordered pair from two matrix entries (-1 = unranked); written from the ScoringScheme docstring."""
    if p != -1 and q != -1:
        return 0 if p < q else (1 if p > q else 2)
    if p != -1:
        return 3
    if q != -1:
        return 4
    return 5


def _table_from_positions(pos, S, w):
    n = len(pos)
    m = len(pos[0]) if n else 0
    out = [[[0.0, 0.0, 0.0] for _ in range(n)] for _ in range(n)]
    for i in range(n):
        for j in range(n):
            if i == j:
                continue
            for r in range(m):
                out[i][j][0] += w[r] * S[0][_pos_status(pos[i][r], pos[j][r])]
                out[i][j][1] += w[r] * S[0][_pos_status(pos[j][r], pos[i][r])]
                out[i][j][2] += w[r] * S[1][_pos_status(pos[i][r], pos[j][r])]
    return out


def _check_matrices(ds, exp_r, universe, fails, A):
    """C02.matrices.  Returns (ids: list id -> raw value, P, Bk) or None if the id map is unusable."""
    n, m = len(universe), len(exp_r)
    mie = ds.mapping_id_elem
    ids = None
    try:
        ids = [A.val(mie[i]) for i in range(n)]
    except (KeyError, IndexError) as e:
        fails.append({"clause": "C02.matrices", "site": "Dataset.mapping_id_elem",
                      "detail": {"problem": "ids 0..n-1 not all mapped", "exc": repr(e), "n": n}})
        return None
    if len(mie) != n or set((type(v), v) for v in ids) != set((type(v), v) for v in universe):
        fails.append({"clause": "C02.matrices", "site": "Dataset.mapping_id_elem",
                      "detail": {"got": [repr(v) for v in ids], "size": len(mie),
                                 "expected_universe": [repr(v) for v in universe]}})
        return None
    bks = [O.bucket_index(r) for r in exp_r]
    mats = {}
    for site, getter in (("Dataset.get_positions", ds.get_positions), ("Dataset.get_bucket_ids", ds.get_bucket_ids)):
        M = getter()
        mats[site] = M
        if tuple(M.shape) != (n, m) or str(M.dtype) != "int32":
            fails.append({"clause": "C02.matrices", "site": site,
                          "detail": {"shape": list(M.shape), "dtype": str(M.dtype), "expected_shape": [n, m]}})
            return None
        bad = None
        for j in range(m):
            bk = bks[j]
            for i in range(n):
                v = int(M[i][j])
                if (ids[i] in bk) != (v != -1) or v < -1:
                    bad = {"ranking": j, "element": repr(ids[i]), "entry": v, "ranked": ids[i] in bk}
                    break
            if bad:
                break
            for i in range(n):
                for k in range(n):
                    if ids[i] in bk and ids[k] in bk:
                        if _sign(int(M[i][j]) - int(M[k][j])) != _sign(bk[ids[i]] - bk[ids[k]]):
                            bad = {"ranking": j, "x": repr(ids[i]), "y": repr(ids[k]), "entries": [int(M[i][j]), int(M[k][j])],
                                   "buckets": [bk[ids[i]], bk[ids[k]]]}
                            break
                if bad:
                    break
            if bad:
                break
        if bad:
            bad["matrix"] = M.tolist()
            fails.append({"clause": "C02.matrices", "site": site, "detail": bad})
    return ids, mats["Dataset.get_positions"], mats["Dataset.get_bucket_ids"]


def _compare_table(M, tab, ids, clause, site, fails, extra=None):
    n = len(ids)
    if tuple(M.shape) != (n, n, 3):
        fails.append({"clause": clause, "site": site, "detail": {"shape": list(M.shape), "expected": [n, n, 3]}})
        return False
    for i in range(n):
        for j in range(n):
            got = [float(M[i][j][k]) for k in range(3)]
            exp = [0.0, 0.0, 0.0] if i == j else [float(v) for v in tab[(ids[i], ids[j])]]
            if got != exp:
                det = {"x": repr(ids[i]), "y": repr(ids[j]), "ids": [i, j], "got(before,after,tied)": got,
                       "expected": exp}
                if extra:
                    det.update(extra)
                fails.append({"clause": clause, "site": site, "detail": det})
                return False
    return True


def _eval_dataset(rankings, scheme, weights, cands, A, mods, fails):
    """One (dataset, scheme) evaluation.  Returns number of repo executions."""
    import numpy as np
    PBA, KCF = mods
    exp_r, _conv = A.expected_names(rankings)
    universe = D.universe_of(exp_r)
    n = len(universe)
    ds = A.mk_dataset(rankings)
    sch = A.mk_scheme(scheme)
    evals = 2
    got = _check_matrices(ds, exp_r, universe, fails, A)
    if got is None:
        return evals
    ids, P, Bk = got
    B, T = scheme
    tab = O.cost_table(universe, exp_r, B, T)
    tables = {}
    for site, mat in (("pairwise_cost_matrix(get_positions)", P), ("pairwise_cost_matrix(get_bucket_ids)", Bk)):
        keep = mat.copy()
        try:
            M = PBA.pairwise_cost_matrix(mat, sch)
        except Exception as e:      # repo code refusing its own matrices
            fails.append({"clause": "C02.prop", "site": site, "detail": {"exception": type(e).__name__, "msg": str(e)[:300]}})
            continue
        evals += 1
        if not (mat == keep).all():
            fails.append({"clause": "C02.table.frame", "site": site, "detail": {"before": keep.tolist(), "after": mat.tolist()}})
        if not _compare_table(M, tab, ids, "C02.prop", site, fails):
            # diagnose mirror consistency separately (the oracle table is mirror-consistent for valid schemes)
            if tuple(M.shape) == (n, n, 3):
                for i in range(n):
                    for j in range(i + 1, n):
                        a, b = M[i][j], M[j][i]
                        if not (a[0] == b[1] and a[1] == b[0] and a[2] == b[2]):
                            fails.append({"clause": "C02.table.mirror", "site": site,
                                          "detail": {"ids": [i, j], "M[i][j]": a.tolist(), "M[j][i]": b.tolist()}})
                            break
                    else:
                        continue
                    break
        tables[site] = M
    # the table as it is handed over by the graph builders (what the exact algorithms and ParCons actually use)
    for fname in ("graph_of_elements", "graph_of_elements_with_robust_arcs"):
        fn = getattr(PBA, fname, None)
        if fn is None:
            continue
        try:
            res = fn(P.copy(), sch)
        except Exception as e:
            fails.append({"clause": "C02.prop", "site": "%s(...)[1]" % fname,
                          "detail": {"exception": type(e).__name__, "msg": str(e)[:300]}})
            continue
        evals += 1
        _compare_table(res[1], tab, ids, "C02.prop", "%s(...)[1]" % fname, fails)
    # a dataset that keeps the element types it is given (the sub-problems of ParCons / of the optimised exact algorithm
    # are built that way): same matrices, same table
    try:
        from corankco.dataset import Dataset
        ds_k = Dataset([A.mk_ranking(r) for r in exp_r], keep_element_types=True)
        got_k = _check_matrices(ds_k, exp_r, universe, fails, A)
        if got_k is not None:
            ids_k, P_k, _Bk_k = got_k
            evals += 1
            _compare_table(PBA.pairwise_cost_matrix(P_k, sch), tab, ids_k, "C02.prop",
                           "pairwise_cost_matrix(get_positions), Dataset(keep_element_types=True)", fails)
    except TypeError:
        pass            # a Dataset constructor without that option
    if len(tables) == 2:
        Mp, Mb = tables["pairwise_cost_matrix(get_positions)"], tables["pairwise_cost_matrix(get_bucket_ids)"]
        if Mp.shape != Mb.shape or not (Mp == Mb).all():
            fails.append({"clause": "C02.same_from_ids", "site": "pairwise_cost_matrix",
                          "detail": {"from_positions": Mp.tolist(), "from_bucket_ids": Mb.tolist()}})
    # ---- weights ------------------------------------------------------------------------------------------------
    if weights is not None:
        m = len(exp_r)
        try:
            ones = np.ones(m, dtype=float)
            M1 = PBA.pairwise_cost_matrix(P, sch, ones)
            evals += 1
            _compare_table(M1, tab, ids, "C02.wrapper.weights", "pairwise_cost_matrix(weights=ones)", fails)
            w = np.asarray(weights, dtype=float)
            wkeep = w.copy()
            Mw = PBA.pairwise_cost_matrix(Bk, sch, w)
            evals += 1
            if not (w == wkeep).all():
                fails.append({"clause": "C02.table.frame", "site": "pairwise_cost_matrix(weights)",
                              "detail": {"before": wkeep.tolist(), "after": w.tolist()}})
            tabw = O.cost_table(universe, exp_r, B, T, weights=list(weights))
            _compare_table(Mw, tabw, ids, "C02.wrapper.weights", "pairwise_cost_matrix(weights=w)", fails,
                           {"weights": list(weights)})
        except Exception as e:
            fails.append({"clause": "C02.wrapper.weights", "site": "pairwise_cost_matrix(weights)",
                          "detail": {"exception": type(e).__name__, "msg": str(e)[:300]}})
    # ---- sum of selected entries == Kemeny score -----------------------------------------------------------------
    M = tables.get("pairwise_cost_matrix(get_positions)")
    if M is not None and tuple(M.shape) == (n, n, 3) and cands:
        kcf = KCF(sch)
        idx = {v: i for i, v in enumerate(ids)}
        Ml = M.tolist()
        for c in cands:
            cand = [[universe[x] for x in b] for b in c]
            pc = O.bucket_index(cand)
            total = 0.0
            for a in range(n):
                for b in range(a + 1, n):
                    x, y = universe[a], universe[b]
                    cell = Ml[idx[x]][idx[y]]
                    total += cell[0] if pc[x] < pc[y] else (cell[1] if pc[x] > pc[y] else cell[2])
            expect = float(O.kemeny(cand, exp_r, B, T))
            evals += 1
            if total != expect:
                fails.append({"clause": "C02.sum_is_score", "site": "selected entries vs definition K",
                              "detail": {"candidate": cand, "sum_selected": total, "K": expect}})
                break
            try:
                ks = float(kcf.get_kemeny_score(A.mk_ranking(cand), ds))
            except Exception as e:
                fails.append({"clause": "C02.sum_is_score", "site": "get_kemeny_score raised",
                              "detail": {"candidate": cand, "exception": type(e).__name__, "msg": str(e)[:300]}})
                break
            if total != ks:
                fails.append({"clause": "C02.sum_is_score", "site": "selected entries vs get_kemeny_score",
                              "detail": {"candidate": cand, "sum_selected": total, "get_kemeny_score": ks, "K": expect}})
                break
    return evals


def _candidates(n, rng):
    if n <= 4:
        return D.complete_rankings(n)
    return [D.random_ranking(rng, list(range(n)), complete=True) for _ in range(40)]


def _check_kernel(case, fails):
    import numpy as np
    from corankco.algorithms.pairwisebasedalgorithm import _pairwise_cost_matrix_only as kern
    rng = random.Random(case["seed"])
    grid = [0., .5, 1., 2., 3., .25, 8., 64.]
    evals = 0
    nk = 0
    for _ in range(case["count"]):
        n = rng.randint(1, 6)
        m = rng.randint(1, 5)
        p_miss = rng.choice([0.1, 0.3, 0.6])
        pos = [[(-1 if rng.random() < p_miss else rng.randint(0, 4)) for _ in range(m)] for _ in range(n)]
        b = [rng.choice(grid) for _ in range(6)]
        t = [rng.choice(grid) for _ in range(6)]
        t[1] = t[0]
        t[4] = t[3]
        S = [b, t]
        w = [rng.choice(WEIGHT_VALUES) for _ in range(m)]
        exp = _table_from_positions(pos, S, w)
        for site, f in (("_pairwise_cost_matrix_only (compiled)", kern),
                        ("_pairwise_cost_matrix_only.py_func", kern.py_func)):
            P = np.asarray(pos, dtype=np.int32).reshape(n, m)
            Sa = np.asarray(S, dtype=np.float64)
            wa = np.asarray(w, dtype=np.float64)
            try:
                M = f(P, Sa, wa, n, m)
            except Exception as e:
                fails.append({"clause": "C02.kernel", "site": site,
                              "detail": {"exception": type(e).__name__, "msg": str(e)[:300], "pos": pos, "S": S, "w": w}})
                continue
            evals += 1
            if not ((P == np.asarray(pos, dtype=np.int32).reshape(n, m)).all() and (Sa == np.asarray(S)).all()
                    and (wa == np.asarray(w)).all()):
                fails.append({"clause": "C02.table.frame", "site": site, "detail": {"pos": pos, "S": S, "w": w}})
            if tuple(M.shape) != (n, n, 3) or M.tolist() != exp:
                bad = None
                if tuple(M.shape) == (n, n, 3):
                    for i in range(n):
                        for j in range(n):
                            if M[i][j].tolist() != exp[i][j]:
                                bad = {"i": i, "j": j, "got": M[i][j].tolist(), "expected": exp[i][j]}
                                break
                        if bad:
                            break
                fails.append({"clause": "C02.kernel", "site": site,
                              "detail": {"pos": pos, "S": S, "w": w, "shape": list(M.shape), "first_difference": bad}})
        if n >= 2:
            nk += 1
    return evals, nk


def _check_case_main(case):
    from bounded import adapt as A
    fails = []
    if case["kind"] == "kernel":
        evals, nk = _check_kernel(case, fails)
        fails = _dedupe(fails)
        return {"fails": fails, "key": "kernel|%d" % case["seed"], "nkeys": max(nk - 1, 0), "evals": evals,
                "sample": case}
    from corankco.algorithms.pairwisebasedalgorithm import PairwiseBasedAlgorithm
    from corankco.kemeny_score_computation import KemenyComputingFactory
    mods = (PairwiseBasedAlgorithm, KemenyComputingFactory)
    evals = 0
    if case["kind"] == "pack":
        nk = 0
        for off, d in enumerate(case["datasets"]):
            gi = case["first"] + off
            u = D.universe_of(d)
            n_names = max(u) + 1
            for si, scheme in enumerate(GENERICS):
                for half in range(2):
                    kind = KINDS[(2 * si + half + gi) % len(KINDS)]
                    names = D.NAME_KINDS[kind](n_names)
                    rk = D.rename(d, names)
                    cs = None
                    if half == 0:
                        # candidates over the dataset's universe (indices into universe_of order)
                        cs = D.complete_rankings(len(u))
                    w = [WEIGHT_VALUES[(gi + k + si) % len(WEIGHT_VALUES)] for k in range(len(d))] if half else None
                    sub = []
                    evals += _eval_dataset(rk, scheme, w, cs, A, mods, sub)
                    for f in sub:
                        f["detail"] = {"rankings": rk, "scheme": scheme, "namekind": kind, "what": f["detail"]}
                    fails.extend(sub)
                    if len(u) >= 2:
                        nk += 1
        return {"fails": _dedupe(fails), "key": None, "nkeys": nk, "evals": evals,
                "sample": {"datasets": case["datasets"][:2], "schemes": "3 generic", "namekinds": "all six, rotating"}}
    # sample
    d = case["dataset"]
    u = D.universe_of(d)
    n_names = max(u) + 1
    names = D.NAME_KINDS[case["namekind"]](n_names)
    rk = D.rename(d, names)
    crng = random.Random(case["cseed"])
    cands = _candidates(len(u), crng)
    for si, scheme in enumerate(D.SCHEMES_ALL):
        sub = []
        evals += _eval_dataset(rk, scheme, case["weights"] if si % 2 == 0 else None,
                               cands if (len(u) <= 4 or si % 4 == 0) else cands[:5], A, mods, sub)
        for f in sub:
            f["detail"] = {"rankings": rk, "scheme": scheme, "what": f["detail"]}
        fails.extend(sub)
    key = "%s|%s" % (rk, case["weights"]) if len(u) >= 2 else None
    return {"fails": _dedupe(fails), "key": key, "nkeys": (len(D.SCHEMES_ALL) - 1) if key else 0, "evals": evals,
            "sample": {"rankings": rk, "weights": case["weights"], "schemes": "all of domains.SCHEMES_ALL"}}


def _dedupe(fails):
    """Keep the first fail per (clause, site) inside one case (the runner counts across cases)."""
    seen, out = set(), []
    for f in fails:
        k = (f["clause"], f["site"])
        if k not in seen:
            seen.add(k)
            out.append(f)
    return out


def gen_cases(tier, seed):
    from bounded import history
    yield from _gen_cases_main(tier, seed)
    yield from history.history_cases(ID, tier, seed)


def check_case(case):
    if case.get("kind") == "history":
        from bounded import history
        return history.check_history(case)
    return _check_case_main(case)

"""C15 bounded tier: computing a consensus never modifies its inputs; results are repeatable.

Clauses
  C15.prop        frame: a deep snapshot of the public state of the Dataset (rankings as tuples of frozensets in order,
                  every ranking's positions / domain / nb_elements / len, universe, id maps both ways, counts, flags,
                  name, position and bucket-id matrices) and of the ScoringScheme (penalty vectors) is identical before
                  and after: every algorithm configuration of algs.CONFIGS (also when it refuses / raises), reading
                  consensus.kemeny_score and consensus.description(), both partitions, unified_rankings,
                  unified_dataset, sub_problem_from_elements / _from_ids, get_positions / get_bucket_ids, descriptions,
                  a direct Kemeny score.  site = the operation.
  C15.prop.seq    every sequence of <= 2 (thorough 3) operations out of 9 on SHARED dataset + scheme objects gives, for
                  its last operation, the same result as that operation on FRESH copies (consensus rankings as a
                  multiset of tuples of frozensets, score, partitions, derived rankings; an exception counts as a
                  result), and leaves the snapshot unchanged.  site = "<last op> after <previous op>".
  C15.twice       every configuration without random pivots returns the same consensus (multiset of rankings, score)
                  when the same algorithm object is called twice on the same inputs.  site = configuration.
Configurations that raise (documented refusals of a scheme on incomplete data, and the crashes of the unchanged tree that
belong to other properties: cplex selection D7/D8, D5) are recorded as not run; only their frame is checked.
"""
import random

from bounded import domains as D

ID = "C15"
RULE = ("frames: every dataset with n<=3, m<=2 (701; name kind and scheme cycling over 6 name kinds x 9 schemes, every "
        "dataset additionally under the unifying scheme when incomplete) x 19 algorithm configurations (cplex ones on "
        "the stand-in, asked for a single ranking from 5 elements on) x {run, run again, score, description} + 9 read / partition operations, snapshot compared after "
        "each; sequences: the same datasets x all sequences of <= 2 (thorough 3) of 9 operations (BioConsert, BioCo, "
        "Borda, Copeland, PickAPerm, ParCons(aux=BioCo), both partitions, derived datasets, direct score + "
        "description) on shared objects vs fresh copies. Seeded datasets n<=5, m<=4 on top. Non-trivial = universe of "
        ">= 2 elements; distinct = distinct (dataset, scheme, operation) resp. (dataset, scheme, sequence).")
EXHAUSTIVE = {"quick": False, "thorough": False}
SCOPE = {"quick": "701 datasets (n<=3, m<=2) + 150 sampled (n<=5, m<=4): frames over 19 configurations + 9 operations; "
                  "all 90 sequences of length <= 2 over 9 operations, 1 to 2 schemes per dataset",
         "thorough": "701 datasets x 2 to 3 schemes + 2000 sampled (n<=6, m<=5): frames; all 819 sequences of length <= 3 "
                     "over 9 operations (sampled datasets: length <= 2)"}
CHUNK = 2
# every 6th case is run a second time with every algorithm object used before on related inputs (bounded/algs.py: warm)
WARM_EVERY = {"quick": 6, "thorough": 6}
TIMEOUT = 900

SEQ_OPS = ["alg:BioConsert", "alg:BioCo", "alg:Borda", "alg:Copeland", "alg:PickAPerm", "alg:ParCons(bound=0,aux=BioCo)",
           "partitions", "derived", "score"]


def passthrough(e):
    """The runner's per-case alarm (CaseTimeout) must never be taken for an exception of the code under test."""
    if type(e).__name__ == "CaseTimeout":
        raise e


def gen_cases(tier, seed):
    quick = tier == "quick"
    kinds = list(D.NAME_KINDS)
    schemes = D.SCHEMES_QUICK if quick else D.SCHEMES_ALL
    base = list(D.all_datasets(3, 2))
    rng = random.Random(seed * 3571 + 5)
    items = []
    for i, ds in enumerate(base):
        kind = kinds[i % len(kinds)]
        rd = D.rename(ds, D.NAME_KINDS[kind](3))
        sch = [schemes[(i // len(kinds)) % len(schemes)]]
        if not D.is_complete(ds) or not quick:
            sch.append(D.unifying())
        if not quick:
            sch.append(schemes[(i * 7 + 3) % len(schemes)])
        for s in sch:
            items.append((rd, s, 2 if quick else 3))
    for i in range(150 if quick else 2000):
        ds = D.random_dataset(rng, 5 if quick else 6, 4 if quick else 5)
        if rng.random() < 0.2:
            ds.insert(rng.randrange(len(ds) + 1), [])
        kind = kinds[i % len(kinds)]
        rd = D.rename(ds, D.NAME_KINDS[kind](max(D.universe_of(ds)) + 1))
        s = D.unifying() if i % 2 else schemes[i % len(schemes)]
        items.append((rd, s, 2))
    for k in range(0, len(items), 3):
        yield {"kind": "frames", "items": [[a, b] for a, b, _ in items[k:k + 3]]}
    step = 3 if quick else 1
    for k in range(0, len(items), step):
        yield {"kind": "seq", "items": [[a, b] for a, b, _ in items[k:k + step]], "depth": items[k][2]}


# ---------------------------------------------------------------------------------------------------------------------
def tv(e):
    return (type(e.value).__name__, e.value)


def canon_ranking(r):
    return tuple(frozenset(tv(e) for e in b) for b in r)


def sortable(r):
    return tuple(tuple(sorted(b)) for b in r)


def snap_dataset(d):
    rk = []
    for r in d.rankings:
        rk.append((canon_ranking(r.buckets),
                   tuple(sorted((tv(e), p) for e, p in r.positions.items())),
                   frozenset(tv(e) for e in r.domain), r.nb_elements, len(r)))
    return {
        "rankings": tuple(rk),
        "universe": frozenset(tv(e) for e in d.universe),
        "nb_elements": d.nb_elements,
        "nb_rankings": d.nb_rankings,
        "mapping_elem_id": tuple(sorted((tv(e), i) for e, i in d.mapping_elem_id.items())),
        "mapping_id_elem": tuple(sorted((i, tv(e)) for i, e in d.mapping_id_elem.items())),
        "is_complete": d.is_complete,
        "without_ties": d.without_ties,
        "name": d.name,
        "get_positions": d.get_positions().tolist(),
        "get_bucket_ids": d.get_bucket_ids().tolist(),
    }


def snap_scheme(sc):
    return {"penalty_vectors": tuple(tuple(v) for v in sc.penalty_vectors),
            "b_vector": tuple(sc.b_vector), "t_vector": tuple(sc.t_vector), "str": str(sc),
            "types": tuple(type(x).__name__ for v in sc.penalty_vectors for x in v)}


def diff(a, b):
    return dict((k, {"before": str(a[k])[:300], "after": str(b.get(k))[:300]}) for k in a if a[k] != b.get(k))


def cons_result(cons):
    rks = sorted(sortable(canon_ranking(r)) for r in cons.consensus_rankings)
    score = cons.kemeny_score
    try:
        score = float(score)
    except (TypeError, ValueError):         # e.g. None (belongs to C04); still comparable between two calls
        score = repr(score)
    return ("ok", tuple(rks), score)


def run_alg(name, alg, d, sc):
    from bounded import adapt as A
    from bounded import algs
    fl = algs.flags(name)
    # the stand-in enumerates ALL optima by branching (55 s for 170 optima on 6 elements): ask it for one ranking from
    # 5 elements on
    one = bool(fl.get("one_only")) or (bool(fl.get("standin")) and len(d.universe) >= 5)
    with algs.cplex_mode(bool(fl.get("standin"))), A.quiet():
        return alg.compute_consensus_rankings(d, sc, one)


def first_candidate(d):
    """A complete candidate ranking built from the dataset without touching it: first unified ranking (a copy)."""
    from corankco.ranking import Ranking
    ur = d.unified_rankings()[0]
    return Ranking([set(b) for b in ur.buckets])


def do_op(op, d, sc):
    """Execute one sequence operation, return a comparable result."""
    from bounded import adapt as A
    from bounded import algs
    from corankco.partitioning.ordered_partition import OrderedPartition
    from corankco.consensus import Consensus
    from corankco.kemeny_score_computation import KemenyComputingFactory
    try:
        if op.startswith("alg:"):
            name = op[4:]
            random.seed(11)
            cons = run_alg(name, algs.make(name), d, sc)
            return cons_result(cons)
        if op == "partitions":
            with A.quiet():
                p1 = OrderedPartition.parcons_partition(d, sc)
                p2 = OrderedPartition.parfront_partition(d, sc)
            return ("ok", tuple(sortable([frozenset(tv(e) for e in g) for g in p.partition]) for p in (p1, p2)))
        if op == "derived":
            ur = d.unified_rankings()
            ud = d.unified_dataset()
            keep = set(sorted(d.universe, key=tv)[:2])
            sp = d.sub_problem_from_elements(keep)
            si = d.sub_problem_from_ids({0})
            return ("ok", tuple(sortable(canon_ranking(r.buckets)) for r in ur),
                    tuple(sortable(canon_ranking(r.buckets)) for r in ud.rankings), ud.is_complete,
                    tuple(sortable(canon_ranking(r.buckets)) for r in sp.rankings),
                    tuple(sortable(canon_ranking(r.buckets)) for r in si.rankings),
                    d.get_positions().tolist(), d.get_bucket_ids().tolist(), d.description(), str(d))
        if op == "score":
            cand = first_candidate(d)
            cons = Consensus(consensus_rankings=[cand], dataset=d, scoring_scheme=sc)
            s1 = float(cons.kemeny_score)
            desc = cons.description()
            s2 = float(KemenyComputingFactory(sc).get_kemeny_score(cand, d))
            return ("ok", s1, s2, desc, sc.description(), sc.get_nickname())
    except Exception as e:                                  # noqa: BLE001 - an exception is a result here
        passthrough(e)
        return ("raises", type(e).__name__, str(e)[:120])
    raise ValueError(op)


def mk(spec, scheme):
    from bounded import adapt as A
    from corankco.dataset import Dataset
    from corankco.ranking import Ranking
    d = Dataset([Ranking([set(b) for b in r]) for r in spec], name="shared-name")
    return d, A.mk_scheme(scheme)


class Rec:
    def __init__(self):
        self.fails, self.seen, self.evals, self.nk = [], {}, 0, 0
        self.ran, self.notrun = {}, {}

    def add(self, clause, site, detail):
        k = (clause, site)
        self.seen[k] = self.seen.get(k, 0) + 1
        if self.seen[k] <= 2:
            self.fails.append({"clause": clause, "site": site, "detail": detail})


def check_frames(case, rec):
    from bounded import adapt as A
    from bounded import algs
    from corankco.partitioning.ordered_partition import OrderedPartition
    from corankco.kemeny_score_computation import KemenyComputingFactory
    from corankco.consensus import Consensus
    for spec, scheme in case["items"]:
        ctx = {"dataset": spec, "scheme": scheme}
        state = {}

        def fresh():
            state["d"], state["sc"] = mk(spec, scheme)
            state["sd"], state["ss"] = snap_dataset(state["d"]), snap_scheme(state["sc"])

        def frame(site, extra=None):
            """Compare the snapshots; on a difference report and start again from fresh objects."""
            rec.evals += 1
            dd = diff(state["sd"], snap_dataset(state["d"]))
            ds_ = diff(state["ss"], snap_scheme(state["sc"]))
            if dd or ds_:
                rec.add("C15.prop", site, dict(ctx, dataset_changed=dd, scheme_changed=ds_, **(extra or {})))
                fresh()

        fresh()
        nontrivial = len(state["sd"]["universe"]) >= 2
        for name in algs.CONFIGS:
            fl = algs.flags(name)
            d, sc = state["d"], state["sc"]
            alg = algs.make(name)
            random.seed(5)
            try:
                cons = run_alg(name, alg, d, sc)
            except Exception as e:                          # noqa: BLE001
                passthrough(e)
                rec.notrun[name] = type(e).__name__
                frame(name, {"raised": "%s: %s" % (type(e).__name__, str(e)[:120])})
                continue
            rec.ran[name] = rec.ran.get(name, 0) + 1
            frame(name)
            if state["d"] is not d:
                continue
            try:
                res1 = cons_result(cons)
            except Exception as e:                          # noqa: BLE001
                passthrough(e)
                rec.notrun[name + " score"] = type(e).__name__
                frame("Consensus.kemeny_score")
                continue
            frame("Consensus.kemeny_score", {"algorithm": name})
            try:
                with A.quiet():
                    cons.description()
            except Exception as e:                          # noqa: BLE001
                passthrough(e)
                rec.notrun[name + " description"] = type(e).__name__
            frame("Consensus.description", {"algorithm": name})
            if state["d"] is not d:
                continue
            if nontrivial:
                rec.nk += 1
            if fl.get("random"):
                continue
            # same algorithm object, same inputs, second call
            try:
                random.seed(6)
                res2 = cons_result(run_alg(name, alg, d, sc))
            except Exception as e:                          # noqa: BLE001
                passthrough(e)
                res2 = ("raises", type(e).__name__, str(e)[:120])
            frame(name, {"call": "second"})
            rec.evals += 1
            if res1 != res2:
                rec.add("C15.twice", name, dict(ctx, first=str(res1)[:400], second=str(res2)[:400]))
            if algs.is_warm():
                # the object used so far has a past (warm-up calls on related inputs): a fresh object, called plainly on
                # the same inputs, must give the same result
                try:
                    random.seed(5)
                    with algs.cold():
                        res3 = cons_result(run_alg(name, algs.make(name), d, sc))
                except Exception as e:                      # noqa: BLE001
                    passthrough(e)
                    res3 = ("raises", type(e).__name__, str(e)[:120])
                rec.evals += 1
                if res1 != res3:
                    rec.add("C15.twice", name + ": object used before vs fresh object",
                            dict(ctx, used_object=str(res1)[:400], fresh_object=str(res3)[:400]))
        # reads and partitions
        d, sc = state["d"], state["sc"]
        su = sorted(d.universe, key=tv)
        reads = [
            ("OrderedPartition.parcons_partition", lambda: OrderedPartition.parcons_partition(state["d"], state["sc"])),
            ("OrderedPartition.parfront_partition", lambda: OrderedPartition.parfront_partition(state["d"], state["sc"])),
            ("Dataset.unified_rankings", lambda: state["d"].unified_rankings()),
            ("Dataset.unified_dataset", lambda: state["d"].unified_dataset()),
            ("Dataset.sub_problem_from_elements", lambda: [state["d"].sub_problem_from_elements(set(su[:k]))
                                                           for k in range(1, len(su) + 1)]),
            ("Dataset.sub_problem_from_ids", lambda: [state["d"].sub_problem_from_ids(set(range(k)))
                                                      for k in range(1, len(su) + 1)]),
            ("Dataset.get_positions", lambda: (state["d"].get_positions(), state["d"].get_bucket_ids())),
            ("Dataset.description", lambda: (state["d"].description(), str(state["d"]), repr(state["d"]),
                                             state["sc"].description(), state["sc"].get_nickname(), str(state["sc"]))),
            ("KemenyComputingFactory.get_kemeny_score",
             lambda: KemenyComputingFactory(state["sc"]).get_kemeny_score(first_candidate(state["d"]), state["d"])),
            ("Consensus(...)", lambda: Consensus([first_candidate(state["d"])], state["d"], state["sc"]).kemeny_score),
        ]
        for site, fn in reads:
            try:
                with A.quiet():
                    fn()
            except Exception as e:                          # noqa: BLE001
                passthrough(e)
                rec.notrun[site] = type(e).__name__
            frame(site)
            if nontrivial:
                rec.nk += 1


def check_seq(case, rec):
    import itertools
    depth = case["depth"]
    for spec, scheme in case["items"]:
        ctx = {"dataset": spec, "scheme": scheme}
        fresh = {}
        for op in SEQ_OPS:
            d, sc = mk(spec, scheme)
            fresh[op] = do_op(op, d, sc)
        d0, sc0 = mk(spec, scheme)
        sd0, ss0 = snap_dataset(d0), snap_scheme(sc0)
        nontrivial = len(sd0["universe"]) >= 2
        bad_prefix, bad_ops = set(), set()       # an operation that already fails alone is not blamed again in context
        for k in range(1, depth + 1):
            for seq in itertools.product(SEQ_OPS, repeat=k):
                if seq[:-1] in bad_prefix or any(op in bad_ops for op in seq):
                    bad_prefix.add(seq)
                    continue
                d, sc = mk(spec, scheme)
                res = None
                for op in seq:
                    res = do_op(op, d, sc)
                rec.evals += 1
                site = seq[-1] if k == 1 else "%s after %s" % (seq[-1], seq[-2])
                if res != fresh[seq[-1]]:
                    bad_prefix.add(seq)
                    if k == 1:
                        bad_ops.add(seq[0])
                    rec.add("C15.prop.seq", site, dict(ctx, sequence=list(seq), shared=str(res)[:500],
                                                        fresh=str(fresh[seq[-1]])[:500]))
                    continue
                dd, ds_ = diff(sd0, snap_dataset(d)), diff(ss0, snap_scheme(sc))
                if dd or ds_:
                    bad_prefix.add(seq)
                    if k == 1:
                        bad_ops.add(seq[0])
                    rec.add("C15.prop.seq", site, dict(ctx, sequence=list(seq), dataset_changed=dd, scheme_changed=ds_))
                    continue
                if nontrivial and k > 1:
                    rec.nk += 1


def check_case(case):
    rec = Rec()
    {"frames": check_frames, "seq": check_seq}[case["kind"]](case, rec)
    sample = {"kind": case["kind"], "items": case["items"][:1], "ran": sorted(rec.ran), "not_run": rec.notrun}
    return {"fails": rec.fails, "key": None, "nkeys": rec.nk, "evals": rec.evals, "sample": sample}

"""Sidecar contract for corankco/algorithms/borda/borda.py — property C12 (the accumulation of positional scores).

Fragment: the body of the loop over the rankings of `BordaCount.compute_consensus_rankings` (one arbitrary ranking):
for every element of that ranking, `points[e]` gains (score of e in the ranking, 1), where the score is the number of
elements strictly before e's bucket — or the index of e's bucket in the bucket-id variant —; the entries of the elements
the ranking does not contain are untouched.  `ranking` is a list of disjoint sets of element ids (the Ranking invariant,
proved for Ranking.__init__); `points` is a dict id -> [sum, count].  The mean, the sort and the grouping by equal mean,
and the choice between unified and raw rankings, are decided by the bounded tier.
"""
from pyvc.types import Int, Bool, Obj, SetList, RowDict

F = "corankco/algorithms/borda/borda.py::BordaCount."

UB = "self._use_bucket_id_not_bucket_size"
O0 = "ite(has(old(points), e), old(points)[e][0], 0)"
O1 = "ite(has(old(points), e), old(points)[e][1], 0)"


def register(reg):
    # number of elements in the buckets before bucket k
    reg.spec("def SIZEBEFORE(R, k):\n    return 0 if k <= 0 else SIZEBEFORE(R, k - 1) + card(R[k - 1])",
             dict(R=SetList(), k=Int), Int)
    reg.spec("def POSV(R, k, ub):\n    return k if ub else SIZEBEFORE(R, k)", dict(R=SetList(), k=Int, ub=Bool), Int)

    def scored(upto):
        return ("forall(lambda e, j: implies(0 <= j and j < %s and ranking[j][e], has(points, e) and "
                "points[e][0] == %s + POSV(ranking, j, %s) and points[e][1] == %s + 1))" % (upto, O0, UB, O1))

    def untouched(upto, extra=""):
        return ("forall(lambda e: implies(not exists(lambda j: ranking[j][e], 0, %s)%s, "
                "has(points, e) == has(old(points), e) and implies(has(old(points), e), "
                "points[e][0] == old(points)[e][0] and points[e][1] == old(points)[e][1])))" % (upto, extra))

    reg.contract(
        F + "compute_consensus_rankings#points", props=["C12"],
        fragment={"body_of_loop": 1},
        params=dict(self=Obj, ranking=SetList(), points=RowDict(Int, 2)),
        fields={UB: Bool},
        requires={
            # buckets of a Ranking are pairwise disjoint (Ranking.__init__ refuses anything else)
            "disjoint": "forall(lambda j1, j2, e: implies(0 <= j1 and j1 < j2 and j2 < len(ranking), "
                        "not (ranking[j1][e] and ranking[j2][e])))",
        },
        modifies=["points"],
        ensures={
            # C12.points: every element of the ranking gains (its positional score, 1) ...
            "scored": scored("len(ranking)"),
            # ... and nothing else changes
            "untouched": untouched("len(ranking)"),
        },
        loops={
            2: dict(inv={
                "pos": "id_bucket == POSV(ranking, idx_bucket, %s)" % UB,
                "scored": scored("idx_bucket"),
                "untouched": untouched("idx_bucket"),
            }),
            3: dict(inv={
                "earlier": scored("idx_bucket"),
                "current": "forall(lambda e: implies(seen_elem[e], has(points, e) and points[e][0] == %s + id_bucket and "
                           "points[e][1] == %s + 1))" % (O0, O1),
                "untouched": untouched("idx_bucket", " and not seen_elem[e]"),
            }),
        },
        notes="Borda accumulation for one ranking (fragment: body of the loop over the rankings)",
    )

"""Sidecar contract for corankco/dataset.py — property C02 (the matrix of bucket indices handed to the cost-table kernel).

Fragment: one iteration of the loop over the rankings of `Dataset.get_bucket_ids` (any ranking with disjoint buckets,
any state of the matrix): for every element e of the ranking, cell (id(e), index of the ranking) receives the index of e's
bucket; no other cell changes.  `self.mapping_elem_id.get(e)` is the uninterpreted IDOF(e), required to be injective on
the ranking's elements and within the rows of the matrix (established by Dataset._analyse_rankings: bounded tier).
`get_positions` is the same statement over `ranking.positions.items()` (the dict element -> 1-based rank that
Ranking.__init__ builds, proved there): cell (id(e), index of the ranking) receives position - 1.
"""
from pyvc.types import Int, Obj, Arr, SetList, IntDict

F = "corankco/dataset.py::Dataset."

IN_R = "exists(lambda j: ranking[j][%s], 0, len(ranking))"


def register(reg):
    reg.contract(
        F + "get_bucket_ids#one_ranking", props=["C02"],
        fragment={"body_of_loop": 1},
        params=dict(self=Obj, ranking=SetList(), ranking_idx=Int, bucket_ids=Arr(Int, 2)),
        opaque_glue=True,
        opaque_calls={"get": {"fn": "IDOF", "args": [0], "ret": "int"}},
        requires={
            "disjoint": "forall(lambda j1, j2, e: implies(0 <= j1 and j1 < j2 and j2 < len(ranking), "
                        "not (ranking[j1][e] and ranking[j2][e])))",
            "ids_in_range": "forall(lambda e: implies(%s, 0 <= IDOF(e) and IDOF(e) < len(bucket_ids)))" % (IN_R % "e"),
            "ids_injective": "forall(lambda e1, e2: implies(%s and %s and e1 != e2, IDOF(e1) != IDOF(e2)))"
                             % (IN_R % "e1", IN_R % "e2"),
            "column": "0 <= ranking_idx and ranking_idx < len(bucket_ids[0])",
        },
        modifies=["bucket_ids"],
        ensures={
            # C02.matrices.bucket_ids: the cell of every ranked element holds the index of its bucket ...
            "written": "forall(lambda e, j: implies(0 <= j and j < len(ranking) and ranking[j][e], "
                       "bucket_ids[IDOF(e)][ranking_idx] == j))",
            # ... and nothing else is touched (other columns, rows of elements the ranking does not contain)
            "frame": "forall(lambda a, c: implies(c != ranking_idx or not exists(lambda e: %s and IDOF(e) == a), "
                     "bucket_ids[a][c] == old(bucket_ids)[a][c]))" % (IN_R % "e"),
        },
        loops={
            2: dict(inv={
                "written": "forall(lambda e, j: implies(0 <= j and j < idx_bucket and ranking[j][e], "
                           "bucket_ids[IDOF(e)][ranking_idx] == j))",
                "frame": "forall(lambda a, c: implies(c != ranking_idx or not exists(lambda e: "
                         "exists(lambda j: ranking[j][e], 0, idx_bucket) and IDOF(e) == a), "
                         "bucket_ids[a][c] == old(bucket_ids)[a][c]))",
            }),
            3: dict(inv={
                "earlier": "forall(lambda e, j: implies(0 <= j and j < idx_bucket and ranking[j][e], "
                           "bucket_ids[IDOF(e)][ranking_idx] == j))",
                "current": "forall(lambda e: implies(seen_elem[e], bucket_ids[IDOF(e)][ranking_idx] == idx_bucket))",
                "frame": "forall(lambda a, c: implies(c != ranking_idx or not exists(lambda e: "
                         "(exists(lambda j: ranking[j][e], 0, idx_bucket) or seen_elem[e]) and IDOF(e) == a), "
                         "bucket_ids[a][c] == old(bucket_ids)[a][c]))",
            }),
        },
        notes="Dataset.get_bucket_ids, one ranking (fragment: body of the loop over the rankings)",
    )
    register_positions(reg)


def register_positions(reg):
    HASP = "has(ranking.positions, %s)"
    reg.contract(
        F + "get_positions#one_ranking", props=["C02"],
        fragment={"body_of_loop": 1},
        params=dict(self=Obj, ranking=Obj, id_ranking=Int, positions=Arr(Int, 2)),
        fields={"ranking.positions": IntDict(Int)},
        opaque_glue=True,
        opaque_calls={"get": {"fn": "IDOF", "args": [0], "ret": "int"}},
        requires={
            "ids_in_range": "forall(lambda e: implies(%s, 0 <= IDOF(e) and IDOF(e) < len(positions)))" % (HASP % "e"),
            "ids_injective": "forall(lambda e1, e2: implies(%s and %s and e1 != e2, IDOF(e1) != IDOF(e2)))"
                             % (HASP % "e1", HASP % "e2"),
            "column": "0 <= id_ranking and id_ranking < len(positions[0])",
        },
        modifies=["positions"],
        ensures={
            "written": "forall(lambda e: implies(%s, positions[IDOF(e)][old(id_ranking)] == ranking.positions[e] - 1))" % (HASP % "e"),
            "frame": "forall(lambda a, c: implies(c != old(id_ranking) or not exists(lambda e: %s and IDOF(e) == a), "
                     "positions[a][c] == old(positions)[a][c]))" % (HASP % "e"),
        },
        loops={
            2: dict(snap={"col": "id_ranking"}, inv={
                "col": "id_ranking == col",
                "written": "forall(lambda e: implies(seen_elem[e], positions[IDOF(e)][id_ranking] == ranking.positions[e] - 1))",
                "frame": "forall(lambda a, c: implies(c != id_ranking or not exists(lambda e: seen_elem[e] and IDOF(e) == a), "
                         "positions[a][c] == old(positions)[a][c]))",
            }),
        },
        notes="Dataset.get_positions, one ranking (fragment: body of the loop over the rankings)",
    )

"""Sidecar contract for corankco/dataset.py — property C02 (the matrix of bucket indices handed to the cost-table kernel).

Fragment: one iteration of the loop over the rankings of `Dataset.get_bucket_ids` (any ranking with disjoint buckets,
any state of the matrix): for every element e of the ranking, cell (id(e), index of the ranking) receives the index of e's
bucket; no other cell changes.  `self.mapping_elem_id.get(e)` is the uninterpreted IDOF(e), required to be injective on
the ranking's elements and within the rows of the matrix (established by Dataset._analyse_rankings: bounded tier).
`get_positions` is the same statement over `ranking.positions.items()` (the dict element -> 1-based rank that
Ranking.__init__ builds, proved there): cell (id(e), index of the ranking) receives position - 1.
"""
from pyvc.types import Int, Obj, Arr, SetList, IntDict, Bool, List

F = "corankco/dataset.py::Dataset."

IN_R = "exists(lambda j: ranking[j][%s], 0, len(ranking))"


def register(reg):
    reg.contract(
        F + "get_bucket_ids#one_ranking", props=["C02"],
        fragment={"body_of_loop": 1},
        params=dict(self=Obj, ranking=SetList(), ranking_idx=Int, bucket_ids=Arr(Int, 2)),
        opaque_glue=True,
        opaque_calls={"get": {"fn": "IDOF", "args": [0], "ret": "int"}},
        requires={
            "disjoint": "forall(lambda j1, j2, e: implies(0 <= j1 and j1 < j2 and j2 < len(ranking), "
                        "not (ranking[j1][e] and ranking[j2][e])))",
            "ids_in_range": "forall(lambda e: implies(%s, 0 <= IDOF(e) and IDOF(e) < len(bucket_ids)))" % (IN_R % "e"),
            "ids_injective": "forall(lambda e1, e2: implies(%s and %s and e1 != e2, IDOF(e1) != IDOF(e2)))"
                             % (IN_R % "e1", IN_R % "e2"),
            "column": "0 <= ranking_idx and ranking_idx < len(bucket_ids[0])",
        },
        modifies=["bucket_ids"],
        ensures={
            # C02.matrices.bucket_ids: the cell of every ranked element holds the index of its bucket ...
            "written": "forall(lambda e, j: implies(0 <= j and j < len(ranking) and ranking[j][e], "
                       "bucket_ids[IDOF(e)][ranking_idx] == j))",
            # ... and nothing else is touched (other columns, rows of elements the ranking does not contain)
            "frame": "forall(lambda a, c: implies(c != ranking_idx or not exists(lambda e: %s and IDOF(e) == a), "
                     "bucket_ids[a][c] == old(bucket_ids)[a][c]))" % (IN_R % "e"),
        },
        loops={
            2: dict(inv={
                "written": "forall(lambda e, j: implies(0 <= j and j < idx_bucket and ranking[j][e], "
                           "bucket_ids[IDOF(e)][ranking_idx] == j))",
                "frame": "forall(lambda a, c: implies(c != ranking_idx or not exists(lambda e: "
                         "exists(lambda j: ranking[j][e], 0, idx_bucket) and IDOF(e) == a), "
                         "bucket_ids[a][c] == old(bucket_ids)[a][c]))",
            }),
            3: dict(inv={
                "earlier": "forall(lambda e, j: implies(0 <= j and j < idx_bucket and ranking[j][e], "
                           "bucket_ids[IDOF(e)][ranking_idx] == j))",
                "current": "forall(lambda e: implies(seen_elem[e], bucket_ids[IDOF(e)][ranking_idx] == idx_bucket))",
                "frame": "forall(lambda a, c: implies(c != ranking_idx or not exists(lambda e: "
                         "(exists(lambda j: ranking[j][e], 0, idx_bucket) or seen_elem[e]) and IDOF(e) == a), "
                         "bucket_ids[a][c] == old(bucket_ids)[a][c]))",
            }),
        },
        notes="Dataset.get_bucket_ids, one ranking (fragment: body of the loop over the rankings)",
    )
    register_positions(reg)
    register_flags(reg)


def register_positions(reg):
    HASP = "has(ranking.positions, %s)"
    reg.contract(
        F + "get_positions#one_ranking", props=["C02"],
        fragment={"body_of_loop": 1},
        params=dict(self=Obj, ranking=Obj, id_ranking=Int, positions=Arr(Int, 2)),
        fields={"ranking.positions": IntDict(Int)},
        opaque_glue=True,
        opaque_calls={"get": {"fn": "IDOF", "args": [0], "ret": "int"}},
        requires={
            "ids_in_range": "forall(lambda e: implies(%s, 0 <= IDOF(e) and IDOF(e) < len(positions)))" % (HASP % "e"),
            "ids_injective": "forall(lambda e1, e2: implies(%s and %s and e1 != e2, IDOF(e1) != IDOF(e2)))"
                             % (HASP % "e1", HASP % "e2"),
            "column": "0 <= id_ranking and id_ranking < len(positions[0])",
        },
        modifies=["positions"],
        ensures={
            "written": "forall(lambda e: implies(%s, positions[IDOF(e)][old(id_ranking)] == ranking.positions[e] - 1))" % (HASP % "e"),
            "frame": "forall(lambda a, c: implies(c != old(id_ranking) or not exists(lambda e: %s and IDOF(e) == a), "
                     "positions[a][c] == old(positions)[a][c]))" % (HASP % "e"),
        },
        loops={
            2: dict(snap={"col": "id_ranking"}, inv={
                "col": "id_ranking == col",
                "written": "forall(lambda e: implies(seen_elem[e], positions[IDOF(e)][id_ranking] == ranking.positions[e] - 1))",
                "frame": "forall(lambda a, c: implies(c != id_ranking or not exists(lambda e: seen_elem[e] and IDOF(e) == a), "
                         "positions[a][c] == old(positions)[a][c]))",
            }),
        },
        notes="Dataset.get_positions, one ranking (fragment: body of the loop over the rankings)",
    )


def register_flags(reg):
    """Dataset._analyse_rankings, the two flags and the id maps (property C16: the views of a Dataset agree with its
    rankings).  Fragment 1: one iteration of the loop over the (normalised) rankings — every element of the ranking is
    counted once more, nothing else is, and `without_ties` survives exactly when no bucket of the ranking holds two
    elements.  Fragment 2: the loop over the counted elements — every counted element receives an id, the two maps are
    inverse of each other on them, and `complete` survives exactly when every element was counted once per ranking."""
    N = "nb_occur_elements_in_rankings"
    IN = "exists(lambda j: ranking[j][%s], 0, %s)"

    def counted(upto, extra=""):
        return ("forall(lambda e: implies(%s%s, has(%s, e) and %s[e] == ite(has(old(%s), e), old(%s)[e], 0) + 1))"
                % (IN % ("e", upto), extra, N, N, N, N))

    def untouched(upto, extra=""):
        return ("forall(lambda e: implies(not %s%s, has(%s, e) == has(old(%s), e) and "
                "implies(has(old(%s), e), %s[e] == old(%s)[e])))" % (IN % ("e", upto), extra, N, N, N, N, N))

    def ties(upto):
        return ("without_ties == (old(without_ties) and forall(lambda j: card(ranking[j]) <= 1, 0, %s))" % upto)

    reg.contract(
        F + "_analyse_rankings#count", props=["C16"],
        fragment={"body_of_loop": 6},
        params={"self": Obj, "ranking": SetList(), N: IntDict(Int), "without_ties": Bool},
        requires={
            "disjoint": "forall(lambda j1, j2, e: implies(0 <= j1 and j1 < j2 and j2 < len(ranking), "
                        "not (ranking[j1][e] and ranking[j2][e])))",
        },
        modifies=[N],
        ensures={"counted": counted("len(ranking)"), "untouched": untouched("len(ranking)"),
                 "without_ties": ties("len(ranking)")},
        loops={
            7: dict(inv={"counted": counted("idx_bucket"), "untouched": untouched("idx_bucket"),
                         "without_ties": ties("idx_bucket")}),
            8: dict(inv={
                "earlier": counted("idx_bucket"),
                "current": "forall(lambda e: implies(seen_element[e], has(%s, e) and "
                           "%s[e] == ite(has(old(%s), e), old(%s)[e], 0) + 1))" % (N, N, N, N),
                "untouched": untouched("idx_bucket", " and not seen_element[e]"),
            }),
        },
        notes="occurrence counts and the no-tie flag for one ranking (fragment: body of the loop over the rankings)",
    )

    E2I, I2E = "self._mapping_element_id", "self._mapping_id_element"

    def ids(dom):
        return ("forall(lambda e: implies(%s, has(%s, e) and 0 <= %s[e] and %s[e] < id_element and "
                "has(%s, %s[e]) and %s[%s[e]] == e))" % (dom, E2I, E2I, E2I, I2E, E2I, I2E, E2I))

    def only(dom):
        return ("forall(lambda e: implies(has(%s, e), %s))" % (E2I, dom))

    def inverse(dom):
        return ("forall(lambda i: iff(has(%s, i), 0 <= i and i < id_element) and implies(has(%s, i), %s and "
                "%s[%s[i]] == i))" % (I2E, I2E, dom.replace("(e)", "(%s[i])" % I2E).replace(", e)", ", %s[i])" % I2E)
                                      .replace("[e]", "[%s[i]]" % I2E), E2I, I2E))

    def compl(dom):
        return ("complete == forall(lambda e: implies(%s, %s[e] == len(rankings_final)))" % (dom, N))

    reg.contract(
        F + "_analyse_rankings#ids", props=["C16"],
        fragment={"loop": 2},
        params={"self": Obj, N: IntDict(Int), "rankings_final": List(Int), "id_element": Int, "complete": Bool},
        fields={E2I: IntDict(Int), I2E: IntDict(Int)},
        requires={
            # the state the statements in front of the loop establish
            "fresh_maps": "forall(lambda e: not has(%s, e) and not has(%s, e))" % (E2I, I2E),
            "start": "id_element == 0 and complete",
        },
        ensures={
            # every counted element has an id, the ids are 0 .. id_element - 1, the two maps are inverse of each other
            "ids": ids("has(%s, e)" % N), "only": only("has(%s, e)" % N), "inverse": inverse("has(%s, e)" % N),
            # complete exactly when every element was counted once per ranking
            "complete": compl("has(%s, e)" % N),
        },
        loops={
            9: dict(inv={"ids": ids("seen_key[e]"), "only": only("seen_key[e]"), "inverse": inverse("seen_key[e]"),
                         "complete": compl("seen_key[e]"), "nonneg": "0 <= id_element"}),
        },
        notes="element <-> id maps and the completeness flag (fragment: the loop over the counted elements)",
    )

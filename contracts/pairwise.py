"""Sidecar contracts for corankco/algorithms/pairwisebasedalgorithm.py (cost table kernel) — property C02."""
from pyvc.types import Int, Real, Arr, Bool

F = "corankco/algorithms/pairwisebasedalgorithm.py::"

M_ARGS = "positions, scoring_scheme_numpy, weights"


def gen_table(rng):
    n, m = rng.randint(0, 4), rng.randint(0, 3)
    pos = [[rng.randint(-1, 3) for _ in range(m)] for _ in range(n)]
    R = 8.0
    S = [[0., 1., R, R ** 2, R ** 3, R ** 4], [R ** 5, R ** 5, 0., R ** 6, R ** 6, R ** 7]]
    if rng.random() < 0.3:
        S = [[0., 1., .5, 0., 1., .5], [.5, .5, 0., .5, .5, 0.]]
    w = [rng.choice([1.0, 0.5, 2.0, 3.0]) for _ in range(m)]
    if n == 0 or m == 0:
        pos = [[0] * m for _ in range(n)] if n else []
    return dict(positions=pos if (n and m) else [[0] * m for _ in range(n)], scoring_scheme_numpy=S, weights=w,
                nb_elem=n, nb_rankings=m)


def register(reg):
    # status of the ordered pair (x, y) in one ranking, from the two position entries (-1 = unranked)
    reg.spec("def status(p1, p2):\n"
             "    return (0 if p1 < p2 else (1 if p1 > p2 else 2)) if (p1 != -1 and p2 != -1) else"
             "           (3 if p1 != -1 else (4 if p2 != -1 else 5))", dict(p1=Int, p2=Int), Int)
    A = dict(pos=Arr(Int, 2), S=Arr(Real, 2), w=Arr(Real), i=Int, j=Int, k=Int, r=Int)
    # contribution of ranking r to cell (i, j, k): k=0 i before j, k=1 i after j (= j before i), k=2 tied
    reg.spec("def cell(pos, S, w, i, j, k, r):\n"
             "    return w[r] * ite(k == 0, S[0][status(pos[i][r], pos[j][r])],"
             "                  ite(k == 1, S[0][status(pos[j][r], pos[i][r])], S[1][status(pos[i][r], pos[j][r])]))",
             A, Real)
    Am = dict(pos=Arr(Int, 2), S=Arr(Real, 2), w=Arr(Real), i=Int, j=Int, k=Int, m=Int)
    reg.spec("def M(pos, S, w, i, j, k, m):\n"
             "    return 0.0 if m <= 0 else M(pos, S, w, i, j, k, m - 1) + cell(pos, S, w, i, j, k, m - 1)", Am, Real)
    reg.spec("def done2(a, b, e1, e2):\n"
             "    return a != b and (min(a, b) < e1 or (min(a, b) == e1 and max(a, b) < e2))",
             dict(a=Int, b=Int, e1=Int, e2=Int), Bool)

    L = dict(pos=Arr(Int, 2), S=Arr(Real, 2), w=Arr(Real), i=Int, j=Int, m=Int)
    reg.lemma("mirror_before_after", L, "M(pos, S, w, j, i, 0, m) == M(pos, S, w, i, j, 1, m)", props=["C02"],
              induction="m", base="0")
    reg.lemma("mirror_tied", L, "M(pos, S, w, j, i, 2, m) == M(pos, S, w, i, j, 2, m)", props=["C02"],
              induction="m", base="0", requires={"T_sym": "S[1][0] == S[1][1] and S[1][3] == S[1][4]"})

    TABLE = "ite(%s, M(" + M_ARGS + ", a, b, k, nb_rankings), 0.0)"
    reg.contract(
        F + "_pairwise_cost_matrix_only", props=["C02"],
        params=dict(positions=Arr(Int, 2), scoring_scheme_numpy=Arr(Real, 2), weights=Arr(Real), nb_elem=Int,
                    nb_rankings=Int),
        returns=Arr(Real, 3),
        requires={
            "sizes": "nb_elem >= 0 and nb_rankings >= 0",
            "pos_shape": "len(positions) == nb_elem and len(positions[0]) == nb_rankings",
            "S_shape": "len(scoring_scheme_numpy) == 2 and len(scoring_scheme_numpy[0]) == 6",
            "w_shape": "len(weights) == nb_rankings",
            # needed for the mirrored tie cell to be the definition of tied(y, x): a scheme invariant
            "T_sym": "scoring_scheme_numpy[1][0] == scoring_scheme_numpy[1][1] and "
                     "scoring_scheme_numpy[1][3] == scoring_scheme_numpy[1][4]",
        },
        modifies=[],
        ensures={
            "shape": "len(result) == nb_elem and len(result[0]) == nb_elem and len(result[0][0]) == 3",
            "cells": "forall(lambda a, b, k: implies(a != b, result[a][b][k] == M(" + M_ARGS + ", a, b, k, nb_rankings)), "
                     "0, nb_elem, 0, nb_elem, 0, 3)",
            "diag": "forall(lambda a, k: result[a][a][k] == 0.0, 0, nb_elem, 0, 3)",
            # C02.table.mirror: before(x,y) = after(y,x), tied(x,y) = tied(y,x)  (precondition of the consumers of the table)
            "mirror": "forall(lambda a, b: result[a][b][0] == result[b][a][1] and result[a][b][2] == result[b][a][2], "
                      "0, nb_elem, 0, nb_elem)",
        },
        loops={
            1: dict(inv={"table": "forall(lambda a, b, k: matrix[a][b][k] == " + TABLE % "a != b and min(a, b) < elem1"
                                  + ", 0, nb_elem, 0, nb_elem, 0, 3)"}),
            2: dict(inv={"table": "forall(lambda a, b, k: matrix[a][b][k] == " + TABLE % "done2(a, b, elem1, elem2)"
                                  + ", 0, nb_elem, 0, nb_elem, 0, 3)"}),
            3: dict(inv={
                "others": "forall(lambda a, b, k: implies(not (a == elem1 and b == elem2), matrix[a][b][k] == "
                          + TABLE % "done2(a, b, elem1, elem2)" + "), 0, nb_elem, 0, nb_elem, 0, 3)",
                "cell": "forall(lambda k: matrix[elem1][elem2][k] == M(" + M_ARGS + ", elem1, elem2, k, id_ranking), 0, 3)",
            }),
        },
        use_lemmas=["mirror_before_after", "mirror_tied"],
        gen=gen_table,
    )
    register_all_tied(reg)


def register_all_tied(reg):
    from pyvc.types import Set
    CM = "cost_matrix"
    OKP = "%s[a][b][2] <= %s[a][b][0] and %s[a][b][2] <= %s[a][b][1]" % (CM, CM, CM, CM)
    reg.contract(
        F + "PairwiseBasedAlgorithm.can_be_all_tied", props=["C06", "C05"],
        params=dict(id_elements_to_check=Set(), cost_matrix=Arr(Real, 3)), returns=Bool,
        ghost=dict(n_=Int),
        requires={
            "shape": "len(cost_matrix) == n_ and len(cost_matrix[0]) == n_ and len(cost_matrix[0][0]) == 3",
            "ids": "forall(lambda a: implies(id_elements_to_check[a], 0 <= a and a < n_))",
            # mirror consistency of the table (C02.table.mirror): the test on one orientation of a pair decides both
            "mirror": "forall(lambda a, b: cost_matrix[a][b][0] == cost_matrix[b][a][1] and "
                      "cost_matrix[a][b][2] == cost_matrix[b][a][2], 0, n_, 0, n_)",
        },
        modifies=[],
        ensures={
            # C06.all_tied: True exactly when tying is a cheapest placement for every pair of distinct elements
            "iff": "iff(result, forall(lambda a, b: implies(id_elements_to_check[a] and id_elements_to_check[b] and a != b, "
                   + OKP + ")))",
        },
        loops={1: dict(inv={
            "seen_ok": "forall(lambda a, b: implies(seen_pairs[a][b], " + OKP + "))",
        })},
    )

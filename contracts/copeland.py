"""Sidecar contract for CopelandMethod._fill_dicts_copeland — property C13 (counting part)."""
from pyvc.types import Int, Real, Arr

F = "corankco/algorithms/copeland/copeland.py::"


def gen_cop(rng):
    n = rng.randint(0, 5)
    vals = [0.0, 0.5, 1.0, 2.0]
    m = [[[0.0, 0.0, 0.0] for _ in range(n)] for _ in range(n)]
    for i in range(n):
        for j in range(i + 1, n):
            b, a, t = rng.choice(vals), rng.choice(vals), rng.choice(vals)
            m[i][j] = [b, a, t]
            m[j][i] = [a, b, t]
    return dict(pairwise_cost_matrix=m)


def register(reg):
    # outcome of a against b read from cell (a, b): 0 victory (before cheaper than after), 1 equality, 2 defeat
    reg.spec("def outcome(m, a, b):\n    return 0 if m[a][b][0] < m[a][b][1] else (1 if m[a][b][0] == m[a][b][1] else 2)",
             dict(m=Arr(Real, 3), a=Int, b=Int), Int)
    reg.spec("def CNTW(m, a, k, w):\n"
             "    return 0 if k <= 0 else CNTW(m, a, k - 1, w) + ite(k - 1 != a and outcome(m, a, k - 1) == w, 1, 0)",
             dict(m=Arr(Real, 3), a=Int, k=Int, w=Int), Int)
    reg.spec("def SCO(m, a, k):\n"
             "    return 0.0 if k <= 0 else SCO(m, a, k - 1) + ite(k - 1 == a, 0.0, ite(outcome(m, a, k - 1) == 0, 1.0, "
             "ite(outcome(m, a, k - 1) == 1, 0.5, 0.0)))", dict(m=Arr(Real, 3), a=Int, k=Int), Real)
    reg.lemma("copeland_counts_sum", dict(m=Arr(Real, 3), a=Int, k=Int),
              "CNTW(m, a, k, 0) + CNTW(m, a, k, 1) + CNTW(m, a, k, 2) == k - ite(0 <= a and a < k, 1, 0)",
              props=["C13"], induction="k", base="0")

    M = "pairwise_cost_matrix"
    STAGE = "ite(a < el1, %s, ite(a == el1, %s, ite(a < el2, %s, %s)))"

    def staged(fn, extra=""):
        return STAGE % (fn % "n_" , fn % "el2", fn % "el1 + 1", fn % "el1")

    reg.contract(
        F + "CopelandMethod._fill_dicts_copeland", props=["C13"],
        params=dict(pairwise_cost_matrix=Arr(Real, 3)),
        ghost=dict(n_=Int),
        requires={
            "shape": "len(pairwise_cost_matrix) == n_ and len(pairwise_cost_matrix[0]) == n_ and "
                     "len(pairwise_cost_matrix[0][0]) == 3 and n_ >= 0",
            # mirror consistency of the table (proved for the kernel that builds it: C02.table.mirror)
            "mirror": "forall(lambda a, b: pairwise_cost_matrix[a][b][0] == pairwise_cost_matrix[b][a][1], 0, n_, 0, n_)",
        },
        modifies=[],
        ensures={
            "scores": "forall(lambda a: result[0][a] == SCO(" + M + ", a, n_), 0, n_)",
            "victories": "forall(lambda a: result[1][a][0] == CNTW(" + M + ", a, n_, 0), 0, n_)",
            "equalities": "forall(lambda a: result[1][a][1] == CNTW(" + M + ", a, n_, 1), 0, n_)",
            "defeats": "forall(lambda a: result[1][a][2] == CNTW(" + M + ", a, n_, 2), 0, n_)",
            "counts_sum": "forall(lambda a: result[1][a][0] + result[1][a][1] + result[1][a][2] == n_ - 1, 0, n_)",
        },
        loops={
            1: dict(inv={
                "n": "nb_elements == n_",
                "scores": "forall(lambda a: scores[a] == ite(a < el1, SCO(" + M + ", a, n_), SCO(" + M + ", a, el1)), 0, n_)",
                "res": "forall(lambda a, w: results[a][w] == ite(a < el1, CNTW(" + M + ", a, n_, w), "
                       "CNTW(" + M + ", a, el1, w)), 0, n_, 0, 3)",
            }),
            2: dict(inv={
                "scores": "forall(lambda a: scores[a] == " + staged("SCO(" + M + ", a, %s)") + ", 0, n_)",
                "res": "forall(lambda a, w: results[a][w] == " + staged("CNTW(" + M + ", a, %s, w)") + ", 0, n_, 0, 3)",
            }),
        },
        use_lemmas=["copeland_counts_sum"],
        gen=gen_cop,
    )

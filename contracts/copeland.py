"""Sidecar contract for CopelandMethod._fill_dicts_copeland — property C13 (counting part)."""
from pyvc.types import Int, Real, Arr

F = "corankco/algorithms/copeland/copeland.py::"


def gen_cop(rng):
    n = rng.randint(0, 5)
    vals = [0.0, 0.5, 1.0, 2.0]
    m = [[[0.0, 0.0, 0.0] for _ in range(n)] for _ in range(n)]
    for i in range(n):
        for j in range(i + 1, n):
            b, a, t = rng.choice(vals), rng.choice(vals), rng.choice(vals)
            m[i][j] = [b, a, t]
            m[j][i] = [a, b, t]
    return dict(pairwise_cost_matrix=m, n_=n)


def register(reg):
    # outcome of a against b read from cell (a, b): 0 victory (before cheaper than after), 1 equality, 2 defeat
    reg.spec("def outcome(m, a, b):\n    return 0 if m[a][b][0] < m[a][b][1] else (1 if m[a][b][0] == m[a][b][1] else 2)",
             dict(m=Arr(Real, 3), a=Int, b=Int), Int)
    reg.spec("def CNTW(m, a, k, w):\n"
             "    return 0 if k <= 0 else CNTW(m, a, k - 1, w) + ite(k - 1 != a and outcome(m, a, k - 1) == w, 1, 0)",
             dict(m=Arr(Real, 3), a=Int, k=Int, w=Int), Int)
    reg.spec("def SCO(m, a, k):\n"
             "    return 0.0 if k <= 0 else SCO(m, a, k - 1) + ite(k - 1 == a, 0.0, ite(outcome(m, a, k - 1) == 0, 1.0, "
             "ite(outcome(m, a, k - 1) == 1, 0.5, 0.0)))", dict(m=Arr(Real, 3), a=Int, k=Int), Real)
    reg.lemma("copeland_counts_sum", dict(m=Arr(Real, 3), a=Int, k=Int),
              "CNTW(m, a, k, 0) + CNTW(m, a, k, 1) + CNTW(m, a, k, 2) == k - ite(0 <= a and a < k, 1, 0)",
              props=["C13"], induction="k", base="0")

    # ---- conservation: the scores of all elements add up to n(n-1)/2 (each pair distributes exactly one point)
    reg.spec("def win(m, a, b):\n    return 0.0 if a == b else ite(outcome(m, a, b) == 0, 1.0, ite(outcome(m, a, b) == 1, 0.5, 0.0))",
             dict(m=Arr(Real, 3), a=Int, b=Int), Real)
    reg.spec("def COL(m, k, j):\n    return 0.0 if j <= 0 else COL(m, k, j - 1) + win(m, j - 1, k) + win(m, k, j - 1)",
             dict(m=Arr(Real, 3), k=Int, j=Int), Real)          # points exchanged between k and the elements < j
    reg.spec("def AGAINST(m, k, j):\n    return 0.0 if j <= 0 else AGAINST(m, k, j - 1) + win(m, j - 1, k)",
             dict(m=Arr(Real, 3), k=Int, j=Int), Real)          # points earned against k by the elements < j
    reg.spec("def TSUM(m, k, j):\n    return 0.0 if j <= 0 else TSUM(m, k, j - 1) + SCO(m, j - 1, k)",
             dict(m=Arr(Real, 3), k=Int, j=Int), Real)          # sum over a < j of the score of a among the first k
    MIR = {"mirror": "forall(lambda a, b: m[a][b][0] == m[b][a][1], 0, n_, 0, n_)"}
    L3 = dict(m=Arr(Real, 3), k=Int, j=Int, n_=Int)
    reg.lemma("cop_pair_point", L3, "COL(m, k, j) == j", props=["C13"], induction="j", base="0",
              requires=dict(MIR, k="0 <= k and k < n_ and j <= k"))
    reg.lemma("cop_sco_is_for", L3, "SCO(m, k, j) == COL(m, k, j) - AGAINST(m, k, j)", props=["C13"], induction="j", base="0",
              requires={"j": "j <= k"})
    reg.lemma("cop_tsum_step", L3, "TSUM(m, k + 1, j) == TSUM(m, k, j) + AGAINST(m, k, j)", props=["C13"], induction="j",
              base="0", requires={"k": "0 <= k and j <= k"})
    reg.lemma("cop_total", dict(m=Arr(Real, 3), k=Int, n_=Int), "2 * TSUM(m, k, k) == k * (k - 1)", props=["C13"],
              induction="k", base="0", requires=dict(MIR, k="k <= n_"),
              hints=["cop_tsum_step(m, k, k, n_)", "cop_pair_point(m, k, k, n_)", "cop_sco_is_for(m, k, k, n_)"])
    reg.spec("def ASUM(s, j):\n    return 0.0 if j <= 0 else ASUM(s, j - 1) + s[j - 1]", dict(s=Arr(Real), j=Int), Real)
    reg.lemma("cop_asum", dict(s=Arr(Real), m=Arr(Real, 3), j=Int, n_=Int), "ASUM(s, j) == TSUM(m, n_, j)", props=["C13"],
              induction="j", base="0", requires={"pt": "forall(lambda a: s[a] == SCO(m, a, n_), 0, j)"})

    M = "pairwise_cost_matrix"
    STAGE = "ite(a < el1, %s, ite(a == el1, %s, ite(a < el2, %s, %s)))"

    def staged(fn, extra=""):
        return STAGE % (fn % "n_" , fn % "el2", fn % "el1 + 1", fn % "el1")

    reg.contract(
        F + "CopelandMethod._fill_dicts_copeland", props=["C13"],
        params=dict(pairwise_cost_matrix=Arr(Real, 3)),
        ghost=dict(n_=Int),
        requires={
            "shape": "len(pairwise_cost_matrix) == n_ and len(pairwise_cost_matrix[0]) == n_ and "
                     "len(pairwise_cost_matrix[0][0]) == 3 and n_ >= 0",
            # mirror consistency of the table (proved for the kernel that builds it: C02.table.mirror)
            "mirror": "forall(lambda a, b: pairwise_cost_matrix[a][b][0] == pairwise_cost_matrix[b][a][1], 0, n_, 0, n_)",
        },
        modifies=[],
        ensures={
            "scores": "forall(lambda a: result[0][a] == SCO(" + M + ", a, n_), 0, n_)",
            "victories": "forall(lambda a: result[1][a][0] == CNTW(" + M + ", a, n_, 0), 0, n_)",
            "equalities": "forall(lambda a: result[1][a][1] == CNTW(" + M + ", a, n_, 1), 0, n_)",
            "defeats": "forall(lambda a: result[1][a][2] == CNTW(" + M + ", a, n_, 2), 0, n_)",
            "counts_sum": "forall(lambda a: result[1][a][0] + result[1][a][1] + result[1][a][2] == n_ - 1, 0, n_)",
            "scores_total": "2 * ASUM(result[0], n_) == n_ * (n_ - 1)",
        },
        exit_hints={1: ["cop_asum(scores, pairwise_cost_matrix, n_, n_)", "cop_total(pairwise_cost_matrix, n_, n_)"]},
        loops={
            1: dict(inv={
                "n": "nb_elements == n_",
                "scores": "forall(lambda a: scores[a] == ite(a < el1, SCO(" + M + ", a, n_), SCO(" + M + ", a, el1)), 0, n_)",
                "res": "forall(lambda a, w: results[a][w] == ite(a < el1, CNTW(" + M + ", a, n_, w), "
                       "CNTW(" + M + ", a, el1, w)), 0, n_, 0, 3)",
            }),
            2: dict(inv={
                "scores": "forall(lambda a: scores[a] == " + staged("SCO(" + M + ", a, %s)") + ", 0, n_)",
                "res": "forall(lambda a, w: results[a][w] == " + staged("CNTW(" + M + ", a, %s, w)") + ", 0, n_, 0, 3)",
            }),
        },
        use_lemmas=["copeland_counts_sum"],
        gen=gen_cop,
    )

"""Sidecar contract for corankco/algorithms/parcons/parcons.py — property C06 (the optimality mark of ParCons).

Fragment: the six initialisations before the component loop of `compute_consensus_rankings` and the loop itself.  The
components are opaque items known by identity; `set(c)`, `len(c)` and `can_be_all_tied(set(c), table)` are the
uninterpreted functions SETOF, SIZE and TIED; the sub-solvers return objects the fragment does not look into, and
ghost counters record how many times the auxiliary algorithm / the exact algorithm were called.  What is
proved is the bookkeeping the property states: the mark is set exactly when no component was handed to the auxiliary
algorithm, and the reported weak partitioning has one group per component.  Whether the groups / sub-consensuses are
right is the bounded tier's subject (and, for can_be_all_tied, the contract in pairwise.py).
"""
from pyvc.types import Int, Obj

F = "corankco/algorithms/parcons/parcons.py::ParCons."



def register(reg):
    reg.contract(
        F + "compute_consensus_rankings#flag", props=["C06"],
        fragment={"loop": 1, "prelude": 6},
        params=dict(self=Obj, dataset=Obj, scoring_scheme=Obj),
        fields={"self._bound_for_exact": Int, "self._auxiliary_alg": Obj},
        opaque_glue=True,
        opaque_calls={
            "get_positions": {"ret": "obj"},
            "graph_of_elements": {"ret": "tuple", "n": 2},
            "components": {"ret": "list"},
            "set": {"fn": "SETOF", "args": [0], "ret": "int"},
            "len": {"fn": "SIZE", "args": [0], "ret": "int"},
            "can_be_all_tied": {"fn": "TIED", "args": [0], "ret": "bool"},
            "sub_problem_from_elements": {"ret": "obj"},
            # ghost counters: how many components went to the auxiliary heuristic / to the exact algorithm
            "self._auxiliary_alg.compute_consensus_rankings": {"ret": "obj", "count": "aux_calls"},
            "compute_consensus_rankings": {"ret": "obj", "count": "exact_calls"},
            "_exact_algorithm": {"ret": "obj"},
        },
        ghost_vars={"aux_calls": "0", "exact_calls": "0"},
        ensures={
            # C06.flag: marked optimal exactly when no component went to the auxiliary heuristic
            "flag_iff": "optimal == (aux_calls == 0)",
            # one reported group per component, in the order of the components
            "weak_len": "len(weak_partition) == len(scc)",
            "res_len": "len(res) >= 0",
        },
        loops={
            1: dict(inv={
                "flag": "optimal == (aux_calls == 0)",
                "count": "aux_calls >= 0",
                "weak": "len(weak_partition) == idx_scc_i",
            }),
        },
        notes="ParCons optimality mark (fragment: initialisations + component loop; solvers and sets opaque)",
    )

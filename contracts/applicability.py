"""Sidecar contracts for the applicability predicates and the refusal guards — property C14, last sentence:
"Borda, PickAPerm and BioConsert started from them refuse an incomplete dataset with an exception exactly when they
declared the scheme not relevant."

Schemes are opaque objects: `ScoringScheme.get_*()` are uninterpreted constants (S_UNIF, S_IND, S_UNIF_P(p), S_IND_P(p)),
`scoring_scheme.is_equivalent_to(s)` is the uninterpreted predicate EQUIV(s) (its meaning is C19's subject, proved in
scheme.py).  A predicate's contract says WHICH equivalences it answers with; the guard fragment (the first statement of
compute_consensus_rankings) is proved to raise the documented exception exactly when the dataset is incomplete and that
same answer is False.  For BioConsert the predicate is proved to be the conjunction of its starters' answers (REL(alg),
uninterpreted, the starter known by identity); its refusal is then the starter's own guard.
"""
from pyvc.types import Bool, Obj, Int, List

ALG = "corankco/algorithms/"
PRED = "is_scoring_scheme_relevant_when_incomplete_rankings"

SCHEMES = {
    "get_unifying_scoring_scheme": {"fn": "S_UNIF", "args": [], "ret": "int"},
    "get_induced_measure_scoring_scheme": {"fn": "S_IND", "args": [], "ret": "int"},
    "get_unifying_scoring_scheme_p": {"fn": "S_UNIF_P", "args": [0], "arg_kinds": ["real"], "ret": "int"},
    "get_induced_measure_scoring_scheme_p": {"fn": "S_IND_P", "args": [0], "arg_kinds": ["real"], "ret": "int"},
    "is_equivalent_to": {"fn": "EQUIV", "args": [0], "ret": "bool", "recv": "scoring_scheme"},
}

BORDA_ACCEPTS = "(EQUIV(S_IND()) or EQUIV(S_UNIF()) or EQUIV(S_IND_P(0.5)) or EQUIV(S_UNIF_P(0.5)))"


def register(reg):
    # ---- Borda ---------------------------------------------------------------------------------------------------
    reg.contract(
        ALG + "borda/borda.py::BordaCount." + PRED, props=["C12"],
        params=dict(self=Obj, scoring_scheme=Obj), returns=Bool,
        opaque_calls=SCHEMES,
        ensures={"answer": "result == %s" % BORDA_ACCEPTS},
        notes="Borda's declared applicability: the four documented scheme families",
    )
    reg.contract(
        ALG + "borda/borda.py::BordaCount.compute_consensus_rankings#guard", props=["C14", "C12"],
        fragment={"head": "guard"},
        params=dict(self=Obj, dataset=Obj, scoring_scheme=Obj),
        fields={"dataset.is_complete": Bool},
        opaque_calls={PRED: {"fn": "DECLARED", "args": [], "ret": "bool", "recv": "self"}},
        raises={"ScoringSchemeNotHandledException": "not dataset.is_complete and not DECLARED()"},
        ensures={"passes": "dataset.is_complete or DECLARED()"},
        notes="Borda refuses exactly when the dataset is incomplete and its own predicate answers False",
    )
    # ---- PickAPerm -----------------------------------------------------------------------------------------------
    reg.contract(
        ALG + "pickaperm/pickaperm.py::PickAPerm." + PRED, props=["C14", "C10"],
        params=dict(self=Obj, scoring_scheme=Obj), returns=Bool,
        opaque_calls=SCHEMES,
        ensures={"answer": "result == EQUIV(S_UNIF())"},
        notes="PickAPerm's declared applicability: schemes equivalent to the unifying scheme",
    )
    reg.contract(
        ALG + "pickaperm/pickaperm.py::PickAPerm.compute_consensus_rankings#guard", props=["C14", "C10"],
        fragment={"head": "guard"},
        params=dict(self=Obj, dataset=Obj, scoring_scheme=Obj),
        fields={"dataset.is_complete": Bool},
        opaque_glue=True,
        opaque_calls=dict(SCHEMES, unified_rankings={"ret": "obj"}),
        raises={"InompleteRankingsIncompatibleWithScoringSchemeException":
                "not dataset.is_complete and not EQUIV(S_UNIF())"},
        ensures={"passes": "dataset.is_complete or EQUIV(S_UNIF())"},
        notes="PickAPerm refuses exactly when the dataset is incomplete and the scheme is not equivalent to the "
              "unifying scheme (the very term its predicate answers with)",
    )
    # ---- BioConsert ----------------------------------------------------------------------------------------------
    reg.contract(
        ALG + "bioconsert/bioconsert.py::BioConsert." + PRED, props=["C14"],
        params=dict(self=Obj, scoring_scheme=Obj), returns=Bool,
        fields={"self._starting_algorithms": List(Int)},
        opaque_calls={PRED: {"fn": "REL", "args": [], "ret": "bool", "with_recv": True}},
        ensures={"answer": "result == forall(lambda k: REL(self._starting_algorithms[k]), 0, "
                           "len(self._starting_algorithms))"},
        loops={1: dict(inv={"so_far": "forall(lambda k: REL(self._starting_algorithms[k]), 0, idx_alg)"})},
        notes="BioConsert declares a scheme relevant exactly when every starting algorithm does",
    )

"""Sidecar contract for Ranking.__init__ — properties C16 (views agree with buckets) and C03 (disjoint buckets).

Element ids: an integer id stands for one (type, value) pair; Element(x) preserves identity (assumption A-elem).
len(bucket) is the cardinality of the bucket (uninterpreted, non-negative).
"""
from pyvc.types import Int, SetList, Obj, Arr, Bool

F = "corankco/ranking.py::Ranking."


def register(reg):
    # number of elements in the buckets before bucket k
    reg.spec("def BEFORE(b, k):\n    return 0 if k <= 0 else BEFORE(b, k - 1) + card(b[k - 1])", dict(b=SetList(), k=Int), Int)
    INB = "exists(lambda k: buckets[k][x], 0, %s)"
    TWICE = ("exists(lambda k1, k2: k1 < k2 and exists(lambda x: buckets[k1][x] and buckets[k2][x]), "
             "0, len(buckets), 0, len(buckets))")
    reg.contract(
        F + "__init__", props=["C16", "C03"],
        params=dict(self=Obj, buckets=SetList()),
        requires={},
        modifies=[],
        raises={"ValueError": TWICE},           # C03.ranking.disjoint: refused iff two buckets share an element
        ensures={
            # C16.ranking.inv: positions / domain agree with the buckets
            "domain": "forall(lambda x: has(self._positions, x) == " + INB % "len(buckets)" + ")",
            "positions": "forall(lambda k: forall(lambda x: implies(buckets[k][x], "
                         "self._positions[x] == 1 + BEFORE(buckets, k))), 0, len(buckets))",
            "buckets": "len(self._buckets) == len(buckets) and forall(lambda k: forall(lambda x: "
                       "self._buckets[k][x] == buckets[k][x]), 0, len(buckets))",
        },
        loops={
            1: dict(inv={
                "position": "position == 1 + BEFORE(buckets, idx_bucket)",
                "domain": "forall(lambda x: has(self._positions, x) == " + INB % "idx_bucket" + ")",
                "values": "forall(lambda k: forall(lambda x: implies(buckets[k][x], "
                          "self._positions[x] == 1 + BEFORE(buckets, k))), 0, idx_bucket)",
                "disjoint": "forall(lambda k1, k2: implies(k1 < k2, forall(lambda x: not (buckets[k1][x] and buckets[k2][x]))), "
                            "0, idx_bucket, 0, idx_bucket)",
            }),
            2: dict(inv={
                "domain": "forall(lambda x: has(self._positions, x) == (" + INB % "idx_bucket" + " or seen_element[x]))",
                "values": "forall(lambda k: forall(lambda x: implies(buckets[k][x], "
                          "self._positions[x] == 1 + BEFORE(buckets, k))), 0, idx_bucket)",
                "current": "forall(lambda x: implies(seen_element[x], self._positions[x] == position))",
                "fresh": "forall(lambda x: implies(seen_element[x], not " + INB % "idx_bucket" + "))",
            }),
        },
    )

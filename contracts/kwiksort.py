"""Sidecar contract for KwikSortRandom._where_should_it_be — property C11 (decision kernel)."""
from pyvc.types import Int, Real, Arr, Obj

F = "corankco/algorithms/kwiksort/kwiksortrandom.py::"

P2 = dict(p=Arr(Int), o=Arr(Int), m=Int)


def gen_where(rng):
    m = rng.randint(0, 5)
    p = [rng.randint(-1, 3) for _ in range(m)]
    o = [rng.randint(-1, 3) for _ in range(m)]
    S = rng.choice([
        [[0., 1., 1., 0., 1., 1.], [1., 1., 0., 1., 1., 0.]], [[0., 1., .5, 0., 1., 0.], [.5, .5, 0., .5, .5, 0.]],
        [[0., 1., 0., 0., 0., 0.], [1., 1., 0., 1., 1., 1.]], [[0., .5, 3., 2., 2., .5], [.5, .5, 0., 2., 2., .5]],
        [[0., 1., 8., 64., 512., 4096.], [32768., 32768., 0., 262144., 262144., 2097152.]]])
    return dict(self=None, pos_pivot_rankings=p, pos_other_element_rankings=o, scoring_scheme_numpy=S)


COST = "(" + " + ".join("S[%d][%d] * CNTST(p, o, m, %d)" % (0, k, k) for k in range(6)) + ")"


def register(reg):
    register_partition(reg)
    # number of rankings j < m in which the ordered pair (other, pivot) has status k (status: contracts/pairwise.py)
    reg.spec("def CNTST(p, o, m, k):\n"
             "    return 0 if m <= 0 else CNTST(p, o, m - 1, k) + ite(status(o[m - 1], p[m - 1]) == k, 1, 0)",
             dict(p=Arr(Int), o=Arr(Int), m=Int, k=Int), Int)
    # the five vectorised counts of the code, as counting specs (pointwise equality with the numpy expressions is an
    # obligation generated at each count_nonzero call)
    reg.spec("def cnt_both(p, o, m):\n    return 0 if m <= 0 else cnt_both(p, o, m - 1) + ite(p[m - 1] + o[m - 1] == -2, 1, 0)", P2, Int)
    reg.spec("def cnt_same(p, o, m):\n    return 0 if m <= 0 else cnt_same(p, o, m - 1) + ite(p[m - 1] == o[m - 1], 1, 0)", P2, Int)
    reg.spec("def cnt_miss(p, m):\n    return 0 if m <= 0 else cnt_miss(p, m - 1) + ite(p[m - 1] == -1, 1, 0)", dict(p=Arr(Int), m=Int), Int)
    reg.spec("def cnt_lt(p, o, m):\n    return 0 if m <= 0 else cnt_lt(p, o, m - 1) + ite(o[m - 1] < p[m - 1], 1, 0)", P2, Int)
    RQ = {"ge": "forall(lambda j: p[j] >= -1 and o[j] >= -1, 0, m)"}
    C = ["C11"]
    reg.lemma("kw_c0", P2, "cnt_lt(p, o, m) - cnt_miss(o, m) + cnt_both(p, o, m) == CNTST(p, o, m, 0)", props=C, induction="m", base="0", requires=RQ)
    reg.lemma("kw_c1", P2, "m - cnt_lt(p, o, m) - cnt_same(p, o, m) - cnt_miss(p, m) + cnt_both(p, o, m) == CNTST(p, o, m, 1)", props=C, induction="m", base="0", requires=RQ)
    reg.lemma("kw_c2", P2, "cnt_same(p, o, m) - cnt_both(p, o, m) == CNTST(p, o, m, 2)", props=C, induction="m", base="0", requires=RQ)
    reg.lemma("kw_c3", P2, "cnt_miss(p, m) - cnt_both(p, o, m) == CNTST(p, o, m, 3)", props=C, induction="m", base="0", requires=RQ)
    reg.lemma("kw_c4", P2, "cnt_miss(o, m) - cnt_both(p, o, m) == CNTST(p, o, m, 4)", props=C, induction="m", base="0", requires=RQ)
    reg.lemma("kw_c5", P2, "cnt_both(p, o, m) == CNTST(p, o, m, 5)", props=C, induction="m", base="0", requires=RQ)

    A = dict(S=Arr(Real, 2), p=Arr(Int), o=Arr(Int), m=Int)
    # total penalties of placing `other` before / tied with / after the pivot, from the definition (status counts)
    reg.spec("def kw_before(S, p, o, m):\n    return " + COST, A, Real)
    reg.spec("def kw_tied(S, p, o, m):\n    return " + COST.replace("S[0]", "S[1]"), A, Real)
    reg.spec("def kw_after(S, p, o, m):\n    return (S[0][0] * CNTST(p, o, m, 1) + S[0][1] * CNTST(p, o, m, 0) + "
             "S[0][2] * CNTST(p, o, m, 2) + S[0][3] * CNTST(p, o, m, 4) + S[0][4] * CNTST(p, o, m, 3) + "
             "S[0][5] * CNTST(p, o, m, 5))", A, Real)
    PP, OO, SS = "pos_pivot_rankings", "pos_other_element_rankings", "scoring_scheme_numpy"
    ARGS = "%s, %s, %s, len(%s)" % (SS, PP, OO, PP)
    hints = ["kw_c%d(%s, %s, len(%s))" % (k, PP, OO, PP) for k in range(6)]
    reg.contract(
        F + "KwikSortRandom._where_should_it_be", props=["C11"],
        params=dict(self=Obj, pos_pivot_rankings=Arr(Int), pos_other_element_rankings=Arr(Int),
                    scoring_scheme_numpy=Arr(Real, 2)),
        returns=Int,
        requires={"len": "len(pos_pivot_rankings) == len(pos_other_element_rankings)",
                  "S": "len(scoring_scheme_numpy) == 2 and len(scoring_scheme_numpy[0]) == 6",
                  "ge": "forall(lambda j: pos_pivot_rankings[j] >= -1 and pos_other_element_rankings[j] >= -1, "
                        "0, len(pos_pivot_rankings))"},
        modifies=[],
        abstract_mul=True,
        vec_counts=[("cnt_both", [PP, OO]), ("cnt_same", [PP, OO]), ("cnt_miss", [PP]), ("cnt_miss", [OO]),
                    ("cnt_lt", [PP, OO])],
        after_assign={"comp": ["CNTST(%s, %s, len(%s), %d)" % (PP, OO, PP, k) for k in range(6)]},
        entry_hints=hints,
        ensures={
            # "tie preferred on equal cost, then before": the cheapest pairwise placement of `other` w.r.t. the pivot
            "tie": "iff(result == 0, kw_tied(%s) <= kw_before(%s) and kw_tied(%s) <= kw_after(%s))" % ((ARGS,) * 4),
            "before": "iff(result == -1, not (kw_tied(%s) <= kw_before(%s) and kw_tied(%s) <= kw_after(%s)) "
                      "and kw_before(%s) <= kw_after(%s))" % ((ARGS,) * 6),
            "after": "iff(result == 1, not (kw_tied(%s) <= kw_before(%s) and kw_tied(%s) <= kw_after(%s)) "
                     "and not kw_before(%s) <= kw_after(%s))" % ((ARGS,) * 6),
        },
        gen=gen_where,
    )


# ---- the partition step of the recursion (fragment) -------------------------------------------------------------------
def register_partition(reg):
    from pyvc.types import Int, Obj, List
    FK = "corankco/algorithms/kwiksort/kwiksortabs.py::KwikSortAbs."
    W = "WHERE(positions_pivot, positions[IDOF(%s)])"

    def placed(lst, rel, lo="0"):
        return ("forall(lambda j: exists(lambda k: %s[j] == remaining_elements[k], 0, %%s) and %s[j] != pivot and %s, %s, len(%s))"
                % (lst, lst, rel % (W % ("%s[j]" % lst)), lo, lst))

    def complete(upto):
        w = W % "remaining_elements[k]"
        return ("forall(lambda k: implies(remaining_elements[k] != pivot, "
                "ite(%s < 0, exists(lambda j: before[j] == remaining_elements[k], 0, len(before)), "
                "ite(%s > 0, exists(lambda j: after[j] == remaining_elements[k], 0, len(after)), "
                "exists(lambda j: same[j] == remaining_elements[k], 1, len(same))))), 0, %s)" % (w, w, upto))

    def clauses(upto):
        return {
            "before_ok": placed("before", "%s < 0") % upto,
            "after_ok": placed("after", "%s > 0") % upto,
            "same_ok": placed("same", "%s == 0", lo="1") % upto,
            "pivot_first": "len(same) >= 1 and same[0] == pivot",
            "complete": complete(upto),
        }

    reg.contract(
        FK + "_kwik_sort#partition", props=["C03", "C11"],
        fragment={"loop": 1},
        params=dict(self=Obj, remaining_elements=List(Int), mapping_element_id=Obj, positions=List(Int),
                    scoring_scheme=Obj, pivot=Int, positions_pivot=Int, before=List(Int), after=List(Int),
                    same=List(Int)),
        requires={
            "fresh": "len(before) == 0 and len(after) == 0 and len(same) == 1 and same[0] == pivot",
            "ids": "forall(lambda k: 0 <= IDOF(remaining_elements[k]) and IDOF(remaining_elements[k]) < len(positions), "
                   "0, len(remaining_elements))",
        },
        modifies=["before", "after", "same"],
        opaque_calls={
            "get": {"fn": "IDOF", "args": [0], "ret": "int", "recv": "mapping_element_id"},
            "_where_should_it_be": {"fn": "WHERE", "args": [0, 1], "ret": "int", "recv": "self"},
        },
        ensures=clauses("len(remaining_elements)"),
        loops={1: dict(inv=clauses("idx_element"))},
        notes="partition step of KwikSort (fragment: the loop over the remaining elements; the placement decision is the "
              "uninterpreted WHERE(row of the pivot, row of the element), proved separately for _where_should_it_be)",
    )

"""Sidecar contract for corankco/algorithms/pickaperm/pickaperm.py — properties C10 and C04 (the scan of PickAPerm).

The scan is verified as a FRAGMENT: the four initialisations right before the loop and the loop itself.  The input rankings
are opaque objects, represented by integer identities; `KemenyComputingFactory.get_kemeny_score(ranking, dataset)` is the
uninterpreted, finite-valued function SCORE of the ranking (assumed pure: same object, same dataset => same float;
its value is C01's subject).  What precedes the loop (the refusal of incomplete datasets, the unification: bounded tier
and C14) and the construction of the Consensus object are outside the fragment.
"""
from pyvc.types import Int, Bool, Obj, List

F = "corankco/algorithms/pickaperm/pickaperm.py::PickAPerm."

R = "rankings_to_use"


def scan_harness(raw):
    """run the real PickAPerm.compute_consensus_rankings on a complete dataset of len(ids) distinct rankings with
    get_kemeny_score stubbed by a score table; when the input carries no table, every pattern of scores over {1, 2, 3}
    is tried (only their order matters to the scan)"""
    import itertools
    from unittest import mock
    from corankco.algorithms.pickaperm import pickaperm as mod
    from corankco.dataset import Dataset
    from corankco.ranking import Ranking
    from corankco.scoringscheme import ScoringScheme
    from corankco.consensus import ConsensusFeature
    ids = list(raw["rankings_to_use"])
    n = len(ids)
    if n == 0 or n > 6 or len(set(ids)) != n:
        return None
    one = bool(raw["return_at_most_one_ranking"])
    perms = list(itertools.islice(itertools.permutations(range(4)), n))
    tables = [raw["scores"]] if raw.get("scores") is not None else list(itertools.product([0., 1., 2.], repeat=n))[:250]
    envs = []
    for table in tables:
        ds = Dataset([Ranking([{e} for e in p]) for p in perms])
        objs = ds.rankings
        ident = {id(o): ids[k] for k, o in enumerate(objs)}
        score = {ids[k]: float(table[k]) for k in range(n)}
        with mock.patch.object(mod.KemenyComputingFactory, "get_kemeny_score",
                               lambda self, ranking, dataset, _i=ident, _s=score: _s[_i[id(ranking)]]):
            cons = mod.PickAPerm().compute_consensus_rankings(ds, ScoringScheme.get_unifying_scoring_scheme(), one)
        envs.append({"rankings_to_use": ids, "return_at_most_one_ranking": one,
                     "consensus": [ident.get(id(r), -1) for r in cons.consensus_rankings],
                     "dst_min": cons.features[ConsensusFeature.KEMENY_SCORE],
                     "SCORE": (lambda x, _s=score: _s[x]), "_stub": {"get_kemeny_score": {str(k): v for k, v in score.items()}}})
    return envs


def gen_scan(rng):
    n = rng.randint(1, 5)
    ids = rng.sample(range(20), n)
    return {"rankings_to_use": ids, "dataset": None, "scoring_scheme": None,
            "return_at_most_one_ranking": rng.random() < 0.5, "scores": [float(rng.randint(0, 3)) for _ in range(n)]}


def register(reg):
    def members(upto):
        return ("forall(lambda j: exists(lambda k: consensus[j] == %s[k] and SCORE(%s[k]) == dst_min, 0, %s), "
                "0, len(consensus))" % (R, R, upto))

    def all_minimal(upto):
        return ("implies(not return_at_most_one_ranking, forall(lambda k: implies(SCORE(%s[k]) == dst_min, "
                "exists(lambda j: consensus[j] == %s[k], 0, len(consensus))), 0, %s))" % (R, R, upto))

    def lower(upto):
        return "forall(lambda k: dst_min <= SCORE(%s[k]), 0, %s)" % (R, upto)

    reg.contract(
        F + "compute_consensus_rankings#scan", props=["C10", "C04"],
        fragment={"loop": 1, "prelude": 4},
        params=dict(rankings_to_use=List(Int), dataset=Obj, scoring_scheme=Obj, return_at_most_one_ranking=Bool),
        opaque_calls={
            "KemenyComputingFactory": {"ret": "obj"},
            "get_kemeny_score": {"fn": "SCORE", "args": [0], "ret": "real", "below_inf": True},
        },
        local_types={"consensus": List(Int)},
        ensures={
            # C10.scan.min / C04.pick.min: the reported score is a lower bound of the scores of all scanned rankings ...
            "min": lower("len(%s)" % R),
            # ... every returned ranking is one of the scanned rankings and has exactly that score
            "members": members("len(%s)" % R),
            "nonempty": "implies(len(%s) > 0, len(consensus) >= 1)" % R,
            "at_most_one": "implies(return_at_most_one_ranking, len(consensus) <= 1)",
            # C10.scan.all: when all are requested every minimal scanned ranking is returned
            "all_minimal": all_minimal("len(%s)" % R),
            "empty": "implies(len(%s) == 0, len(consensus) == 0 and dst_min == INF)" % R,
        },
        loops={
            1: dict(inv={
                "start": "implies(idx_ranking == 0, dst_min == INF and len(consensus) == 0)",
                "nonempty": "implies(idx_ranking > 0, len(consensus) >= 1)",
                "min": lower("idx_ranking"),
                "members": members("idx_ranking"),
                "at_most_one": "implies(return_at_most_one_ranking, len(consensus) <= 1)",
                "all_minimal": all_minimal("idx_ranking"),
            }),
        },
        obligations_for={"": ["C10", "C04"]},
        gen=gen_scan, rt_harness=scan_harness,
        notes="scan of PickAPerm (fragment: 4 initialisations + the loop); SCORE = get_kemeny_score (uninterpreted)",
    )

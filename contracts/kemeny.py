"""Sidecar contract for corankco/kemeny_score_computation.py — property C01 (the counting merge of the n·log n routine).

`KemenyComputingFactory.__merge(left, right, s_1, s_2)` merges two sorted arrays of bucket ids and, while doing so, adds
to s_1[1] the number of pairs (i, j) with left[i] > right[j] (pairs whose order in the consensus is the reverse of their
order in the input ranking) and to s_2[0] the number of pairs with left[i] == right[j] (pairs ordered in the input ranking
but tied in the consensus).  Specification functions:

    GT(a, n, v)  = #{i < n : a[i] > v}          EQ(a, n, v)  = #{i < n : a[i] == v}
    INVS(a, na, b, m) = sum_{j < m} GT(a, na, b[j])      EQS(a, na, b, m) = sum_{j < m} EQ(a, na, b[j])

The contract: for sorted inputs the result is the sorted merge (same multiset: EQ(result, ., v) = EQ(left, ., v) +
EQ(right, ., v) for every v), s_1[1] grows by exactly INVS, s_2[0] by exactly EQS, nothing else changes.
The recursion `__mergesortlike` and the per-ranking glue `__cost_by_ranking` are decided by the bounded tier.
"""
from pyvc.types import Int, Arr, SetList, Obj, IntDict

F = "corankco/kemeny_score_computation.py::KemenyComputingFactory."

A1 = dict(a=Arr(Int), n=Int, v=Int)

SORTED = "forall(lambda i, j: implies(i <= j, %s[i] <= %s[j]), 0, %s)"


def gen_merge(rng):
    nl, nr = rng.randint(0, 5), rng.randint(0, 5)
    left = sorted(rng.randint(0, 3) for _ in range(nl))
    right = sorted(rng.randint(0, 3) for _ in range(nr))
    return dict(left=left, right=right, s_1=[rng.randint(0, 9) for _ in range(6)], s_2=[rng.randint(0, 9) for _ in range(6)])


def register(reg):
    reg.spec("def GT(a, n, v):\n    return 0 if n <= 0 else GT(a, n - 1, v) + (1 if a[n - 1] > v else 0)", A1, Int)
    reg.spec("def EQ(a, n, v):\n    return 0 if n <= 0 else EQ(a, n - 1, v) + (1 if a[n - 1] == v else 0)", A1, Int)
    AB = dict(a=Arr(Int), na=Int, b=Arr(Int), m=Int)
    reg.spec("def INVS(a, na, b, m):\n    return 0 if m <= 0 else INVS(a, na, b, m - 1) + GT(a, na, b[m - 1])", AB, Int)
    reg.spec("def EQS(a, na, b, m):\n    return 0 if m <= 0 else EQS(a, na, b, m - 1) + EQ(a, na, b[m - 1])", AB, Int)

    # ---- lemmas about the counts of a sorted array around a value ---------------------------------------------------
    reg.lemma("gt_zero", A1, "GT(a, n, v) == 0", props=["C01"], induction="n", base="0",
              requires={"le": "forall(lambda i: a[i] <= v, 0, n)"})
    reg.lemma("eq_zero", A1, "EQ(a, n, v) == 0", props=["C01"], induction="n", base="0",
              requires={"ne": "forall(lambda i: a[i] != v, 0, n)"})
    AC = dict(a=Arr(Int), c=Int, n=Int, v=Int)
    reg.lemma("gt_tail", AC, "GT(a, n, v) == n - c", props=["C01"], induction="n", base="c",
              requires={"c": "0 <= c", "le": "forall(lambda i: a[i] <= v, 0, c)", "gt": "forall(lambda i: a[i] > v, c, n)"},
              base_hints=["gt_zero(a, c, v)"])
    reg.lemma("eq_run", AC, "EQ(a, n, v) == n - c", props=["C01"], induction="n", base="c",
              requires={"c": "0 <= c", "ne": "forall(lambda i: a[i] != v, 0, c)", "eq": "forall(lambda i: a[i] == v, c, n)"},
              base_hints=["eq_zero(a, c, v)"])
    AD = dict(a=Arr(Int), c=Int, d=Int, n=Int, v=Int)
    reg.lemma("eq_block", AD, "EQ(a, n, v) == d - c", props=["C01"], induction="n", base="d",
              requires={"c": "0 <= c and c <= d", "ne": "forall(lambda i: a[i] != v, 0, c)",
                        "eq": "forall(lambda i: a[i] == v, c, d)", "ne2": "forall(lambda i: a[i] != v, d, n)"},
              base_hints=["eq_run(a, c, d, v)"])

    # two arrays that agree below n have the same counts below n (frame of a store at index >= n)
    reg.lemma("eq_frame", dict(a=Arr(Int), b=Arr(Int), n=Int, v=Int), "EQ(a, n, v) == EQ(b, n, v)", props=["C01"],
              induction="n", base="0", requires={"same": "forall(lambda i: a[i] == b[i], 0, n)"})

    L, R_ = "left", "right"
    NL, NR = "nb_elem_left", "nb_elem_right"
    CL, CR, CM = "cursor_left", "cursor_right", "cursor_merge"
    INV_NOW = "INVS(left, nb_elem_left, right, cursor_right)"
    EQS_NOW = "EQS(left, nb_elem_left, right, cursor_right)"
    BOUNDS = {
        "sizes": "nb_elem_left == len(left) and nb_elem_right == len(right) and len(res) == nb_elem_left + nb_elem_right",
        "cursors": "0 <= cursor_left and cursor_left <= nb_elem_left and 0 <= cursor_right and cursor_right <= nb_elem_right "
                   "and cursor_merge == cursor_left + cursor_right",
    }
    FRAME = {
        "frame_s1": "forall(lambda k: implies(k != 1, s_1[k] == old(s_1)[k]), 0, 6)",
        "frame_s2": "forall(lambda k: implies(k != 0, s_2[k] == old(s_2)[k]), 0, 6)",
    }
    RES = {
        "res_sorted": "forall(lambda i, j: implies(i <= j, res[i] <= res[j]), 0, cursor_merge)",
        "res_le_left": "implies(cursor_left < nb_elem_left, forall(lambda k: res[k] <= left[cursor_left], 0, cursor_merge))",
        "res_le_right": "implies(cursor_right < nb_elem_right, "
                        "forall(lambda k: res[k] <= right[cursor_right], 0, cursor_merge))",
        "perm": "forall(lambda v: EQ(res, cursor_merge, v) == EQ(left, cursor_left, v) + EQ(right, cursor_right, v))",
    }
    BELOW = "implies(cursor_right < nb_elem_right, forall(lambda i: left[i] < right[cursor_right], 0, cursor_left))"
    reg.contract(
        F + "__merge", props=["C01"],
        params=dict(left=Arr(Int), right=Arr(Int), s_1=Arr(Int), s_2=Arr(Int)),
        requires={
            "sorted_left": SORTED % (L, L, "len(left)"),
            "sorted_right": SORTED % (R_, R_, "len(right)"),
            "counters": "len(s_1) == 6 and len(s_2) == 6",
        },
        modifies=["s_1", "s_2"],
        returns=Arr(Int),
        ensures=dict(FRAME, **{
            "length": "len(result) == len(left) + len(right)",
            # the result is the sorted merge: sorted, and every value occurs as often as in left and right together
            "sorted": SORTED % ("result", "result", "len(result)"),
            "perm": "forall(lambda v: EQ(result, len(result), v) == EQ(left, len(left), v) + EQ(right, len(right), v))",
            # C01.merge.inversions / C01.merge.ties
            "inversions": "s_1[1] == old(s_1)[1] + INVS(left, len(left), right, len(right))",
            "ties": "s_2[0] == old(s_2)[0] + EQS(left, len(left), right, len(right))",
        }),
        loops={
            1: dict(inv=dict(BOUNDS, **FRAME, **RES, **{
                "inversions": "s_1[1] == old(s_1)[1] + " + INV_NOW,
                "ties": "s_2[0] == old(s_2)[0] + " + EQS_NOW,
                "below": BELOW,
            })),
            2: dict(snap={"cl0": CL, "cm0": CM}, inv=dict({
                "range": "cl0 <= cursor_left and cursor_left <= nb_elem_left",
                "count": "cpt1 == cursor_left - cl0 and cursor_merge == cm0 + cpt1",
                "run": "forall(lambda i: left[i] == nb1, cl0, cursor_left)",
            }, **RES)),
            3: dict(snap={"cr0": CR, "cm1": CM}, inv=dict({
                "range": "cr0 <= cursor_right and cursor_right <= nb_elem_right",
                "count": "cpt2 == cursor_right - cr0 and cursor_merge == cm1 + cpt2",
                "run": "forall(lambda j: right[j] == nb1, cr0, cursor_right)",
                "inversions": INV_NOW + " == INVS(left, nb_elem_left, right, cr0) + cpt2 * (nb_elem_left - cursor_left)",
                "ties": EQS_NOW + " == EQS(left, nb_elem_left, right, cr0) + cpt2 * cpt1",
            }, **RES)),
            4: dict(inv=dict(BOUNDS, **RES)),
            5: dict(snap={"cr5": CR}, inv=dict(BOUNDS, **RES, **{
                "range": "cr5 <= cursor_right",
                "inversions": INV_NOW + " == INVS(left, nb_elem_left, right, cr5)",
                "ties": EQS_NOW + " == EQS(left, nb_elem_left, right, cr5)",
            })),
        },
        hints={
            1: ["implies(cursor_left < nb_elem_left and cursor_right < nb_elem_right and "
                "left[cursor_left] > right[cursor_right], gt_tail(left, cursor_left, nb_elem_left, right[cursor_right]) and "
                "eq_zero(left, nb_elem_left, right[cursor_right]))"],
            5: ["implies(cursor_right < nb_elem_right, gt_zero(left, nb_elem_left, right[cursor_right]) and "
                "eq_zero(left, nb_elem_left, right[cursor_right]))"],
        },
        exit_hints={
            2: ["eq_block(left, cl0, cursor_left, nb_elem_left, nb1)", "gt_tail(left, cursor_left, nb_elem_left, nb1)"],
        },
        use_lemmas=["eq_frame"],
        gen=gen_merge,
        notes="counting merge of the n log n Kemeny-score routine",
    )
    register_runs(reg)
    register_missing(reg)
    register_score_glue(reg)


def runs_harness(raw):
    """the real __cost_by_ranking on an input ranking made of ONE bucket whose elements sit in the consensus buckets
    `r_prime_i`: the loop body under contract then runs exactly once, from s_1[2] = 0, and s_1 is returned; only entry 2
    is observable this way (the other entries are written by the rest of the function), so the frame clause is T1 only"""
    from corankco.kemeny_score_computation import KemenyComputingFactory
    from corankco.ranking import Ranking
    from corankco.element import Element
    ids = sorted(raw["r_prime_i"])
    if not ids or min(ids) < 0:
        return None
    nb = max(ids) + 1
    # consensus: bucket k holds the elements mapped to k plus one private element (so that no bucket is empty)
    cons = [set() for _ in range(nb)]
    for e, k in enumerate(ids):
        cons[k].add(e)
    for k in range(nb):
        cons[k].add(1000 + k)
    consensus = Ranking(cons)
    mapping = {Element(e): k for k in range(nb) for e in cons[k]}
    r_input = Ranking([set(range(len(ids)))])
    fn = getattr(KemenyComputingFactory, "_KemenyComputingFactory__cost_by_ranking")
    s_1, _s_2 = fn(consensus, mapping, r_input)
    return [{"r_prime_i": ids, "s_1": [0, 0, int(s_1[2]), 0, 0, 0], "old": (lambda x: [0] * 6)}]


def gen_runs(rng):
    n = rng.randint(1, 6)
    return {"r_prime_i": sorted(rng.randint(0, 3) for _ in range(n)), "s_1": [0] * 6}


def register_runs(reg):
    """the run-length loop of __cost_by_ranking: for one sorted bucket b of the input ranking (bucket ids in the consensus),
    s_1[2] grows by the number of pairs of b that the consensus orders strictly = INVS(b, n, b, n)"""
    B, N = "bucket_i_r", "bucket_size_r"
    # repeated addition: keeps the induction over a run free of products (the product appears in one tiny lemma)
    reg.spec("def MULR(k, g):\n    return 0 if k <= 0 else MULR(k - 1, g) + g", dict(k=Int, g=Int), Int)
    reg.lemma("mulr_is_mul", dict(k=Int, g=Int), "MULR(k, g) == k * g", props=["C01"], induction="k", base="0")
    reg.lemma("invs_run", dict(a=Arr(Int), na=Int, b=Arr(Int), c0=Int, c=Int, g=Int),
              "INVS(a, na, b, c) == INVS(a, na, b, c0) + MULR(c - c0, g)", props=["C01"], induction="c", base="c0",
              requires={"c0": "0 <= c0", "same": "forall(lambda j: GT(a, na, b[j]) == g, c0, c)"},
              hints=["invs_run(a, na, b, c0, c, g)"])
    reg.contract(
        F + "__cost_by_ranking#runs", props=["C01"],
        fragment={"body_of_loop": 6},
        params=dict(r_prime_i=Arr(Int), s_1=Arr(Int)),
        requires={
            "sorted": SORTED % ("r_prime_i", "r_prime_i", "len(r_prime_i)"),
            "counters": "len(s_1) == 6",
        },
        modifies=["s_1"],
        ensures={
            "ordered_pairs": "s_1[2] == old(s_1)[2] + INVS(r_prime_i, len(r_prime_i), r_prime_i, len(r_prime_i))",
            "frame": "forall(lambda k: implies(k != 2, s_1[k] == old(s_1)[k]), 0, 6)",
        },
        loops={
            7: dict(inv={
                "range": "0 <= cursor and cursor <= bucket_size_r and bucket_size_r == len(bucket_i_r)",
                "count": "s_1_2 == INVS(%s, %s, %s, cursor)" % (B, N, B),
                "boundary": "implies(0 < cursor and cursor < bucket_size_r, %s[cursor - 1] < %s[cursor])" % (B, B),
            }),
            8: dict(snap={"c0": "cursor"}, inv={
                "range": "c0 <= cursor and cursor <= bucket_size_r - 1",
                "count": "repetition == cursor - c0 + 1",
                "run": "forall(lambda i: %s[i] == %s[c0], c0, cursor + 1)" % (B, B),
            }),
        },
        exit_hints={
            8: ["forall(lambda j: implies(c0 <= j and j <= cursor, GT(%s, %s, %s[j]) == GT(%s, %s, %s[c0])))" % (B, N, B, B, N, B),
                "gt_tail(%s, cursor + 1, %s, %s[c0])" % (B, N, B),
                "invs_run(%s, %s, %s, c0, cursor + 1, %s - (cursor + 1))" % (B, N, B, N),
                "mulr_is_mul(cursor + 1 - c0, %s - (cursor + 1))" % N],
            7: ["implies(cursor == bucket_size_r - 1, gt_zero(%s, %s, %s[cursor]))" % (B, N, B)],
        },
        gen=gen_runs, rt_harness=runs_harness,
        notes="run-length count of the pairs of one input bucket that the consensus orders (fragment: body of the loop)",
    )


def missing_harness(raw):
    """the real __cost_by_ranking on a consensus whose bucket k has sizes[k] elements, the input ranking holding (in one
    bucket per consensus bucket) the first sizes[k] - t_3[k] of them: entries s_1[5], s_2[3], s_2[5] of the returned
    vectors are written by the loop under contract only, from 0 (the frame clauses are T1 only)"""
    from corankco.kemeny_score_computation import KemenyComputingFactory
    from corankco.ranking import Ranking
    from corankco.element import Element
    sizes, t_3 = raw["sizes"], raw["t_3"]
    if not sizes or any(t > s_ or s_ < 1 for t, s_ in zip(t_3, sizes)):
        return None
    cons, present, nxt = [], [], 0
    for s_, t in zip(sizes, t_3):
        b = list(range(nxt, nxt + s_))
        nxt += s_
        cons.append(set(b))
        if s_ - t > 0:
            present.append(set(b[:s_ - t]))
    if raw.get("shuffle"):
        present = present[::-1]
    consensus = Ranking(cons)
    mapping = {Element(e): k for k in range(len(cons)) for e in cons[k]}
    r_input = Ranking(present)
    fn = getattr(KemenyComputingFactory, "_KemenyComputingFactory__cost_by_ranking")
    s_1, s_2 = fn(consensus, mapping, r_input)
    tot = sum(t_3)
    g = {"card": len}
    return [dict(g, ranking_consensus=cons, t_3=list(t_3), nb_missing_remaining=tot,
                 s_1=[0, 0, 0, 0, 0, int(s_1[5])], s_2=[0, 0, 0, int(s_2[3]), 0, int(s_2[5])],
                 old=(lambda x: [0] * 6 if isinstance(x, list) else tot))]


def gen_missing(rng):
    nb = rng.randint(1, 5)
    sizes = [rng.randint(1, 4) for _ in range(nb)]
    return {"sizes": sizes, "t_3": [rng.randint(0, s_) for s_ in sizes], "shuffle": rng.random() < 0.5}


def register_missing(reg):
    """the loop of __cost_by_ranking over the buckets of the consensus (missing-element counts): with t_3[i] the number of
    elements of consensus bucket i that the input ranking lacks, and nb_missing_remaining their total,
       s_1[5] grows by the number of pairs (x in bucket i, y in a later bucket), both missing  = sum_i t_3[i] * (total - sum_{j<=i} t_3[j])
       s_2[3] grows by the number of pairs of one bucket with exactly one of the two missing  = sum_i (|bucket i| - t_3[i]) * t_3[i]
       s_2[5] grows by the number of pairs of one bucket, both missing                        = sum_i t_3[i] * (t_3[i] - 1) / 2
    and no other counter changes.  How t_3 is obtained (set difference, dict lookups) is outside the fragment (bounded)."""
    T = dict(t=Arr(Int), n=Int)
    reg.spec("def MISSING_UPTO(t, n):\n    return 0 if n <= 0 else MISSING_UPTO(t, n - 1) + t[n - 1]", T, Int)
    reg.spec("def BOTH_MISSING_ORDERED(t, n, tot):\n    return 0 if n <= 0 else BOTH_MISSING_ORDERED(t, n - 1, tot) + "
             "t[n - 1] * (tot - MISSING_UPTO(t, n))", dict(t=Arr(Int), n=Int, tot=Int), Int)
    reg.spec("def ONE_MISSING_TIED(R, t, n):\n    return 0 if n <= 0 else ONE_MISSING_TIED(R, t, n - 1) + "
             "(card(R[n - 1]) - t[n - 1]) * t[n - 1]", dict(R=SetList(), t=Arr(Int), n=Int), Int)
    # twice the number of pairs: keeps the specification free of division
    reg.spec("def BOTH_MISSING_TIED2(t, n):\n    return 0 if n <= 0 else BOTH_MISSING_TIED2(t, n - 1) + "
             "t[n - 1] * (t[n - 1] - 1)", T, Int)
    # x * (x - 1) is even: TRI(x) = 0 + 1 + ... + (x - 1) is its half (needed for the float division by 2 stored in s_2[5])
    reg.spec("def TRI(x):\n    return 0 if x <= 0 else TRI(x - 1) + (x - 1)", dict(x=Int), Int)
    reg.lemma("tri_even", dict(x=Int), "x * (x - 1) == 2 * TRI(x)", props=["C01"], induction="x", base="0")
    reg.lemma("tri_half", dict(x=Int), "x * (x - 1) / 2 == TRI(x)", props=["C01"], requires={"nn": "0 <= x"}, hints=["tri_even(x)"])
    N = "len(ranking_consensus)"
    reg.contract(
        F + "__cost_by_ranking#missing", props=["C01"],
        fragment={"loop": 5},
        params=dict(ranking_consensus=SetList(), t_3=Arr(Int), nb_missing_remaining=Int, s_1=Arr(Int), s_2=Arr(Int)),
        requires={
            "sizes": "len(t_3) == %s and len(s_1) == 6 and len(s_2) == 6" % N,
            "counts": "forall(lambda i: 0 <= t_3[i], 0, len(t_3))",
            "total": "nb_missing_remaining == MISSING_UPTO(t_3, len(t_3))",
        },
        modifies=["s_1", "s_2"],
        ensures={
            "both_missing_ordered": "s_1[5] == old(s_1)[5] + BOTH_MISSING_ORDERED(t_3, len(t_3), old(nb_missing_remaining))",
            "one_missing_tied": "s_2[3] == old(s_2)[3] + ONE_MISSING_TIED(ranking_consensus, t_3, len(t_3))",
            "both_missing_tied": "2 * s_2[5] == 2 * old(s_2)[5] + BOTH_MISSING_TIED2(t_3, len(t_3))",
            "frame_s1": "forall(lambda k: implies(k != 5, s_1[k] == old(s_1)[k]), 0, 6)",
            "frame_s2": "forall(lambda k: implies(k != 3 and k != 5, s_2[k] == old(s_2)[k]), 0, 6)",
        },
        loops={
            9: dict(snap={"tot0": "nb_missing_remaining"}, inv={
                "remaining": "nb_missing_remaining == tot0 - MISSING_UPTO(t_3, idx_consensus_i)",
                "both_missing_ordered": "s_1[5] == old(s_1)[5] + BOTH_MISSING_ORDERED(t_3, idx_consensus_i, tot0)",
                "one_missing_tied": "s_2[3] == old(s_2)[3] + ONE_MISSING_TIED(ranking_consensus, t_3, idx_consensus_i)",
                "both_missing_tied": "2 * s_2[5] == 2 * old(s_2)[5] + BOTH_MISSING_TIED2(t_3, idx_consensus_i)",
                "frame_s1": "forall(lambda k: implies(k != 5, s_1[k] == old(s_1)[k]), 0, 6)",
                "frame_s2": "forall(lambda k: implies(k != 3 and k != 5, s_2[k] == old(s_2)[k]), 0, 6)",
            }),
        },
        gen=gen_missing, rt_harness=missing_harness,
        int_witness={"s_2[5]": "s_2[5] + TRI(t_3[idx_consensus_i])"},
        hints={9: ["implies(idx_consensus_i < len(t_3), tri_even(t_3[idx_consensus_i]) and tri_half(t_3[idx_consensus_i]))"]},
        notes="missing-element pair counts of one input ranking (fragment: the loop over the buckets of the consensus)",
    )


def register_score_glue(reg):
    """get_kemeny_score, before the counting: (1) the dict built from the candidate maps every element of the candidate to
    the index of its bucket and has no other key; (2) one iteration of the completeness check raises the dedicated
    exception exactly when the input ranking holds an element the dict lacks."""
    M = "mapping_elem_consensus_id_bucket"

    def mapped(upto):
        return ("forall(lambda e, j: implies(0 <= j and j < %s and ranking[j][e], has(%s, e) and %s[e] == j))"
                % (upto, M, M))

    def only(upto, extra=""):
        return ("forall(lambda e: implies(has(%s, e), exists(lambda j: ranking[j][e], 0, %s)%s))" % (M, upto, extra))

    reg.contract(
        F + "get_kemeny_score#mapping", props=["C01"],
        fragment={"loop": 1, "prelude": 2},
        params=dict(self=Obj, ranking=SetList(), dataset=Obj),
        requires={
            # buckets of a Ranking are pairwise disjoint (Ranking.__init__ refuses anything else)
            "disjoint": "forall(lambda j1, j2, e: implies(0 <= j1 and j1 < j2 and j2 < len(ranking), "
                        "not (ranking[j1][e] and ranking[j2][e])))",
        },
        ensures={"mapped": mapped("len(ranking)"), "only": only("len(ranking)")},
        loops={
            1: dict(inv={
                "id": "id_bucket == idx_bucket_consensus",
                "mapped": mapped("idx_bucket_consensus"),
                "only": only("idx_bucket_consensus"),
            }),
            2: dict(inv={
                "earlier": mapped("idx_bucket_consensus"),
                "current": "forall(lambda e: implies(seen_elem_consensus[e], has(%s, e) and %s[e] == id_bucket))" % (M, M),
                "only": only("idx_bucket_consensus", " or seen_elem_consensus[e]"),
            }),
        },
        notes="candidate element -> bucket index dict of get_kemeny_score (fragment: 2 initialisations + the first loop)",
    )
    reg.contract(
        F + "get_kemeny_score#refusal", props=["C01"],
        fragment={"body_of_loop": 3},
        params={"self": Obj, "ranking_dataset": SetList(), M: IntDict(Int)},
        opaque_glue=True,
        raises={
            "InvalidRankingsForComputingDistance":
                "exists(lambda e: exists(lambda j: ranking_dataset[j][e], 0, len(ranking_dataset)) and not has(%s, e))" % M,
        },
        loops={
            4: dict(inv={
                "complete": "forall(lambda e, j: implies(0 <= j and j < idx_bucket_ranking_dataset and ranking_dataset[j][e], "
                            "has(%s, e)))" % M,
            }),
            5: dict(inv={
                "earlier": "forall(lambda e, j: implies(0 <= j and j < idx_bucket_ranking_dataset and ranking_dataset[j][e], "
                           "has(%s, e)))" % M,
                "current": "forall(lambda e: implies(seen_element[e], has(%s, e)))" % M,
            }),
        },
        notes="completeness check of get_kemeny_score for one input ranking (fragment: body of the loop over the dataset)",
    )

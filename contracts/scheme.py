"""Sidecar contracts for corankco/scoringscheme.py — property C19 (validation; equivalence)."""
from pyvc.types import Int, Real, Arr, List, Float, Obj, Bool

F = "corankco/scoringscheme.py::ScoringScheme."

BAD = ("exists(lambda k: isnan(penalties[0][k]) or penalties[0][k] < 0 or isnan(penalties[1][k]) or penalties[1][k] < 0, "
       "0, 6)")
ASSOC = ("(penalties[0][0] == 0 and penalties[0][1] > 0 and penalties[0][3] <= penalties[0][4] and "
         "penalties[1][0] == penalties[1][1] and penalties[1][2] == 0 and penalties[1][3] == penalties[1][4])")

VALS = [0.0, 0.5, 1.0, 2.0, float("nan"), -1.0]


def gen_init(rng):
    def vec():
        return [rng.choice(VALS) if rng.random() < 0.15 else rng.choice([0.0, 0.5, 1.0, 2.0]) for _ in range(6)]
    b, t = vec(), vec()
    if rng.random() < 0.6:      # mostly near-valid schemes
        b[0] = 0.0
        b[1] = rng.choice([0.5, 1.0, 2.0, 0.0, float("nan")]) if rng.random() < 0.3 else 1.0
        b[3], b[4] = sorted([x for x in (b[3], b[4])], key=lambda v: (v != v, v))
        t[1] = t[0]
        t[2] = 0.0
        t[4] = t[3]
        if rng.random() < 0.3:
            k = rng.randrange(6)
            (b if rng.random() < 0.5 else t)[k] = rng.choice(VALS)
    return dict(self=None, penalties=[b, t])


def gen_equiv(rng):
    def scheme():
        v = [0.0, 0.5, 1.0, 2.0, 3.0]
        b3, b4 = sorted([rng.choice(v), rng.choice(v)])
        t0, t3 = rng.choice(v), rng.choice(v)
        return [[0.0, rng.choice(v[1:]), rng.choice(v), b3, b4, rng.choice(v)], [t0, t0, 0.0, t3, t3, rng.choice(v)]]
    a = scheme()
    mode = rng.random()
    if mode < 0.4:
        k = rng.choice([0.25, 0.5, 2.0, 4.0, 1.0])
        b = [[x * k for x in vec] for vec in a]
        if mode < 0.15:       # perturb one entry (possibly beyond `stop`, possibly in T only)
            vv, kk = rng.randrange(2), rng.randrange(6)
            b[vv][kk] = b[vv][kk] + 1.0
            if vv == 1:
                b[1][0] = b[1][1] = max(b[1][0], b[1][1])
    else:
        b = scheme()
    K = rng.choice([0.25, 0.5, 1.0, 2.0, 4.0])
    return {"self": None, "other": None, "stop": rng.choice([3, 6]), "K": K,
            "self._penalty_vectors": a, "other.penalty_vectors": b}


def register(reg):
    reg.contract(
        F + "__init__", props=["C19"],
        params=dict(self=Obj, penalties=List(Float, 2)),
        requires={"shape": "len(penalties) == 2 and len(penalties[0]) == 6 and len(penalties[1]) == 6"},
        modifies=[],
        unroll={1: 6, 2: 6},
        raises={
            "InvalidScoringScheme": "False",
            "NonRealPositiveValuesScoringScheme": BAD,
            "ForbiddenAssociationPenaltiesScoringScheme": "not " + BAD + " and not " + ASSOC,
        },
        ensures={
            "valid": "not " + BAD + " and " + ASSOC,
            "stored_B": "forall(lambda k: self._penalty_vectors[0][k] == penalties[0][k], 0, 6)",
            "stored_T": "forall(lambda k: self._penalty_vectors[1][k] == penalties[1][k], 0, 6)",
            "len": "len(self._penalty_vectors[0]) == 6 and len(self._penalty_vectors[1]) == 6",
        },
        gen=gen_init,
        notes="shape / type errors (non-list, wrong lengths, non-numbers) are outside the typed model: bounded tier",
    )

    # ---- equivalence ------------------------------------------------------------------------------------------------
    P1, P2 = "self._penalty_vectors", "other.penalty_vectors"
    REL = ("((pen1[%(v)s][k] == 0 and pen2[%(v)s][k] == 0) or (pen1[%(v)s][k] != 0 and pen2[%(v)s][k] != 0 and "
           "not isnan(coefficient) and pen1[%(v)s][k] == coefficient * pen2[%(v)s][k]))")
    reg.contract(
        F + "__is_equivalent_to_generic", props=["C19"],
        params=dict(self=Obj, other=Obj, stop=Int), returns=Bool,
        fields={P1: Arr(Real, 2), P2: Arr(Real, 2)},
        ghost=dict(K=Real),
        requires={
            "shape": "len(%s) == 2 and len(%s[0]) == 6 and len(%s) == 2 and len(%s[0]) == 6" % (P1, P1, P2, P2),
            "stop": "2 <= stop <= 6",
            # both schemes are valid (constructor contract): non-negative penalties, B[1] > 0
            "nonneg": "forall(lambda v, k: %s[v][k] >= 0 and %s[v][k] >= 0, 0, 2, 0, 6)" % (P1, P2),
            "b1": "%s[0][1] > 0 and %s[0][1] > 0" % (P1, P2),
        },
        modifies=[],
        ensures={
            # equivalent <=> one scheme is a positive multiple of the other on BOTH vectors (entries 0..stop-1)
            "sound": "implies(result, not isnan(coefficient) and coefficient > 0 and forall(lambda v, k: "
                     "pen1[v][k] == coefficient * pen2[v][k], 0, 2, 0, stop))",
            "complete": "implies(K > 0 and forall(lambda v, k: %s[v][k] == K * %s[v][k], 0, 2, 0, stop), result)" % (P1, P2),
        },
        loops={2: dict(inv={
            "coef_pos": "implies(not isnan(coefficient), coefficient > 0)",
            "prev_vec": "implies(id_vector == 1, forall(lambda k: " + REL % {"v": "0"} + ", 0, stop))",
            "cur_vec": "forall(lambda k: " + REL % {"v": "id_vector"} + ", 0, i)",
            "views": "forall(lambda v, k: pen1[v][k] == %s[v][k] and pen2[v][k] == %s[v][k], 0, 2, 0, 6)" % (P1, P2),
            # the coefficient, once set, is the ratio of some already processed non-zero pair
            "coef_origin": "implies(not isnan(coefficient), "
                           "exists(lambda k: pen2[0][k] != 0 and pen1[0][k] == coefficient * pen2[0][k], 0, "
                           "ite(id_vector == 0, i, stop)) or (id_vector == 1 and "
                           "exists(lambda k: pen2[1][k] != 0 and pen1[1][k] == coefficient * pen2[1][k], 0, i)))",
        })},
        rt_only={"iff_prop": "result == (exists_ratio(%s, %s, stop))" % (P1, P2)},
        gen=gen_equiv,
    )
    # run-time only: exact proportionality test with rationals (the penalties drawn by the generator are dyadic)
    reg.spec("def exists_ratio(a, b, stop):\n"
             "    return ratio_ok([a[v][k] for v in range(2) for k in range(stop)], [b[v][k] for v in range(2) for k in range(stop)])",
             dict(a=Arr(Real, 2), b=Arr(Real, 2), stop=Int), Bool, opaque=True)

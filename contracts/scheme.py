"""Sidecar contracts for corankco/scoringscheme.py — property C19 (validation; equivalence)."""
from pyvc.types import Int, Real, Arr, List, Float, Obj, Bool

F = "corankco/scoringscheme.py::ScoringScheme."

BAD = ("exists(lambda k: isnan(penalties[0][k]) or penalties[0][k] < 0 or isnan(penalties[1][k]) or penalties[1][k] < 0, "
       "0, 6)")
ASSOC = ("(penalties[0][0] == 0 and penalties[0][1] > 0 and penalties[0][3] <= penalties[0][4] and "
         "penalties[1][0] == penalties[1][1] and penalties[1][2] == 0 and penalties[1][3] == penalties[1][4])")

VALS = [0.0, 0.5, 1.0, 2.0, float("nan"), -1.0]


def gen_init(rng):
    def vec():
        return [rng.choice(VALS) if rng.random() < 0.15 else rng.choice([0.0, 0.5, 1.0, 2.0]) for _ in range(6)]
    b, t = vec(), vec()
    if rng.random() < 0.6:      # mostly near-valid schemes
        b[0] = 0.0
        b[1] = rng.choice([0.5, 1.0, 2.0, 0.0, float("nan")]) if rng.random() < 0.3 else 1.0
        b[3], b[4] = sorted([x for x in (b[3], b[4])], key=lambda v: (v != v, v))
        t[1] = t[0]
        t[2] = 0.0
        t[4] = t[3]
        if rng.random() < 0.3:
            k = rng.randrange(6)
            (b if rng.random() < 0.5 else t)[k] = rng.choice(VALS)
    return dict(self=None, penalties=[b, t])


def register(reg):
    reg.contract(
        F + "__init__", props=["C19"],
        params=dict(self=Obj, penalties=List(Float, 2)),
        requires={"shape": "len(penalties) == 2 and len(penalties[0]) == 6 and len(penalties[1]) == 6"},
        modifies=[],
        unroll={1: 6, 2: 6},
        raises={
            "InvalidScoringScheme": "False",
            "NonRealPositiveValuesScoringScheme": BAD,
            "ForbiddenAssociationPenaltiesScoringScheme": "not " + BAD + " and not " + ASSOC,
        },
        ensures={
            "valid": "not " + BAD + " and " + ASSOC,
            "stored_B": "forall(lambda k: self._penalty_vectors[0][k] == penalties[0][k], 0, 6)",
            "stored_T": "forall(lambda k: self._penalty_vectors[1][k] == penalties[1][k], 0, 6)",
            "len": "len(self._penalty_vectors[0]) == 6 and len(self._penalty_vectors[1]) == 6",
        },
        gen=gen_init,
        notes="shape / type errors (non-list, wrong lengths, non-numbers) are outside the typed model: bounded tier",
    )

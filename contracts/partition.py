"""Sidecar contracts for corankco/partitioning/ordered_partition.py — property C07 (ParFront merge loop).

The merge loop of `parfront_partition` is verified as a FRAGMENT: its live-in variables (the list of components, the set
of robust arcs, the index) are declared here; how they are computed (igraph components, the cost table) and the final
mapping of ids to elements are outside the fragment (bounded tier).
"""
from pyvc.types import Int, SetList, PairSet, Bool

F = "corankco/partitioning/ordered_partition.py::OrderedPartition."

ALLROB = "forall(lambda a, b: implies(%s[%s][a] and %s[%s][b], robust_arcs[a][b]))"


def register(reg):
    def allrob(P, k):
        return ALLROB % (P, k, P, "(%s) + 1" % k)

    EXISTS_BAD = "exists(lambda a, b: partition[index][a] and partition[index + 1][b] and not robust_arcs[a][b])"
    reg.contract(
        F + "parfront_partition#merge", props=["C07"],
        fragment={"loop": 1},
        params=dict(partition=SetList(), robust_arcs=PairSet(), index=Int),
        requires={"start": "index == 0"},
        modifies=["partition"],
        ensures={
            # C07.merge.exit: on exit every two consecutive groups are linked by robust arcs only
            "all_consecutive_robust": "forall(lambda k: " + allrob("partition", "k") + ", 0, len(partition) - 1)",
        },
        loops={
            1: dict(inv={
                "idx": "0 <= index",
                "robust_prefix": "forall(lambda k: implies(k + 1 < len(partition), " + allrob("partition", "k") + "), 0, index)",
            }),
            2: dict(inv={
                "at_head": "not fusion",       # the loop is left as soon as fusion is set
                "seen_robust": "forall(lambda a, b: implies(seen_el_1[a] and partition[index + 1][b], robust_arcs[a][b]))",
            }),
            3: dict(inv={
                "no_fusion": "implies(not fusion, forall(lambda b: implies(seen_el_2[b], robust_arcs[el_1][b])))",
                "fusion": "implies(fusion, " + EXISTS_BAD + ")",
            }),
            4: dict(snap={"P0": "partition", "n0": "len(partition)"}, inv={
                "len": "len(partition) == n0",
                "union": "forall(lambda k, x: implies(0 <= k and k < n0, partition[k][x] == "
                         "ite(k == index, P0[index][x] or seen_el_1[x], P0[k][x])))",
            }),
        },
    )

"""Sidecar contracts for corankco/algorithms/bioconsert/bioconsert.py (numba kernels).

Vocabulary.  r is a vector of bucket ids (r[e] = bucket of element e), DENSE when its values are exactly 0..maxb.
Density is an exists-statement; it is carried by ghost witnesses: wit[b] is some element of bucket b, and `mate` is a
second member of the moved element's bucket when the element is not alone.
"""
from pyvc.types import Int, Real, Arr

F = "corankco/algorithms/bioconsert/bioconsert.py::"

DENSE_PRE = {
    "len": "len(r) == n",
    "elem": "0 <= element < n",
    "at_old": "r[element] == old_pos",
    "range": "forall(lambda j: 0 <= r[j] <= maxb, 0, n)",
    "wit": "forall(lambda b: 0 <= wit[b] < n and r[wit[b]] == b, 0, maxb + 1)",
    "alone_flag": "alone_in_old_bucket == 0 or alone_in_old_bucket == 1",
    "alone_def": "iff(alone_in_old_bucket == 1, forall(lambda j: implies(j != element, r[j] != old_pos), 0, n))",
    "mate": "implies(alone_in_old_bucket != 1, 0 <= mate < n and mate != element and r[mate] == old_pos)",
}


def dense_vector(rng, n):
    """random dense bucket-id vector of length n, with witnesses"""
    k = rng.randint(1, n)
    ids = list(range(k)) + [rng.randrange(k) for _ in range(n - k)]
    rng.shuffle(ids)
    wit = [ids.index(b) for b in range(k)]
    return ids, k - 1, wit


def gen_move(rng, add):
    n = rng.randint(1, 6)
    r, maxb, wit = dense_vector(rng, n)
    element = rng.randrange(n)
    old_pos = r[element]
    mates = [j for j in range(n) if j != element and r[j] == old_pos]
    alone = 0 if mates else 1
    if add:
        new_pos = rng.randint(0, maxb + 1)
    else:
        cands = [b for b in range(maxb + 1) if b != old_pos]
        new_pos = rng.choice(cands) if cands else old_pos
    return dict(r=r, n=n, element=element, old_pos=old_pos, new_pos=new_pos, alone_in_old_bucket=alone,
                maxb=maxb, wit=wit + [0, 0], mate=mates[0] if mates else 0)


def register(reg):
    # ------------------------------------------------------------------------------------------------------------------
    reg.spec("def r_after_set(r0, element, new_pos, j):\n    return new_pos if j == element else r0[j]",
             dict(r0=Arr(Int), element=Int, new_pos=Int, j=Int), Int)

    reg.contract(
        F + "_change_bucket", props=["C08", "C03"],
        params=dict(r=Arr(Int), n=Int, element=Int, old_pos=Int, new_pos=Int, alone_in_old_bucket=Int),
        ghost=dict(maxb=Int, wit=Arr(Int), mate=Int),
        requires=dict(DENSE_PRE, target="0 <= new_pos <= maxb and new_pos != old_pos"),
        modifies=["r"],
        ensures={
            # the move that was priced is the move that is made: element joins (old) bucket new_pos, nothing else moves
            "others_order": "forall(lambda i, j: implies(i != element and j != element, "
                            "(r[i] < r[j]) == (old(r)[i] < old(r)[j]) and (r[i] == r[j]) == (old(r)[i] == old(r)[j])), 0, n)",
            "joined": "forall(lambda j: implies(j != element, (r[j] == r[element]) == (old(r)[j] == new_pos) and "
                      "(r[j] < r[element]) == (old(r)[j] < new_pos)), 0, n)",
            "dense_range": "forall(lambda j: 0 <= r[j] <= maxb - alone_in_old_bucket, 0, n)",
            "dense_wit": "forall(lambda b: r[ite(alone_in_old_bucket == 1, wit[ite(b < old_pos, b, b + 1)], "
                         "ite(b == old_pos, mate, wit[b]))] == b and 0 <= ite(alone_in_old_bucket == 1, "
                         "wit[ite(b < old_pos, b, b + 1)], ite(b == old_pos, mate, wit[b])) < n, "
                         "0, maxb - alone_in_old_bucket + 1)",
        },
        loops={1: dict(inv={
            "done": "forall(lambda j: r[j] == r_after_set(old(r), element, new_pos, j) - "
                    "ite(r_after_set(old(r), element, new_pos, j) > old_pos, 1, 0), 0, i)",
            "todo": "forall(lambda j: r[j] == r_after_set(old(r), element, new_pos, j), i, n)",
        })},
        obligations_for={"dense": ["C03", "C08"]},
        gen=lambda rng: gen_move(rng, False),
    )

    reg.contract(
        F + "_add_bucket", props=["C08", "C03"],
        params=dict(r=Arr(Int), n=Int, element=Int, old_pos=Int, new_pos=Int, alone_in_old_bucket=Int),
        ghost=dict(maxb=Int, wit=Arr(Int), mate=Int),
        requires=dict(DENSE_PRE, target="0 <= new_pos <= maxb + 1"),
        modifies=["r"],
        ensures={
            "others_order": "forall(lambda i, j: implies(i != element and j != element, "
                            "(r[i] < r[j]) == (old(r)[i] < old(r)[j]) and (r[i] == r[j]) == (old(r)[i] == old(r)[j])), 0, n)",
            "alone_after": "forall(lambda j: implies(j != element, r[j] != r[element]), 0, n)",
            # the new singleton bucket sits immediately before (old) bucket new_pos
            "placed": "forall(lambda j: implies(j != element, (r[j] < r[element]) == (old(r)[j] < new_pos)), 0, n)",
            "dense_range": "forall(lambda j: 0 <= r[j] <= maxb + 1 - alone_in_old_bucket, 0, n)",
            "dense_wit": "forall(lambda b: 0 <= add_wit(wit, mate, element, old_pos, new_pos, alone_in_old_bucket, b) < n and "
                         "r[add_wit(wit, mate, element, old_pos, new_pos, alone_in_old_bucket, b)] == b, "
                         "0, maxb + 2 - alone_in_old_bucket)",
        },
        loops={
            1: dict(inv={"done": "forall(lambda j: r[j] == old(r)[j] - ite(old_pos < old(r)[j] and old(r)[j] < new_pos, 1, 0), 0, i)",
                         "todo": "forall(lambda j: r[j] == old(r)[j], i, n)"}),
            2: dict(inv={"done": "forall(lambda j: r[j] == old(r)[j] + ite(old(r)[j] >= new_pos, 1, 0), 0, i)",
                         "todo": "forall(lambda j: r[j] == old(r)[j], i, n)"}),
            3: dict(inv={"done": "forall(lambda j: r[j] == old(r)[j] + ite(new_pos <= old(r)[j] and old(r)[j] < old_pos, 1, 0), 0, i)",
                         "todo": "forall(lambda j: r[j] == old(r)[j], i, n)"}),
            4: dict(inv={"done": "forall(lambda j: r[j] == old(r)[j] + ite(old(r)[j] >= new_pos, 1, 0), 0, i)",
                         "todo": "forall(lambda j: r[j] == old(r)[j], i, n)"}),
        },
        gen=lambda rng: gen_move(rng, True),
    )
    # witness of density after _add_bucket: which element has new bucket id b
    reg.spec(
        "def add_wit(wit, mate, element, old_pos, new_pos, alone, b):\n"
        "    return (ite(b < old_pos, wit[b], ite(b < new_pos - 1, wit[b + 1], ite(b == new_pos - 1, element, wit[b])))"
        "            if old_pos < new_pos else"
        "            ite(b < new_pos, wit[b], ite(b == new_pos, element, ite(b <= old_pos, wit[b - 1], wit[b]))))"
        "           if alone == 1 else"
        "           ite(b < new_pos, ite(b == old_pos, mate, wit[b]), ite(b == new_pos, element,"
        "               ite(b - 1 == old_pos, mate, wit[b - 1])))",
        dict(wit=Arr(Int), mate=Int, element=Int, old_pos=Int, new_pos=Int, alone=Int, b=Int), Int)

"""Sidecar contracts for corankco/algorithms/bioconsert/bioconsert.py (numba kernels).

Vocabulary.  r is a vector of bucket ids (r[e] = bucket of element e), DENSE when its values are exactly 0..maxb.
Density is an exists-statement; it is carried by ghost witnesses: wit[b] is some element of bucket b, and `mate` is a
second member of the moved element's bucket when the element is not alone.
"""
from pyvc.types import Int, Real, Arr, Bool

F = "corankco/algorithms/bioconsert/bioconsert.py::"

DENSE_PRE = {
    "len": "len(r) == n",
    "elem": "0 <= element < n",
    "at_old": "r[element] == old_pos",
    "range": "forall(lambda j: 0 <= r[j] <= maxb, 0, n)",
    "wit": "forall(lambda b: 0 <= wit[b] < n and r[wit[b]] == b, 0, maxb + 1)",
    "alone_flag": "alone_in_old_bucket == 0 or alone_in_old_bucket == 1",
    "alone_def": "iff(alone_in_old_bucket == 1, forall(lambda j: implies(j != element, r[j] != old_pos), 0, n))",
    "mate": "implies(alone_in_old_bucket != 1, 0 <= mate < n and mate != element and r[mate] == old_pos)",
}


def dense_vector(rng, n):
    """random dense bucket-id vector of length n, with witnesses"""
    k = rng.randint(1, n)
    ids = list(range(k)) + [rng.randrange(k) for _ in range(n - k)]
    rng.shuffle(ids)
    wit = [ids.index(b) for b in range(k)]
    return ids, k - 1, wit


def gen_move(rng, add):
    n = rng.randint(1, 6)
    r, maxb, wit = dense_vector(rng, n)
    element = rng.randrange(n)
    old_pos = r[element]
    mates = [j for j in range(n) if j != element and r[j] == old_pos]
    alone = 0 if mates else 1
    if add:
        new_pos = rng.randint(0, maxb + 1)
    else:
        cands = [b for b in range(maxb + 1) if b != old_pos]
        new_pos = rng.choice(cands) if cands else old_pos
    return dict(r=r, n=n, element=element, old_pos=old_pos, new_pos=new_pos, alone_in_old_bucket=alone,
                maxb=maxb, wit=wit + [0, 0], mate=mates[0] if mates else 0)


def gen_search(rng, add):
    maxb = rng.randint(0, 5)
    B = rng.randint(0, maxb)
    n = maxb + 3 + rng.randint(0, 2)
    vals = [-2.0, -0.5, -0.001953125, -0.0009765625, 0.0, 0.0009765625, 0.25, 1.0, 3.0]
    arr = [rng.choice(vals) if rng.random() < 0.8 else 0.0 for _ in range(n)]
    if rng.random() < 0.4:
        arr = [abs(v) for v in arr]
    if add:
        return dict(bucket_elem=B, add=arr, max_id_bucket=maxb)
    arr[B] = 0.0
    return dict(bucket_elem=B, change=arr, max_id_bucket=maxb)


def dyadic_table(rng, n):
    """random mirror-consistent flattened n*n*3 cost table with dyadic entries"""
    vals = [0.0, 0.25, 0.5, 1.0, 1.5, 2.0, 3.0]
    tab = [0.0] * (3 * n * n)
    for i in range(n):
        for j in range(i + 1, n):
            b, a, t = rng.choice(vals), rng.choice(vals), rng.choice(vals)
            tab[3 * n * i + 3 * j: 3 * n * i + 3 * j + 3] = [b, a, t]
            tab[3 * n * j + 3 * i: 3 * n * j + 3 * i + 3] = [a, b, t]
    return tab


def gen_delta(rng):
    n = rng.randint(1, 6)
    r, maxb, _wit = dense_vector(rng, n)
    t = rng.randrange(n)
    return dict(ranking=r, target_element=t, cost_matrix=dyadic_table(rng, n), bucket_elem=r[t],
                change=[0.0] * (n + 2), add=[0.0] * (n + 3), n=n, maxb=maxb)


def gen_improve(rng):
    n = rng.randint(1, 6)
    r, maxb, wit = dense_vector(rng, n)
    return dict(r=r, cost_matrix_1d=dyadic_table(rng, n), n=n, maxb0=maxb, wit0=wit + [0, 0])


def gen_bio(rng):
    n = rng.randint(1, 5)
    nb = rng.randint(0, 3)
    dep, maxbs, wits = [], [], []
    for _ in range(nb):
        v, mb, w = dense_vector(rng, n)
        dep += v
        maxbs.append(mb)
        wits.append(w + [0] * (n + 2 - len(w)))
    return dict(departure_rankings=dep, cost_matrix_1d=dyadic_table(rng, n), n=n, nb_rankings_departure=nb,
                dst_min=[0.0] * nb, maxbs=maxbs + [0], wits=wits + [[0] * (n + 2)])


def register(reg):
    # index of cell (a, b, 0) in the flattened n*n*3 cost table; opaque so that lemma proofs see no non-linear arithmetic
    reg.spec("def IDX(n, a, b):\n    return 3*n*a + 3*b", dict(n=Int, a=Int, b=Int), Int, opaque=True)
    # ------------------------------------------------------------------------------------------------------------------
    # witness of density after _change_bucket: which element has new bucket id b
    reg.spec("def chg_wit(wit, mate, old_pos, alone, b):\n"
             "    return wit[ite(b < old_pos, b, b + 1)] if alone == 1 else ite(b == old_pos, mate, wit[b])",
             dict(wit=Arr(Int), mate=Int, old_pos=Int, alone=Int, b=Int), Int, opaque=True)
    reg.spec("def r_after_set(r0, element, new_pos, j):\n    return new_pos if j == element else r0[j]",
             dict(r0=Arr(Int), element=Int, new_pos=Int, j=Int), Int)

    reg.contract(
        F + "_change_bucket", props=["C08", "C03"],
        params=dict(r=Arr(Int), n=Int, element=Int, old_pos=Int, new_pos=Int, alone_in_old_bucket=Int),
        ghost=dict(maxb=Int, wit=Arr(Int), mate=Int),
        requires=dict(DENSE_PRE, target="0 <= new_pos <= maxb and new_pos != old_pos"),
        modifies=["r"],
        ensures={
            # the move that was priced is the move that is made: element joins (old) bucket new_pos, nothing else moves
            "others_order": "forall(lambda i, j: implies(i != element and j != element, "
                            "(r[i] < r[j]) == (old(r)[i] < old(r)[j]) and (r[i] == r[j]) == (old(r)[i] == old(r)[j])), 0, n)",
            "joined": "forall(lambda j: implies(j != element, (r[j] == r[element]) == (old(r)[j] == new_pos) and "
                      "(r[j] < r[element]) == (old(r)[j] < new_pos)), 0, n)",
            "dense_range": "forall(lambda j: 0 <= r[j] <= maxb - alone_in_old_bucket, 0, n)",
            "dense_wit": "forall(lambda b: 0 <= chg_wit(wit, mate, old_pos, alone_in_old_bucket, b) < n and "
                         "r[chg_wit(wit, mate, old_pos, alone_in_old_bucket, b)] == b, 0, maxb - alone_in_old_bucket + 1)",
        },
        loops={1: dict(inv={
            "done": "forall(lambda j: r[j] == r_after_set(old(r), element, new_pos, j) - "
                    "ite(r_after_set(old(r), element, new_pos, j) > old_pos, 1, 0), 0, i)",
            "todo": "forall(lambda j: r[j] == r_after_set(old(r), element, new_pos, j), i, n)",
        })},
        obligations_for={"dense": ["C03", "C08"]},
        gen=lambda rng: gen_move(rng, False),
    )

    reg.contract(
        F + "_add_bucket", props=["C08", "C03"],
        params=dict(r=Arr(Int), n=Int, element=Int, old_pos=Int, new_pos=Int, alone_in_old_bucket=Int),
        ghost=dict(maxb=Int, wit=Arr(Int), mate=Int),
        requires=dict(DENSE_PRE, target="0 <= new_pos <= maxb + 1"),
        modifies=["r"],
        ensures={
            "others_order": "forall(lambda i, j: implies(i != element and j != element, "
                            "(r[i] < r[j]) == (old(r)[i] < old(r)[j]) and (r[i] == r[j]) == (old(r)[i] == old(r)[j])), 0, n)",
            "alone_after": "forall(lambda j: implies(j != element, r[j] != r[element]), 0, n)",
            # the new singleton bucket sits immediately before (old) bucket new_pos
            "placed": "forall(lambda j: implies(j != element, (r[j] < r[element]) == (old(r)[j] < new_pos)), 0, n)",
            "dense_range": "forall(lambda j: 0 <= r[j] <= maxb + 1 - alone_in_old_bucket, 0, n)",
            "dense_wit": "forall(lambda b: 0 <= add_wit(wit, mate, element, old_pos, new_pos, alone_in_old_bucket, b) < n and "
                         "r[add_wit(wit, mate, element, old_pos, new_pos, alone_in_old_bucket, b)] == b, "
                         "0, maxb + 2 - alone_in_old_bucket)",
        },
        loops={
            1: dict(inv={"done": "forall(lambda j: r[j] == old(r)[j] - ite(old_pos < old(r)[j] and old(r)[j] < new_pos, 1, 0), 0, i)",
                         "todo": "forall(lambda j: r[j] == old(r)[j], i, n)"}),
            2: dict(inv={"done": "forall(lambda j: r[j] == old(r)[j] + ite(old(r)[j] >= new_pos, 1, 0), 0, i)",
                         "todo": "forall(lambda j: r[j] == old(r)[j], i, n)"}),
            3: dict(inv={"done": "forall(lambda j: r[j] == old(r)[j] + ite(new_pos <= old(r)[j] and old(r)[j] < old_pos, 1, 0), 0, i)",
                         "todo": "forall(lambda j: r[j] == old(r)[j], i, n)"}),
            4: dict(inv={"done": "forall(lambda j: r[j] == old(r)[j] + ite(old(r)[j] >= new_pos, 1, 0), 0, i)",
                         "todo": "forall(lambda j: r[j] == old(r)[j], i, n)"}),
        },
        gen=lambda rng: gen_move(rng, True),
    )
    # witness of density after _add_bucket: which element has new bucket id b
    reg.spec(
        "def add_wit(wit, mate, element, old_pos, new_pos, alone, b):\n"
        "    return (ite(b < old_pos, wit[b], ite(b < new_pos - 1, wit[b + 1], ite(b == new_pos - 1, element, wit[b])))"
        "            if old_pos < new_pos else"
        "            ite(b < new_pos, wit[b], ite(b == new_pos, element, ite(b <= old_pos, wit[b - 1], wit[b]))))"
        "           if alone == 1 else"
        "           ite(b < new_pos, ite(b == old_pos, mate, wit[b]), ite(b == new_pos, element,"
        "               ite(b - 1 == old_pos, mate, wit[b - 1])))",
        dict(wit=Arr(Int), mate=Int, element=Int, old_pos=Int, new_pos=Int, alone=Int, b=Int), Int, opaque=True)

    # ------------------------------------------------------------------------------------------------------------------
    # prefix sums of the "difference arrays": cumr = sum over (B, x], cuml = sum over [x, B)
    reg.spec("def cumr(c, B, x):\n    return 0.0 if x <= B else cumr(c, B, x - 1) + c[x]", dict(c=Arr(Real), B=Int, x=Int), Real)
    reg.spec("def cuml(c, B, x):\n    return 0.0 if x >= B else cuml(c, B, x + 1) + c[x]", dict(c=Arr(Real), B=Int, x=Int), Real)

    reg.contract(
        F + "_search_to_change_bucket", props=["C08", "C09"],
        params=dict(bucket_elem=Int, change=Arr(Real), max_id_bucket=Int), returns=Int,
        requires={"B": "0 <= bucket_elem <= max_id_bucket", "len": "len(change) >= max_id_bucket + 2",
                  "own_zero": "change[bucket_elem] == 0"},
        modifies=["change"],
        ensures={
            "range": "result == -1 or (0 <= result <= max_id_bucket and result != bucket_elem)",
            "hit_right": "implies(result > bucket_elem, change[result] == cumr(old(change), bucket_elem, result) "
                         "and change[result] < -0.001)",
            "hit_left": "implies(0 <= result < bucket_elem, change[result] == cuml(old(change), bucket_elem, result) "
                        "and change[result] < -0.001)",
            "miss_right": "implies(result == -1, forall(lambda x: cumr(old(change), bucket_elem, x) >= -0.001, "
                          "bucket_elem + 1, max_id_bucket + 1))",
            "miss_left": "implies(result == -1, forall(lambda x: cuml(old(change), bucket_elem, x) >= -0.001, "
                         "0, bucket_elem))",
        },
        loops={
            1: dict(inv={
                "bounds": "bucket_elem + 1 <= i <= max_id_bucket + 1",
                "prefix": "forall(lambda x: change[x] == cumr(old(change), bucket_elem, x), bucket_elem, i)",
                "rest_r": "forall(lambda x: change[x] == old(change)[x], i, len(change))",
                "rest_l": "forall(lambda x: change[x] == old(change)[x], 0, bucket_elem)",
                "res": "res == -1 or (bucket_elem < res < i and change[res] < -0.001)",
                "nohit": "implies(res == -1, forall(lambda x: cumr(old(change), bucket_elem, x) >= -0.001, "
                         "bucket_elem + 1, i))",
            }, variant="max_id_bucket + 1 - i"),
            2: dict(inv={
                "bounds": "-2 <= i <= bucket_elem - 2",
                "suffix": "forall(lambda x: implies(x > i, change[x] == cuml(old(change), bucket_elem, x)), 0, bucket_elem)",
                "rest": "forall(lambda x: implies(x <= i, change[x] == old(change)[x]), 0, bucket_elem)",
                "res": "res == -1 or (i < res < bucket_elem and res >= 0 and change[res] < -0.001)",
                "nohit": "implies(res == -1, forall(lambda x: implies(x > i, cuml(old(change), bucket_elem, x) >= -0.001), "
                         "0, bucket_elem))",
            }, variant="i + 2"),
        },
        gen=lambda rng: gen_search(rng, False),
    )

    reg.contract(
        F + "_search_to_add_bucket", props=["C08", "C09"],
        params=dict(bucket_elem=Int, add=Arr(Real), max_id_bucket=Int), returns=Int,
        requires={"B": "0 <= bucket_elem <= max_id_bucket", "len": "len(add) >= max_id_bucket + 3"},
        modifies=["add"],
        ensures={
            "range": "result == -1 or 0 <= result <= max_id_bucket + 1",
            "hit_right": "implies(result > bucket_elem, add[result] == cumr(old(add), bucket_elem, result) "
                         "and add[result] < -0.001)",
            "hit_left": "implies(0 <= result <= bucket_elem, add[result] == cuml(old(add), bucket_elem + 1, result) "
                        "and add[result] < -0.001)",
            "miss_right": "implies(result == -1, forall(lambda x: cumr(old(add), bucket_elem, x) >= -0.001, "
                          "bucket_elem + 1, max_id_bucket + 2))",
            "miss_left": "implies(result == -1, forall(lambda x: cuml(old(add), bucket_elem + 1, x) >= -0.001, "
                         "0, bucket_elem + 1))",
        },
        loops={
            1: dict(inv={
                "bounds": "bucket_elem + 2 <= i <= max_id_bucket + 2",
                "prefix": "forall(lambda x: change_is_cumr(add, old(add), bucket_elem, x), bucket_elem + 1, i)",
                "rest_r": "forall(lambda x: add[x] == old(add)[x], i, len(add))",
                "rest_l": "forall(lambda x: add[x] == old(add)[x], 0, bucket_elem + 1)",
                "res": "res == -1 or (bucket_elem < res < i and add[res] < -0.001)",
                "nohit": "implies(res == -1, forall(lambda x: cumr(old(add), bucket_elem, x) >= -0.001, bucket_elem + 1, i))",
            }, variant="max_id_bucket + 2 - i"),
            2: dict(inv={
                "bounds": "-1 <= i <= bucket_elem - 1",
                "suffix": "forall(lambda x: implies(x > i, add[x] == cuml(old(add), bucket_elem + 1, x)), 0, bucket_elem + 1)",
                "rest": "forall(lambda x: implies(x <= i, add[x] == old(add)[x]), 0, bucket_elem + 1)",
                "res": "res == -1 or (i < res <= bucket_elem and res >= 0 and add[res] < -0.001)",
                "nohit": "implies(res == -1, forall(lambda x: implies(x > i, cuml(old(add), bucket_elem + 1, x) >= -0.001), "
                         "0, bucket_elem + 1))",
            }, variant="i + 1"),
        },
        gen=lambda rng: gen_search(rng, True),
    )
    reg.spec("def change_is_cumr(a, a0, B, x):\n    return a[x] == cumr(a0, B, x)",
             dict(a=Arr(Real), a0=Arr(Real), B=Int, x=Int), Bool)

    # ------------------------------------------------------------------------------------------------------------------
    # _compute_delta_costs: the two difference arrays in linear form (one summand per other element e2)
    A9 = dict(r=Arr(Int), c=Arr(Real), t=Int, B=Int, n=Int, e2=Int, k=Int)
    reg.spec("def ch(r, c, t, B, n, e2, k):\n"
             "    return (ite(k == r[e2], c[IDX(n, t, e2) + 2] - c[IDX(n, t, e2)], 0.0)"
             "            + ite(k == r[e2] + 1, c[IDX(n, t, e2) + 1] - c[IDX(n, t, e2) + 2], 0.0)) if B < r[e2] else"
             "           ((ite(k == r[e2], c[IDX(n, t, e2) + 2] - c[IDX(n, t, e2) + 1], 0.0)"
             "             + ite(r[e2] != 0 and k == r[e2] - 1, c[IDX(n, t, e2)] - c[IDX(n, t, e2) + 2], 0.0)) if B > r[e2] else 0.0)",
             A9, Real)
    reg.spec("def ad(r, c, t, B, n, e2, k):\n"
             "    return ite(k == r[e2] + 1, c[IDX(n, t, e2) + 1] - c[IDX(n, t, e2)], 0.0) if B < r[e2] else"
             "           (ite(k == r[e2], c[IDX(n, t, e2)] - c[IDX(n, t, e2) + 1], 0.0) if B > r[e2] else 0.0)",
             A9, Real)
    A9m = dict(r=Arr(Int), c=Arr(Real), t=Int, B=Int, n=Int, m=Int, k=Int)
    reg.spec("def CH(r, c, t, B, n, m, k):\n    return 0.0 if m <= 0 else CH(r, c, t, B, n, m - 1, k) + ch(r, c, t, B, n, m - 1, k)",
             A9m, Real)
    reg.spec("def AD(r, c, t, B, n, m, k):\n    return 0.0 if m <= 0 else AD(r, c, t, B, n, m - 1, k) + ad(r, c, t, B, n, m - 1, k)",
             A9m, Real)
    A8 = dict(r=Arr(Int), c=Arr(Real), t=Int, B=Int, n=Int, m=Int, w=Int)
    # TIE(.., m, w): sum over bucket mates e2 < m of cost cell w (0 before, 1 after, 2 tied) of the pair (t, e2)
    reg.spec("def TIE(r, c, t, B, n, m, w):\n"
             "    return 0.0 if m <= 0 else TIE(r, c, t, B, n, m - 1, w) + "
             "ite(r[m - 1] == B and m - 1 != t, c[IDX(n, t, m - 1) + w], 0.0)", A8, Real)

    reg.contract(
        F + "_compute_delta_costs", props=["C08", "C09"],
        params=dict(ranking=Arr(Int), target_element=Int, cost_matrix=Arr(Real), bucket_elem=Int, change=Arr(Real),
                    add=Arr(Real), n=Int), returns=Int,
        ghost=dict(maxb=Int),
        requires={"len_r": "len(ranking) == n", "t": "0 <= target_element < n", "len_c": "len(cost_matrix) == 3 * n * n",
                  "B": "bucket_elem == ranking[target_element]",
                  "range": "forall(lambda j: 0 <= ranking[j] <= maxb, 0, n)",
                  "len_change": "len(change) >= maxb + 2", "len_add": "len(add) >= maxb + 3",
                  "nl": "n * target_element <= n * (n - 1) and n * target_element >= 0"},
        modifies=["change", "add"],
        ensures={
            "alone01": "result == 0 or result == 1",
            "alone": "iff(result == 1, forall(lambda j: implies(j != target_element, ranking[j] != bucket_elem), 0, n))",
            "change_lin": "forall(lambda k: change[k] == old(change)[k] "
                          "+ CH(ranking, cost_matrix, target_element, bucket_elem, n, n, k) "
                          "+ ite(bucket_elem != 0 and k == bucket_elem - 1, "
                          "      TIE(ranking, cost_matrix, target_element, bucket_elem, n, n, 0) "
                          "      - TIE(ranking, cost_matrix, target_element, bucket_elem, n, n, 2), 0.0) "
                          "+ ite(k == bucket_elem + 1, TIE(ranking, cost_matrix, target_element, bucket_elem, n, n, 1) "
                          "      - TIE(ranking, cost_matrix, target_element, bucket_elem, n, n, 2), 0.0), 0, len(change))",
            "add_lin": "forall(lambda k: add[k] == old(add)[k] "
                       "+ AD(ranking, cost_matrix, target_element, bucket_elem, n, n, k) "
                       "+ ite(k == bucket_elem, TIE(ranking, cost_matrix, target_element, bucket_elem, n, n, 0) "
                       "      - TIE(ranking, cost_matrix, target_element, bucket_elem, n, n, 2), 0.0) "
                       "+ ite(k == bucket_elem + 1, TIE(ranking, cost_matrix, target_element, bucket_elem, n, n, 1) "
                       "      - TIE(ranking, cost_matrix, target_element, bucket_elem, n, n, 2), 0.0), 0, len(add))",
        },
        loops={1: dict(inv={
            "pos": "pos == 3 * n * target_element + 3 * e2",
            "change": "forall(lambda k: change[k] == old(change)[k] "
                      "+ CH(ranking, cost_matrix, target_element, bucket_elem, n, e2, k), 0, len(change))",
            "add": "forall(lambda k: add[k] == old(add)[k] "
                   "+ AD(ranking, cost_matrix, target_element, bucket_elem, n, e2, k), 0, len(add))",
            "tb": "tied_to_before == TIE(ranking, cost_matrix, target_element, bucket_elem, n, e2, 0)",
            "ta": "tied_to_after == TIE(ranking, cost_matrix, target_element, bucket_elem, n, e2, 1)",
            "tt": "tied_to_tied == TIE(ranking, cost_matrix, target_element, bucket_elem, n, e2, 2)",
            "alone01": "alone == 0 or alone == 1",
            "alone": "iff(alone == 1, forall(lambda j: implies(j != target_element, ranking[j] != bucket_elem), 0, e2))",
        })},
        gen=lambda rng: gen_delta(rng),
    )

    # ------------------------------------------------------------------------------------------------------------------
    # score of a bucket-id vector against the flattened cost table:  SC = sum over pairs a < b of the cell selected
    # by comparing the two bucket ids (0 before, 1 after, 2 tied).  `o` is an offset into a flattened matrix of rows.
    reg.spec("def relcell(r, o, c, n, a, b):\n"
             "    return c[IDX(n, a, b) + ite(r[o + a] < r[o + b], 0, ite(r[o + a] > r[o + b], 1, 2))]",
             dict(r=Arr(Int), o=Int, c=Arr(Real), n=Int, a=Int, b=Int), Real)
    reg.spec("def SCrow(r, o, c, n, a, m):\n"
             "    return 0.0 if m <= a + 1 else SCrow(r, o, c, n, a, m - 1) + relcell(r, o, c, n, a, m - 1)",
             dict(r=Arr(Int), o=Int, c=Arr(Real), n=Int, a=Int, m=Int), Real)
    reg.spec("def SC(r, o, c, n, m):\n"
             "    return 0.0 if m <= 0 else SC(r, o, c, n, m - 1) + SCrow(r, o, c, n, m - 1, n)",
             dict(r=Arr(Int), o=Int, c=Arr(Real), n=Int, m=Int), Real)

    # arithmetic facts (non-linear), proved once and invoked as lemma calls at loop heads
    reg.lemma("mul_mono", dict(i=Int, nb=Int, n=Int), "i * n >= 0 and i * n + n <= nb * n", props=["C04", "C08", "C09"],
              requires={"i": "0 <= i < nb", "n": "n >= 0"})
    reg.lemma("idx_bound", dict(a=Int, b=Int, n=Int), "IDX(n, a, b) >= 0 and IDX(n, a, b) + 2 < 3*n*n",
              props=["C04", "C08", "C09"], requires={"a": "0 <= a < n", "b": "0 <= b < n"})

    # with witnesses, every id up to a used id is used (the exists-form of density, for callers that know no witness)
    reg.lemma("dense_exists", dict(r=Arr(Int), n=Int, mx=Int, wit=Arr(Int)),
              "implies(exists(lambda j: r[j] >= b, 0, n), exists(lambda j: r[j] == b, 0, n))",
              intro={"b": ("0", "n")}, props=["C08", "C03", "C04", "C09"],
              requires={"range": "forall(lambda j: 0 <= r[j] and r[j] <= mx, 0, n)",
                        "wit": "forall(lambda b2: 0 <= wit[b2] and wit[b2] < n and r[wit[b2]] == b2, 0, mx + 1)"},
              hints=["implies(0 <= b and b <= mx, 0 <= wit[b] and wit[b] < n and r[wit[b]] == b)"])
    reg.lemma("nl_bound", dict(n=Int, t=Int), "n * t <= n * (n - 1) and n * t >= 0", props=["C08", "C09", "C04"],
              requires={"t": "0 <= t < n"})
    reg.lemma("CH_own_zero", dict(r=Arr(Int), c=Arr(Real), t=Int, B=Int, n=Int, m=Int), "CH(r, c, t, B, n, m, B) == 0",
              props=["C08", "C09"], induction="m", base="0")

    # ---- local optimality in difference-array form -----------------------------------------------------------
    # DCH / DAD: value of change[k] / add[k] after _compute_delta_costs(r, t, ..) started from zero arrays
    A5 = dict(r=Arr(Int), c=Arr(Real), t=Int, n=Int, k=Int)
    TIEX = "TIE(r, c, t, r[t], n, n, %d)"
    reg.spec("def DCH(r, c, t, n, k):\n    return CH(r, c, t, r[t], n, n, k) + ite(r[t] != 0 and k == r[t] - 1, "
             + TIEX % 0 + " - " + TIEX % 2 + ", 0.0) + ite(k == r[t] + 1, " + TIEX % 1 + " - " + TIEX % 2 + ", 0.0)",
             A5, Real, opaque=True)
    reg.spec("def DAD(r, c, t, n, k):\n    return AD(r, c, t, r[t], n, n, k) + ite(k == r[t], "
             + TIEX % 0 + " - " + TIEX % 2 + ", 0.0) + ite(k == r[t] + 1, " + TIEX % 1 + " - " + TIEX % 2 + ", 0.0)",
             A5, Real, opaque=True)
    A5x = dict(r=Arr(Int), c=Arr(Real), t=Int, n=Int, x=Int)
    # cumulated deltas: joining bucket x (SR_CH right of own bucket, SL_CH left), new bucket at position x (SR_AD, SL_AD)
    reg.spec("def SR_CH(r, c, t, n, x):\n    return 0.0 if x <= r[t] else SR_CH(r, c, t, n, x - 1) + DCH(r, c, t, n, x)", A5x, Real)
    reg.spec("def SL_CH(r, c, t, n, x):\n    return 0.0 if x >= r[t] else SL_CH(r, c, t, n, x + 1) + DCH(r, c, t, n, x)", A5x, Real)
    reg.spec("def SR_AD(r, c, t, n, x):\n    return 0.0 if x <= r[t] else SR_AD(r, c, t, n, x - 1) + DAD(r, c, t, n, x)", A5x, Real)
    reg.spec("def SL_AD(r, c, t, n, x):\n    return 0.0 if x >= r[t] + 1 else SL_AD(r, c, t, n, x + 1) + DAD(r, c, t, n, x)", A5x, Real)
    LX = dict(a=Arr(Real), r=Arr(Int), c=Arr(Real), t=Int, n=Int, x=Int)
    LXD = dict(LX, d=Int)
    LO = ["C08"]
    # if an array holds the difference values pointwise, its prefix sums are the cumulated deltas
    reg.lemma("ext_r_ch", LX, "cumr(a, r[t], x) == SR_CH(r, c, t, n, x)", props=LO, induction="x", base="r[t]",
              requires={"pt": "forall(lambda k: a[k] == DCH(r, c, t, n, k), r[t] + 1, x + 1)"})
    reg.lemma("ext_r_ad", LX, "cumr(a, r[t], x) == SR_AD(r, c, t, n, x)", props=LO, induction="x", base="r[t]",
              requires={"pt": "forall(lambda k: a[k] == DAD(r, c, t, n, k), r[t] + 1, x + 1)"})
    # leftwards: induction on the distance d = r[t] - x, then the distance is eliminated by an explicit lemma call
    reg.lemma("ext_l_ch_d", LXD, "cuml(a, r[t], x) == SL_CH(r, c, t, n, x)", props=LO, induction="d", base="0",
              requires={"x": "x == r[t] - d", "pt": "forall(lambda k: a[k] == DCH(r, c, t, n, k), x, r[t])"})
    reg.lemma("ext_l_ch", LX, "cuml(a, r[t], x) == SL_CH(r, c, t, n, x)", props=LO,
              requires={"x": "x <= r[t]", "pt": "forall(lambda k: a[k] == DCH(r, c, t, n, k), x, r[t])"},
              hints=["ext_l_ch_d(a, r, c, t, n, x, r[t] - x)"])
    reg.lemma("ext_l_ad_d", LXD, "cuml(a, r[t] + 1, x) == SL_AD(r, c, t, n, x)", props=LO, induction="d", base="0",
              requires={"x": "x == r[t] + 1 - d", "pt": "forall(lambda k: a[k] == DAD(r, c, t, n, k), x, r[t] + 1)"})
    reg.lemma("ext_l_ad", LX, "cuml(a, r[t] + 1, x) == SL_AD(r, c, t, n, x)", props=LO,
              requires={"x": "x <= r[t] + 1", "pt": "forall(lambda k: a[k] == DAD(r, c, t, n, k), x, r[t] + 1)"},
              hints=["ext_l_ad_d(a, r, c, t, n, x, r[t] + 1 - x)"])
    # from "the search found nothing" to "no move of this kind improves", for the element whose deltas are in `a`
    LM = dict(a=Arr(Real), r=Arr(Int), c=Arr(Real), t=Int, n=Int, mx=Int, res=Int)
    reg.lemma("loc_join_r", LM, "implies(res == -1, SR_CH(r, c, t, n, x) >= -0.001)", intro={"x": ("r[t] + 1", "mx + 1")},
              props=LO, requires={"pt": "forall(lambda k: a[k] == DCH(r, c, t, n, k), 0, mx + 2)", "B": "0 <= r[t]",
                                  "miss": "implies(res == -1, forall(lambda y: cumr(a, r[t], y) >= -0.001, r[t] + 1, mx + 1))"},
              hints=["ext_r_ch(a, r, c, t, n, x)"])
    reg.lemma("loc_join_l", LM, "implies(res == -1, SL_CH(r, c, t, n, x) >= -0.001)", intro={"x": ("0", "r[t]")},
              props=LO, requires={"pt": "forall(lambda k: a[k] == DCH(r, c, t, n, k), 0, mx + 2)", "B": "0 <= r[t] and r[t] <= mx",
                                  "miss": "implies(res == -1, forall(lambda y: cuml(a, r[t], y) >= -0.001, 0, r[t]))"},
              hints=["ext_l_ch(a, r, c, t, n, x)"])
    reg.lemma("loc_add_r", LM, "implies(res == -1, SR_AD(r, c, t, n, x) >= -0.001)", intro={"x": ("r[t] + 1", "mx + 2")},
              props=LO, requires={"pt": "forall(lambda k: a[k] == DAD(r, c, t, n, k), 0, mx + 3)", "B": "0 <= r[t]",
                                  "miss": "implies(res == -1, forall(lambda y: cumr(a, r[t], y) >= -0.001, r[t] + 1, mx + 2))"},
              hints=["ext_r_ad(a, r, c, t, n, x)"])
    reg.lemma("loc_add_l", LM, "implies(res == -1, SL_AD(r, c, t, n, x) >= -0.001)", intro={"x": ("0", "r[t] + 1")},
              props=LO, requires={"pt": "forall(lambda k: a[k] == DAD(r, c, t, n, k), 0, mx + 3)", "B": "0 <= r[t] and r[t] <= mx",
                                  "miss": "implies(res == -1, forall(lambda y: cuml(a, r[t] + 1, y) >= -0.001, 0, r[t] + 1))"},
              hints=["ext_l_ad(a, r, c, t, n, x)"])
    LOCS = {
        "join_r": "forall(lambda x: SR_CH(r, cost_matrix_1d, t, n, x) >= -0.001, r[t] + 1, %s + 1)",
        "join_l": "forall(lambda x: SL_CH(r, cost_matrix_1d, t, n, x) >= -0.001, 0, r[t])",
        "add_r": "forall(lambda x: SR_AD(r, cost_matrix_1d, t, n, x) >= -0.001, r[t] + 1, %s + 2)",
        "add_l": "forall(lambda x: SL_AD(r, cost_matrix_1d, t, n, x) >= -0.001, 0, r[t] + 1)",
    }

    SWEEP_INV = {
        "mx_range": "forall(lambda j: 0 <= r[j] <= max_id_bucket, 0, n)",
        "mx_wit": "forall(lambda b: 0 <= wit[b] < n and r[wit[b]] == b, 0, max_id_bucket + 1)",
        "mx_nonneg": "max_id_bucket >= 0",
        "nonpos": "delta_dist <= 0",
        "term01": "terminated == 0 or terminated == 1",
        "delta": "delta_dist == SC(r, 0, cost_matrix_1d, n, n) - SC(r0, 0, cost_matrix_1d, n, n)",
    }
    reg.contract(
        F + "_improve_one_ranking", props=["C08", "C09", "C04", "C03"],
        params=dict(r=Arr(Int), cost_matrix_1d=Arr(Real), n=Int), returns=Real,
        ghost=dict(maxb0=Int, wit0=Arr(Int)),
        requires={"len": "len(r) == n and n >= 1", "len_c": "len(cost_matrix_1d) == 3 * n * n",
                  "range": "forall(lambda j: 0 <= r[j] <= maxb0, 0, n)",
                  "wit": "forall(lambda b: 0 <= wit0[b] < n and r[wit0[b]] == b, 0, maxb0 + 1)",
                  # the flattened table is mirror consistent (C02: cells (i,j,before) == (j,i,after), tied cells equal)
                  "mirror": "forall(lambda t, a: MIRP(cost_matrix_1d, n, t, a), 0, n, 0, n)"},
        modifies=["r"],
        ghost_vars={"wit": "wit0", "r0": "r"},
        ensures={
            "range": "forall(lambda j: 0 <= r[j] <= n - 1, 0, n)",
            # every id up to a used id is used
            "dense": "forall(lambda b: implies(exists(lambda j: r[j] >= b, 0, n), exists(lambda j: r[j] == b, 0, n)), 0, n)",
            "nonpos": "result <= 0",
            # no single-element move gains more than the 0.001 threshold (difference-array form; the link between the
            # cumulated differences and the score difference is the delta lemma, see `assumed` and DESIGN)
            "locopt_join_r": "forall(lambda t, x: implies(x > r[t] and exists(lambda j: r[j] == x, 0, n), "
                             "SR_CH(r, cost_matrix_1d, t, n, x) >= -0.001), 0, n, 0, n + 1)",
            "locopt_join_l": "forall(lambda t, x: implies(x < r[t], SL_CH(r, cost_matrix_1d, t, n, x) >= -0.001), 0, n, 0, n)",
            "locopt_add_r": "forall(lambda t, x: implies(x > r[t] and exists(lambda j: r[j] + 1 >= x, 0, n), "
                            "SR_AD(r, cost_matrix_1d, t, n, x) >= -0.001), 0, n, 0, n + 2)",
            "locopt_add_l": "forall(lambda t, x: implies(x <= r[t], SL_AD(r, cost_matrix_1d, t, n, x) >= -0.001), 0, n, 0, n + 1)",
            # semantic form (through the delta lemmas): for every element t, joining any other existing bucket x, or
            # standing alone in a new bucket at any position x, changes the sum over the other elements e2 of the
            # pairwise cost of (t, e2) by no less than -0.001
            "locopt_sem_join": "forall(lambda t, x: implies(x != r[t] and exists(lambda j: r[j] == x, 0, n), "
                               "DJS(r, cost_matrix_1d, t, n, n, x) >= -0.001), 0, n, 0, n + 1)",
            "locopt_sem_add": "forall(lambda t, x: implies(exists(lambda j: r[j] + 1 >= x, 0, n), "
                              "DAS(r, cost_matrix_1d, t, n, n, x) >= -0.001), 0, n, 0, n + 2)",
            # C04.bc.sum: the returned value is the score difference of the whole local search
            "delta": "result == SC(r, 0, cost_matrix_1d, n, n) - SC(old(r), 0, cost_matrix_1d, n, n)",
        },
        loops={
            1: dict(inv=dict(SWEEP_INV, **{
                "loc_" + nm: "implies(terminated == 1, forall(lambda t: %s, 0, n))" % (src.replace("%s", "max_id_bucket"))
                for nm, src in LOCS.items()})),
            2: dict(inv=dict(SWEEP_INV, **{
                "loc_" + nm: "implies(terminated == 1, forall(lambda t: %s, 0, elem))" % (src.replace("%s", "max_id_bucket"))
                for nm, src in LOCS.items()})),
        },
        use_lemmas={"locopt_sem_join": ["delta_join_right", "delta_join_left"],
                    "locopt_sem_add": ["delta_add_right", "delta_add_left"]},
        call_hints={
            "_search_to_change_bucket": [
                "loc_join_r(CH0, r, cost_matrix_1d, elem, n, max_id_bucket, call_result)",
                "loc_join_l(CH0, r, cost_matrix_1d, elem, n, max_id_bucket, call_result)",
                # the value found by the search is the semantic delta of the move
                "implies(call_result > r[elem], ext_r_ch(CH0, r, cost_matrix_1d, elem, n, call_result))",
                "implies(call_result > r[elem], delta_join_right(r, cost_matrix_1d, elem, n, call_result))",
                "implies(0 <= call_result and call_result < r[elem], ext_l_ch(CH0, r, cost_matrix_1d, elem, n, call_result))",
                "implies(0 <= call_result and call_result < r[elem], delta_join_left(r, cost_matrix_1d, elem, n, call_result))"],
            "_search_to_add_bucket": [
                "loc_add_r(AD0, r, cost_matrix_1d, elem, n, max_id_bucket, call_result)",
                "loc_add_l(AD0, r, cost_matrix_1d, elem, n, max_id_bucket, call_result)",
                "implies(call_result > r[elem], ext_r_ad(AD0, r, cost_matrix_1d, elem, n, call_result))",
                "implies(call_result > r[elem], delta_add_right(r, cost_matrix_1d, elem, n, call_result))",
                "implies(0 <= call_result and call_result <= r[elem], ext_l_ad(AD0, r, cost_matrix_1d, elem, n, call_result))",
                "implies(0 <= call_result and call_result <= r[elem], delta_add_left(r, cost_matrix_1d, elem, n, call_result))"],
            # after the move: the score changed by exactly that delta (pair-sum identity on the vector before / after)
            "_change_bucket": ["dqs_is_djs(r, R1, cost_matrix_1d, elem, n, n, to)", "pairsum(r, R1, cost_matrix_1d, elem, n)"],
            "_add_bucket": ["dqs_is_das(r, R1, cost_matrix_1d, elem, n, n, to)", "pairsum(r, R1, cost_matrix_1d, elem, n)"],
        },
        hints={2: ["dense_bound(r, n, max_id_bucket, wit)", "nl_bound(n, elem)",
                   "CH_own_zero(r, cost_matrix_1d, elem, r[elem], n, n)"]},
        exit_hints={1: ["dense_bound(r, n, max_id_bucket, wit)", "dense_exists(r, n, max_id_bucket, wit)"]},
        focus={"locopt_sem_join": ["SR_CH", "SL_CH", "DJS"], "locopt_sem_add": ["SR_AD", "SL_AD", "DAS"],
               "inv.delta": ["SC", "DQS", "DJS", "DAS", "SR_CH", "SL_CH", "SR_AD", "SL_AD", "cumr", "cuml"],
               "lemma_call.pairsum": ["SAMEREL", "MIRP"], "lemma_call.dqs": ["rel"],
               "mx_wit": ["chg_wit", "add_wit"], "mx_range": ["chg_wit", "add_wit"], "nonpos": ["cumr", "cuml"],
               "own_zero": ["CH", "TIE"], "dense_bound": ["TOT", "CNT"]},
        call_ghost={
            ("_compute_delta_costs", "maxb"): "max_id_bucket",
            ("_change_bucket", "maxb"): "max_id_bucket", ("_change_bucket", "wit"): "wit",
            ("_change_bucket", "mate"): "choose(lambda j: j != elem and r[j] == bucket_elem, 0, n)",
            ("_add_bucket", "maxb"): "max_id_bucket", ("_add_bucket", "wit"): "wit",
            ("_add_bucket", "mate"): "choose(lambda j: j != elem and r[j] == bucket_elem, 0, n)",
        },
        ghost_after={
            "_compute_delta_costs": {"CH0": "change", "AD0": "add", "R1": "r"},     # snapshots: difference arrays, vector
            "_change_bucket": {"wit": "lam(lambda b: chg_wit(wit, g_mate, bucket_elem, alone, b))"},
            "_add_bucket": {"wit": "lam(lambda b: add_wit(wit, g_mate, elem, bucket_elem, to, alone, b))"},
        },
        gen=lambda rng: gen_improve(rng),
    )

    # row `off .. off+n` of a flattened matrix of bucket-id vectors is dense with maximum mb (witnesses w)
    reg.spec("def ROWDENSE(d, off, n, mb, w):\n"
             "    return forall(lambda j: 0 <= d[off + j] and d[off + j] <= mb, 0, n) and "
             "forall(lambda b: 0 <= w[b] and w[b] < n and d[off + w[b]] == b, 0, mb + 1)",
             dict(d=Arr(Int), off=Int, n=Int, mb=Int, w=Arr(Int)), Bool)

    reg.contract(
        F + "BioConsert._bio_consert", props=["C04", "C09", "C03"],
        params=dict(departure_rankings=Arr(Int), cost_matrix_1d=Arr(Real), n=Int, nb_rankings_departure=Int,
                    dst_min=Arr(Real)),
        requires={"n": "n >= 1 and nb_rankings_departure >= 0",
                  "len_dep": "len(departure_rankings) == nb_rankings_departure * n",
                  "len_c": "len(cost_matrix_1d) == 3 * n * n", "len_dst": "len(dst_min) == nb_rankings_departure",
                  "range": "forall(lambda p: 0 <= departure_rankings[p] <= n - 1, 0, len(departure_rankings))",
                  # every departure ranking is a dense bucket-id vector (built so by _departure_rankings: bounded tier)
                  "rows_dense": "forall(lambda i: ROWDENSE(departure_rankings, i * n, n, maxbs[i], wits[i]), "
                                "0, nb_rankings_departure)",
                  "mirror": "forall(lambda t, a: MIRP(cost_matrix_1d, n, t, a), 0, n, 0, n)"},
        ghost=dict(maxbs=Arr(Int), wits=Arr(Int, 2)),
        call_ghost={("_improve_one_ranking", "maxb0"): "maxbs[i]", ("_improve_one_ranking", "wit0"): "wits[i]"},
        needed_by={"rows_dense": ["hint(ROWDENSE"]},      # non-linear offsets i*n: only the hint that instantiates it
        modifies=["departure_rankings", "dst_min"],
        ensures={
            "range": "forall(lambda p: 0 <= departure_rankings[p] <= n - 1, 0, len(departure_rankings))",
        },
        after_loop={3: {"init_score": "dst_init == SC(r, 0, cost_matrix_1d, n, n)"},
                    # C04.bc: the score stored for departure i is the score of the improved ranking written back
                    5: {"row_score": "dst_min[i] == SC(departure_rankings, cpt, cost_matrix_1d, n, n)"}},
        exit_hints={5: ["sc_shift(r, departure_rankings, cpt, cost_matrix_1d, n, n)"]},
        loops={
            1: dict(inv={"cpt": "cpt == i * n",
                         "len_r": "len(r) == n",
                         "suffix": "forall(lambda p: departure_rankings[p] == old(departure_rankings)[p], cpt, "
                                   "len(departure_rankings))",
                         "range": "forall(lambda p: 0 <= departure_rankings[p] <= n - 1, 0, len(departure_rankings))"}),
            2: dict(inv={"cpt2": "cpt2 == cpt + j",
                         "copied": "forall(lambda a: r[a] == departure_rankings[cpt + a], 0, j)"}),
            3: dict(inv={"partial": "dst_init == SC(r, 0, cost_matrix_1d, n, id_elem1)"}),
            4: dict(inv={"partial": "dst_init == SC(r, 0, cost_matrix_1d, n, id_elem1) + "
                                    "SCrow(r, 0, cost_matrix_1d, n, id_elem1, id_elem2)"}),
            5: dict(inv={"cpt2": "cpt2 == cpt + j",
                         "suffix": "forall(lambda p: departure_rankings[p] == old(departure_rankings)[p], cpt + n, "
                                   "len(departure_rankings))",
                         "dst": "dst_min[i] == SC(r, 0, cost_matrix_1d, n, n)",
                         "range": "forall(lambda p: implies(p < cpt or p >= cpt + j, 0 <= departure_rankings[p] <= n - 1), "
                                  "0, len(departure_rankings))",
                         "copied": "forall(lambda p: departure_rankings[p] == r[p - cpt], cpt, cpt + j)"}),
        },
        hints={1: ["mul_mono(i, nb_rankings_departure, n)",
                   "ROWDENSE(old(departure_rankings), cpt, n, maxbs[i], wits[i])"],
               2: ["mul_mono(i, nb_rankings_departure, n)"],
               4: ["idx_bound(id_elem1, id_elem2, n)"],
               5: ["mul_mono(i, nb_rankings_departure, n)"]},
        rt_only={"scores": "forall(lambda i: dst_min[i] == SC(departure_rankings, i * n, cost_matrix_1d, n, n), "
                           "0, nb_rankings_departure)"},
        gen=lambda rng: gen_bio(rng),
    )

    # ------------------------------------------------------------------------------------------------------------------
    # Pigeonhole for dense vectors, by counting:  CNT = occurrences of id b among the first m entries,
    # TOT = sum of CNT over ids 0..k.  dense(r) => maxb + 1 <= n; with two elements in one bucket maxb + 2 <= n.
    reg.spec("def CNT(r, m, b):\n    return 0 if m <= 0 else CNT(r, m - 1, b) + ite(r[m - 1] == b, 1, 0)",
             dict(r=Arr(Int), m=Int, b=Int), Int)
    reg.spec("def TOT(r, m, k):\n    return 0 if k < 0 else TOT(r, m, k - 1) + CNT(r, m, k)",
             dict(r=Arr(Int), m=Int, k=Int), Int)
    PH = ["C08", "C09", "C03"]
    reg.lemma("cnt_nonneg", dict(r=Arr(Int), m=Int, b=Int), "CNT(r, m, b) >= 0", props=PH, induction="m", base="0")
    reg.lemma("tot_empty", dict(r=Arr(Int), k=Int), "TOT(r, 0, k) == 0", props=PH, induction="k", base="-1")
    reg.lemma("tot_step", dict(r=Arr(Int), m=Int, k=Int),
              "TOT(r, m + 1, k) == TOT(r, m, k) + ite(0 <= r[m] and r[m] <= k, 1, 0)", props=PH,
              induction="k", base="-1", requires={"m": "m >= 0"})
    reg.lemma("tot_is_len", dict(r=Arr(Int), m=Int, k=Int), "TOT(r, m, k) == m", props=PH, induction="m", base="0",
              requires={"range": "forall(lambda j: 0 <= r[j] and r[j] <= k, 0, m)"},
              use_lemmas=["tot_empty", "tot_step"])
    reg.lemma("cnt_witness", dict(r=Arr(Int), m=Int, b=Int, w=Int), "CNT(r, m, b) >= 1", props=PH,
              induction="m", base="w + 1", requires={"w": "0 <= w and r[w] == b"}, use_lemmas=["cnt_nonneg"])
    reg.lemma("cnt_two", dict(r=Arr(Int), m=Int, b=Int, w1=Int, w2=Int), "CNT(r, m, b) >= 2", props=PH,
              induction="m", base="w2 + 1", requires={"w": "0 <= w1 and w1 < w2 and r[w1] == b and r[w2] == b"},
              use_lemmas=["cnt_witness"])
    DW = {"n": "m >= 0", "wit": "forall(lambda b: 0 <= wit[b] and wit[b] < m and r[wit[b]] == b, 0, k + 1)"}
    reg.lemma("tot_lower", dict(r=Arr(Int), m=Int, k=Int, wit=Arr(Int)), "TOT(r, m, k) >= k + 1", props=PH,
              induction="k", base="-1", requires=DW, hints=["cnt_witness(r, m, k + 1, wit[k + 1])"])
    reg.lemma("tot_lower2", dict(r=Arr(Int), m=Int, k=Int, wit=Arr(Int), e1=Int, e2=Int), "TOT(r, m, k) >= k + 2",
              props=PH, induction="k", base="r[e1]",
              requires=dict(DW, pair="0 <= e1 and e1 < e2 and e2 < m and r[e1] == r[e2] and r[e1] >= 0"),
              hints=["cnt_witness(r, m, k + 1, wit[k + 1])"],
              base_hints=["tot_lower(r, m, r[e1] - 1, wit)", "cnt_two(r, m, r[e1], e1, e2)"])
    reg.lemma("dense_bound", dict(r=Arr(Int), m=Int, k=Int, wit=Arr(Int)), "k + 1 <= m", props=PH,
              requires=dict(DW, k="k >= -1", range="forall(lambda j: 0 <= r[j] and r[j] <= k, 0, m)"),
              hints=["tot_is_len(r, m, k)", "tot_lower(r, m, k, wit)"])
    reg.lemma("dense_bound2", dict(r=Arr(Int), m=Int, k=Int, wit=Arr(Int), e1=Int, e2=Int), "k + 2 <= m", props=PH,
              requires=dict(DW, k="k >= -1", range="forall(lambda j: 0 <= r[j] and r[j] <= k, 0, m)",
                            pair="0 <= e1 and e1 < e2 and e2 < m and r[e1] == r[e2]"),
              hints=["tot_is_len(r, m, k)", "tot_lower2(r, m, k, wit, e1, e2)"])

    register_delta_lemmas(reg)


def register_delta_lemmas(reg):
    """The delta lemma (join moves): the cumulated differences equal the sum, over the other elements e2, of
    cost(relation after the move) - cost(relation before the move).  Fubini-style exchange of the two sums, by induction."""
    DL = ["C08", "C04", "C09"]
    A = dict(r=Arr(Int), c=Arr(Real), t=Int, n=Int, e2=Int, x=Int)
    Am = dict(r=Arr(Int), c=Arr(Real), t=Int, n=Int, m=Int, x=Int)
    # relation of bucket a (of the moved element) to bucket b: 0 before, 1 after, 2 tied -> index of the cost cell
    reg.spec("def rel(a, b):\n    return 0 if a < b else (1 if a > b else 2)", dict(a=Int, b=Int), Int)
    # what moving t into bucket x changes for the pair (t, e2)
    reg.spec("def dj(r, c, t, n, e2, x):\n"
             "    return 0.0 if e2 == t else c[IDX(n, t, e2) + rel(x, r[e2])] - c[IDX(n, t, e2) + rel(r[t], r[e2])]", A, Real)
    reg.spec("def DJS(r, c, t, n, m, x):\n    return 0.0 if m <= 0 else DJS(r, c, t, n, m - 1, x) + dj(r, c, t, n, m - 1, x)",
             Am, Real)
    # ---- to the right of the own bucket
    reg.spec("def SCHE(r, c, t, n, e2, x):\n"
             "    return 0.0 if x <= r[t] else SCHE(r, c, t, n, e2, x - 1) + ch(r, c, t, r[t], n, e2, x)", A, Real)
    reg.spec("def closedJ(r, c, t, n, e2, x):\n"
             "    return (ite(r[e2] <= x, c[IDX(n, t, e2) + 2] - c[IDX(n, t, e2)], 0.0) + "
             "ite(r[e2] + 1 <= x, c[IDX(n, t, e2) + 1] - c[IDX(n, t, e2) + 2], 0.0)) if r[t] < r[e2] else 0.0", A, Real)
    reg.lemma("J_point", A, "SCHE(r, c, t, n, e2, x) == closedJ(r, c, t, n, e2, x)", props=DL, induction="x", base="r[t]")
    reg.spec("def SCH(r, c, t, n, m, x):\n"
             "    return 0.0 if x <= r[t] else SCH(r, c, t, n, m, x - 1) + CH(r, c, t, r[t], n, m, x)", Am, Real)
    reg.lemma("J_zero", dict(r=Arr(Int), c=Arr(Real), t=Int, n=Int, x=Int), "SCH(r, c, t, n, 0, x) == 0", props=DL,
              induction="x", base="r[t]")
    reg.lemma("J_step", Am, "SCH(r, c, t, n, m + 1, x) == SCH(r, c, t, n, m, x) + SCHE(r, c, t, n, m, x)", props=DL,
              induction="x", base="r[t]", requires={"m": "m >= 0"})
    reg.spec("def SCL(r, c, t, n, m, x):\n"
             "    return 0.0 if m <= 0 else SCL(r, c, t, n, m - 1, x) + closedJ(r, c, t, n, m - 1, x)", Am, Real)
    reg.lemma("J_exchange", Am, "SCH(r, c, t, n, m, x) == SCL(r, c, t, n, m, x)", props=DL, induction="m", base="0",
              requires={"x": "x >= r[t]"}, base_hints=["J_zero(r, c, t, n, x)"],
              hints=["J_step(r, c, t, n, m, x)", "J_point(r, c, t, n, m, x)"])
    reg.lemma("J_tail", dict(r=Arr(Int), c=Arr(Real), t=Int, n=Int, x=Int),
              "SR_CH(r, c, t, n, x) == SCH(r, c, t, n, n, x) + ite(x >= r[t] + 1, "
              "TIE(r, c, t, r[t], n, n, 1) - TIE(r, c, t, r[t], n, n, 2), 0.0)", props=DL, induction="x", base="r[t]")
    reg.lemma("J_sem", Am, "SCL(r, c, t, n, m, x) + TIE(r, c, t, r[t], n, m, 1) - TIE(r, c, t, r[t], n, m, 2) == "
                           "DJS(r, c, t, n, m, x)", props=DL, induction="m", base="0", requires={"x": "x > r[t]"})
    # the delta lemma, join to the right: cumulated differences == semantic delta
    reg.lemma("delta_join_right", dict(r=Arr(Int), c=Arr(Real), t=Int, n=Int, x=Int),
              "SR_CH(r, c, t, n, x) == DJS(r, c, t, n, n, x)", props=DL, requires={"x": "x > r[t]", "n": "n >= 0"},
              hints=["J_tail(r, c, t, n, x)", "J_exchange(r, c, t, n, n, x)", "J_sem(r, c, t, n, n, x)"])

    P = "c[IDX(n, t, e2)%s]"
    # what putting t alone in a new bucket at position x (before old bucket x) changes for the pair (t, e2)
    reg.spec("def da(r, c, t, n, e2, x):\n"
             "    return 0.0 if e2 == t else c[IDX(n, t, e2) + ite(r[e2] < x, 1, 0)] - c[IDX(n, t, e2) + rel(r[t], r[e2])]", A, Real)
    reg.spec("def DAS(r, c, t, n, m, x):\n    return 0.0 if m <= 0 else DAS(r, c, t, n, m - 1, x) + da(r, c, t, n, m - 1, x)",
             Am, Real)
    L5 = dict(r=Arr(Int), c=Arr(Real), t=Int, n=Int, x=Int)

    def right_chain(tag, contrib, BIG, closed_src, SUMK, tie_w, sem_sum, final_name):
        """sums over k in (r[t], x]; contrib = ch / ad, BIG = CH / AD, SUMK = SR_CH / SR_AD"""
        reg.spec("def E_%s(r, c, t, n, e2, x):\n    return 0.0 if x <= r[t] else E_%s(r, c, t, n, e2, x - 1) + "
                 "%s(r, c, t, r[t], n, e2, x)" % (tag, tag, contrib), A, Real)
        reg.spec("def closed_%s(r, c, t, n, e2, x):\n    return %s" % (tag, closed_src), A, Real)
        reg.lemma("%s_point" % tag, A, "E_%s(r, c, t, n, e2, x) == closed_%s(r, c, t, n, e2, x)" % (tag, tag), props=DL,
                  induction="x", base="r[t]")
        reg.spec("def S_%s(r, c, t, n, m, x):\n    return 0.0 if x <= r[t] else S_%s(r, c, t, n, m, x - 1) + "
                 "%s(r, c, t, r[t], n, m, x)" % (tag, tag, BIG), Am, Real)
        reg.lemma("%s_zero" % tag, L5, "S_%s(r, c, t, n, 0, x) == 0" % tag, props=DL, induction="x", base="r[t]")
        reg.lemma("%s_step" % tag, Am, "S_%s(r, c, t, n, m + 1, x) == S_%s(r, c, t, n, m, x) + E_%s(r, c, t, n, m, x)"
                  % (tag, tag, tag), props=DL, induction="x", base="r[t]", requires={"m": "m >= 0"})
        reg.spec("def C_%s(r, c, t, n, m, x):\n    return 0.0 if m <= 0 else C_%s(r, c, t, n, m - 1, x) + "
                 "closed_%s(r, c, t, n, m - 1, x)" % (tag, tag, tag), Am, Real)
        reg.lemma("%s_exchange" % tag, Am, "S_%s(r, c, t, n, m, x) == C_%s(r, c, t, n, m, x)" % (tag, tag), props=DL,
                  induction="m", base="0", requires={"x": "x >= r[t]"}, base_hints=["%s_zero(r, c, t, n, x)" % tag],
                  hints=["%s_step(r, c, t, n, m, x)" % tag, "%s_point(r, c, t, n, m, x)" % tag])
        reg.lemma("%s_tail" % tag, L5, "%s(r, c, t, n, x) == S_%s(r, c, t, n, n, x) + ite(x >= r[t] + 1, "
                  "TIE(r, c, t, r[t], n, n, %d) - TIE(r, c, t, r[t], n, n, 2), 0.0)" % (SUMK, tag, tie_w), props=DL,
                  induction="x", base="r[t]")
        reg.lemma("%s_sem" % tag, Am, "C_%s(r, c, t, n, m, x) + TIE(r, c, t, r[t], n, m, %d) - TIE(r, c, t, r[t], n, m, 2) "
                  "== %s(r, c, t, n, m, x)" % (tag, tie_w, sem_sum), props=DL, induction="m", base="0",
                  requires={"x": "x > r[t]"})
        reg.lemma(final_name, L5, "%s(r, c, t, n, x) == %s(r, c, t, n, n, x)" % (SUMK, sem_sum), props=DL,
                  requires={"x": "x > r[t]", "n": "n >= 0"},
                  hints=["%s_tail(r, c, t, n, x)" % tag, "%s_exchange(r, c, t, n, n, x)" % tag,
                         "%s_sem(r, c, t, n, n, x)" % tag])

    right_chain("AR", "ad", "AD", "ite(r[t] < r[e2] and r[e2] + 1 <= x, " + P % " + 1" + " - " + P % "" + ", 0.0)",
                "SR_AD", 1, "DAS", "delta_add_right")

    Ad = dict(A, d=Int)
    Amd = dict(Am, d=Int)
    L5d = dict(L5, d=Int)

    def left_chain(tag, contrib, BIG, closed_src, SUMK, top, tie_w, tail_cond, sem_sum, sem_req, final_name, final_req):
        """sums over k in [x, top) with top = r[t] (join) or r[t] + 1 (new bucket); downward induction through the
        distance d = top - x"""
        reg.spec("def E_%s(r, c, t, n, e2, x):\n    return 0.0 if x >= %s else E_%s(r, c, t, n, e2, x + 1) + "
                 "%s(r, c, t, r[t], n, e2, x)" % (tag, top, tag, contrib), A, Real)
        reg.spec("def closed_%s(r, c, t, n, e2, x):\n    return %s" % (tag, closed_src), A, Real)
        XD = {"x": "x == %s - d and x >= 0" % top}
        reg.lemma("%s_point" % tag, Ad, "E_%s(r, c, t, n, e2, x) == closed_%s(r, c, t, n, e2, x)" % (tag, tag), props=DL,
                  induction="d", base="0", requires=XD)
        reg.spec("def S_%s(r, c, t, n, m, x):\n    return 0.0 if x >= %s else S_%s(r, c, t, n, m, x + 1) + "
                 "%s(r, c, t, r[t], n, m, x)" % (tag, top, tag, BIG), Am, Real)
        reg.lemma("%s_zero" % tag, L5d, "S_%s(r, c, t, n, 0, x) == 0" % tag, props=DL, induction="d", base="0", requires=XD)
        reg.lemma("%s_step" % tag, Amd, "S_%s(r, c, t, n, m + 1, x) == S_%s(r, c, t, n, m, x) + E_%s(r, c, t, n, m, x)"
                  % (tag, tag, tag), props=DL, induction="d", base="0", requires=dict(XD, m="m >= 0"),
                  hints=["%s_step(r, c, t, n, m, x + 1, d)" % tag])
        reg.spec("def C_%s(r, c, t, n, m, x):\n    return 0.0 if m <= 0 else C_%s(r, c, t, n, m - 1, x) + "
                 "closed_%s(r, c, t, n, m - 1, x)" % (tag, tag, tag), Am, Real)
        D = "%s - x" % top
        reg.lemma("%s_exchange" % tag, Am, "S_%s(r, c, t, n, m, x) == C_%s(r, c, t, n, m, x)" % (tag, tag), props=DL,
                  induction="m", base="0", requires={"x": "0 <= x and x <= %s" % top},
                  base_hints=["%s_zero(r, c, t, n, x, %s)" % (tag, D)],
                  hints=["%s_step(r, c, t, n, m, x, %s)" % (tag, D), "%s_point(r, c, t, n, m, x, %s)" % (tag, D)])
        reg.lemma("%s_tail" % tag, L5d, "%s(r, c, t, n, x) == S_%s(r, c, t, n, n, x) + ite(%s, "
                  "TIE(r, c, t, r[t], n, n, %d) - TIE(r, c, t, r[t], n, n, 2), 0.0)" % (SUMK, tag, tail_cond, tie_w), props=DL,
                  induction="d", base="0", requires=XD)
        reg.lemma("%s_sem" % tag, Am, "C_%s(r, c, t, n, m, x) + TIE(r, c, t, r[t], n, m, %d) - TIE(r, c, t, r[t], n, m, 2) "
                  "== %s(r, c, t, n, m, x)" % (tag, tie_w, sem_sum), props=DL, induction="m", base="0", requires={"x": sem_req})
        reg.lemma(final_name, L5, "%s(r, c, t, n, x) == %s(r, c, t, n, n, x)" % (SUMK, sem_sum), props=DL,
                  requires={"x": final_req, "n": "n >= 0"},
                  hints=["%s_tail(r, c, t, n, x, %s)" % (tag, D), "%s_exchange(r, c, t, n, n, x)" % tag,
                         "%s_sem(r, c, t, n, n, x)" % tag])

    left_chain("JL", "ch", "CH",
               "(ite(x <= r[e2], " + P % " + 2" + " - " + P % " + 1" + ", 0.0) + ite(r[e2] != 0 and x <= r[e2] - 1, "
               + P % "" + " - " + P % " + 2" + ", 0.0)) if r[e2] < r[t] else 0.0",
               "SL_CH", "r[t]", 0, "x <= r[t] - 1", "DJS", "0 <= x and x < r[t]", "delta_join_left", "0 <= x and x < r[t]")
    left_chain("AL", "ad", "AD",
               "ite(r[e2] < r[t] and x <= r[e2], " + P % "" + " - " + P % " + 1" + ", 0.0)",
               "SL_AD", "r[t] + 1", 0, "x <= r[t]", "DAS", "0 <= x and x <= r[t]", "delta_add_left", "0 <= x and x <= r[t]")

    register_pairsum_lemmas(reg)


def register_pairsum_lemmas(reg):
    """The score is a sum over unordered pairs; when only the relations of element t to the others change (from vector r
    to vector q), the score changes by the sum over the other elements e2 of cost(t, e2, new relation) - cost(t, e2, old).
    Needs the mirror consistency of the flattened table: cell(a, t, before) == cell(t, a, after), tied cells equal."""
    PL = ["C04", "C08", "C09"]
    # mirror consistency of the flattened cost table for the pair (a, t)   (opaque: used as a trigger)
    reg.spec("def MIRP(c, n, t, a):\n"
             "    return c[IDX(n, a, t)] == c[IDX(n, t, a) + 1] and c[IDX(n, a, t) + 1] == c[IDX(n, t, a)] and "
             "c[IDX(n, a, t) + 2] == c[IDX(n, t, a) + 2]", dict(c=Arr(Real), n=Int, t=Int, a=Int), Bool, opaque=True)
    Q = dict(q=Arr(Int), r=Arr(Int), c=Arr(Real), t=Int, n=Int)
    # change of the cost of the pair (t, e2) between r and q
    reg.spec("def dq(q, r, c, t, n, e2):\n"
             "    return 0.0 if e2 == t else c[IDX(n, t, e2) + rel(q[t], q[e2])] - c[IDX(n, t, e2) + rel(r[t], r[e2])]",
             dict(Q, e2=Int), Real)
    # the relations among the elements other than t are the same in q and r   (opaque predicate, trigger)
    reg.spec("def SAMEREL(q, r, t, a, b):\n"
             "    return implies(a != t and b != t, rel(q[a], q[b]) == rel(r[a], r[b]))",
             dict(q=Arr(Int), r=Arr(Int), t=Int, a=Int, b=Int), Bool, opaque=True)
    SAME = {"same": "forall(lambda a, b: SAMEREL(q, r, t, a, b), 0, n, 0, n)"}
    reg.lemma("ps_row_other", dict(Q, a=Int, m=Int),
              "SCrow(q, 0, c, n, a, m) - SCrow(r, 0, c, n, a, m) == ite(a < t and t < m, dq(q, r, c, t, n, a), 0.0)",
              props=PL, induction="m", base="0",
              requires=dict(SAME, a="0 <= a and a < n and a != t", t="0 <= t and t < n", m="m <= n",
                            mir="MIRP(c, n, t, a)"),
              hints=["SAMEREL(q, r, t, a, m) or True"], prefer="cvc5")
    reg.spec("def DQT(q, r, c, t, n, m):\n    return 0.0 if m <= t + 1 else DQT(q, r, c, t, n, m - 1) + dq(q, r, c, t, n, m - 1)",
             dict(Q, m=Int), Real)
    reg.spec("def DQL(q, r, c, t, n, k):\n    return 0.0 if k <= 0 else DQL(q, r, c, t, n, k - 1) + dq(q, r, c, t, n, k - 1)",
             dict(Q, k=Int), Real)
    reg.lemma("ps_row_t", dict(Q, m=Int), "SCrow(q, 0, c, n, t, m) - SCrow(r, 0, c, n, t, m) == DQT(q, r, c, t, n, m)",
              props=PL, induction="m", base="0", requires={"t": "0 <= t and t < n", "m": "m <= n"})
    reg.lemma("ps_total", dict(Q, m=Int),
              "SC(q, 0, c, n, m) - SC(r, 0, c, n, m) == DQL(q, r, c, t, n, ite(m < t, m, t)) + ite(t < m, DQT(q, r, c, t, n, n), 0.0)",
              props=PL, induction="m", base="0",
              requires=dict(SAME, t="0 <= t and t < n", m="m <= n", mir="forall(lambda a: MIRP(c, n, t, a), 0, n)"),
              hints=["implies(m != t, ps_row_other(q, r, c, t, n, m, n))", "ps_row_t(q, r, c, t, n, n)"], prefer="cvc5")
    reg.spec("def DQS(q, r, c, t, n, m):\n    return 0.0 if m <= 0 else DQS(q, r, c, t, n, m - 1) + dq(q, r, c, t, n, m - 1)",
             dict(Q, m=Int), Real)
    reg.lemma("ps_split", dict(Q, m=Int),
              "DQS(q, r, c, t, n, m) == DQL(q, r, c, t, n, ite(m < t, m, t)) + ite(t < m, DQT(q, r, c, t, n, m), 0.0)",
              props=PL, induction="m", base="0", requires={"t": "0 <= t"})
    # pair-sum identity: the score difference is the sum of the pairwise changes of t
    reg.lemma("pairsum", Q, "SC(q, 0, c, n, n) - SC(r, 0, c, n, n) == DQS(q, r, c, t, n, n)", props=PL,
              requires=dict(SAME, t="0 <= t and t < n", mir="forall(lambda a: MIRP(c, n, t, a), 0, n)"),
              hints=["ps_total(q, r, c, t, n, n)", "ps_split(q, r, c, t, n, n)"])

    reg.lemma("dqs_is_djs", dict(q=Arr(Int), r=Arr(Int), c=Arr(Real), t=Int, n=Int, m=Int, x=Int),
              "DQS(q, r, c, t, n, m) == DJS(r, c, t, n, m, x)", props=PL, induction="m", base="0",
              requires={"rel": "forall(lambda e2: implies(e2 != t, rel(q[t], q[e2]) == rel(x, r[e2])), 0, m)"})
    reg.lemma("dqs_is_das", dict(q=Arr(Int), r=Arr(Int), c=Arr(Real), t=Int, n=Int, m=Int, x=Int),
              "DQS(q, r, c, t, n, m) == DAS(r, c, t, n, m, x)", props=PL, induction="m", base="0",
              requires={"rel": "forall(lambda e2: implies(e2 != t, rel(q[t], q[e2]) == ite(r[e2] < x, 1, 0)), 0, m)"})

    SH = dict(r=Arr(Int), d=Arr(Int), off=Int, c=Arr(Real), n=Int)
    SHR = {"same": "forall(lambda a: r[a] == d[off + a], 0, n)"}
    reg.lemma("sc_shift_row", dict(SH, a=Int, m=Int), "SCrow(r, 0, c, n, a, m) == SCrow(d, off, c, n, a, m)", props=PL,
              induction="m", base="0", requires=dict(SHR, a="0 <= a and a < n", m="m <= n"))
    reg.lemma("sc_shift", dict(SH, m=Int), "SC(r, 0, c, n, m) == SC(d, off, c, n, m)", props=PL, induction="m", base="0",
              requires=dict(SHR, m="m <= n"), hints=["sc_shift_row(r, d, off, c, n, m, n)"])

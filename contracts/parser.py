"""Sidecar contract for utils.parse_ranking_with_ties — property C18 (no hang, only ValueError).

Strings are opaque; only len / find / rfind carry integer contracts (-1 or an index within the searched window, and for
full-range searches of one character: found together, find <= rfind).  The list being built and the converter are opaque.
"""
from pyvc.types import Str, Obj

F = "corankco/utils.py::"


def gen_parse(rng):
    from corankco.element import Element
    alphabet = "[]{},a1 :"
    if rng.random() < 0.5:
        k = rng.randint(0, 4)
        txt = "[" + ", ".join("{" + ", ".join(rng.choice(["a", "1", "12", "b c"]) for _ in range(rng.randint(0, 3))) + "}"
                              for _ in range(k)) + "]"
        if rng.random() < 0.3:
            pos = rng.randrange(len(txt) + 1)
            txt = txt[:pos] + rng.choice(alphabet) + txt[pos:]
    else:
        txt = "".join(rng.choice(alphabet) for _ in range(rng.randint(0, 9)))
    return dict(ranking=txt, converter=lambda x: Element(str(x)))


def register(reg):
    reg.contract(
        F + "parse_ranking_with_ties", props=["C18"],
        params=dict(ranking=Str, converter=Obj),
        requires={}, modifies=[],
        may_raise=["ValueError"],       # C18.raises: every raise statement of the parser raises ValueError
        ensures={},
        loops={1: dict(
            inv={"window": "en_str == -1 or (0 <= en_str and en_str <= ranking_end)"},
            # C18.terminates: the closing-bracket cursor strictly advances towards the last bracket, or becomes -1
            variant="ite(en_str == -1, 0, ranking_end - en_str + 1)")},
        gen=gen_parse,
    )

"""Sidecar contracts for the Markov moves of Ranking.generate_rankings — property C20.

Dense(v): entries >= -1 (-1 = unranked) and the non-negative entries are exactly 0..maxb, every id used (ghost witness).
"""
from pyvc.types import Int, Arr

F = "corankco/ranking.py::Ranking."

DENSE = {
    "len": "len(ranking) == n_",
    "elem": "0 <= elem < n_",
    "range": "forall(lambda j: -1 <= ranking[j] <= maxb, 0, n_)",
    "wit": "forall(lambda b: 0 <= wit[b] < n_ and ranking[wit[b]] == b, 0, maxb + 1)",
    "maxb": "maxb >= -1",
}
RANKED = {"ranked": "ranking[elem] >= 0"}
SAME_RANKED = "forall(lambda j: (ranking[j] >= 0) == (old(ranking)[j] >= 0), 0, n_)"
OTHERS = "forall(lambda i, j: implies(i != elem and j != elem and old(ranking)[i] >= 0 and old(ranking)[j] >= 0, " \
         "(ranking[i] < ranking[j]) == (old(ranking)[i] < old(ranking)[j]) and " \
         "(ranking[i] == ranking[j]) == (old(ranking)[i] == old(ranking)[j])), 0, n_)"


def dense_out(newmax, witfn):
    return {
        "dense_range": "forall(lambda j: -1 <= ranking[j] <= %s, 0, n_)" % newmax,
        "dense_wit": "forall(lambda b: 0 <= %s < n_ and ranking[%s] == b, 0, %s + 1)" % (witfn, witfn, newmax),
    }


def gen_vec(rng, ranked=True):
    n = rng.randint(1, 6)
    k = rng.randint(0, n)
    ids = list(range(k)) + [rng.randrange(k) if (k and rng.random() < 0.7) else -1 for _ in range(n - k)]
    rng.shuffle(ids)
    maxb = k - 1
    wit = [ids.index(b) for b in range(k)]
    cands = [e for e in range(n) if (ids[e] >= 0) == ranked]
    if not cands:
        return gen_vec(rng, ranked)
    e = rng.choice(cands)
    mates = [j for j in range(n) if j != e and ids[j] == ids[e] and ids[e] >= 0]
    nxt = [j for j in range(n) if ids[e] >= 0 and ids[j] == ids[e] + 1]
    return dict(ranking=ids, elem=e, n_=n, maxb=maxb, wit=wit + [0, 0, 0], mate=mates[0] if mates else 0,
                mate2=mates[1] if len(mates) > 1 else (mates[0] if mates else 0), nxt2=nxt[1] if len(nxt) > 1 else 0)


def register(reg):
    P = dict(ranking=Arr(Int), elem=Int)
    G = dict(n_=Int, maxb=Int, wit=Arr(Int), mate=Int)
    VC = [("cnt_eq", ["ranking", "ranking[elem]"])]
    # number of entries j < m with r[j] == b   (m last: the shape the count_nonzero / np.sum model expects)
    reg.spec("def cnt_eq(r, b, m):\n    return 0 if m <= 0 else cnt_eq(r, b, m - 1) + ite(r[m - 1] == b, 1, 0)",
             dict(r=Arr(Int), b=Int, m=Int), Int)
    L = ["C20"]
    reg.lemma("cq_nonneg", dict(r=Arr(Int), b=Int, m=Int), "cnt_eq(r, b, m) >= 0", props=L, induction="m", base="0")
    reg.lemma("cq_one", dict(r=Arr(Int), b=Int, m=Int, w=Int), "cnt_eq(r, b, m) >= 1", props=L, induction="m", base="w + 1",
              requires={"w": "0 <= w and r[w] == b"}, use_lemmas=["cq_nonneg"])
    reg.lemma("cq_two", dict(r=Arr(Int), b=Int, m=Int, w1=Int, w2=Int), "cnt_eq(r, b, m) >= 2", props=L, induction="m",
              base="w2 + 1", requires={"w": "0 <= w1 and w1 < w2 and r[w1] == b and r[w2] == b"}, use_lemmas=["cq_one"])
    # if no other element carries id b the count is at most 1 (used contrapositively: count > 1 => a mate exists)
    MATE = "choose(lambda j: j != elem and ranking[j] == ranking[elem], 0, n_)"

    # ---- add_left: elem leaves its (shared) bucket for a new singleton bucket immediately before it
    reg.spec("def wit_add_left(wit, mate, elem, B, moved, b):\n"
             "    return ite(b < B, wit[b], ite(b == B, elem, ite(b == B + 1, mate, wit[b - 1]))) if moved else wit[b]",
             dict(wit=Arr(Int), mate=Int, elem=Int, B=Int, moved=Int, b=Int), Int, opaque=True)
    reg.contract(
        F + "__add_left", props=["C20"], params=P, ghost=dict(G),
        requires=dict(DENSE, **RANKED, mate="implies(cnt_eq(ranking, ranking[elem], n_) > 1, "
                                           "0 <= mate < n_ and mate != elem and ranking[mate] == ranking[elem])"),
        modifies=["ranking"], vec_counts=VC,
        ensures=dict(dense_out("maxb + ite(cnt_eq(old(ranking), old(ranking)[elem], n_) > 1, 1, 0)",
                               "wit_add_left(wit, mate, elem, old(ranking)[elem], "
                               "ite(cnt_eq(old(ranking), old(ranking)[elem], n_) > 1, 1, 0), b)"),
                     same_ranked=SAME_RANKED, others=OTHERS),
        gen=lambda rng: gen_vec(rng, True),
    )

    reg.lemma("cq_pair", dict(r=Arr(Int), b=Int, m=Int, w1=Int, w2=Int), "cnt_eq(r, b, m) >= 2", props=L,
              requires={"w": "0 <= w1 and 0 <= w2 and w1 != w2 and w1 < m and w2 < m and r[w1] == b and r[w2] == b"},
              use_lemmas=["cq_two"])
    OLDB = "old(ranking)[elem]"
    SIZE = "cnt_eq(old(ranking), old(ranking)[elem], n_)"
    MATE_REQ = "implies(cnt_eq(ranking, ranking[elem], n_) > 1, 0 <= mate < n_ and mate != elem and ranking[mate] == ranking[elem])"

    # ---- add_right: elem (in a bucket of >= 3) gets a new singleton bucket immediately after it
    reg.spec("def wit_add_right(wit, mate, elem, B, moved, b):\n"
             "    return ite(b < B, wit[b], ite(b == B, mate, ite(b == B + 1, elem, wit[b - 1]))) if moved else wit[b]",
             dict(wit=Arr(Int), mate=Int, elem=Int, B=Int, moved=Int, b=Int), Int, opaque=True)
    reg.contract(
        F + "__add_right", props=["C20"], params=P, ghost=dict(G),
        requires=dict(DENSE, **RANKED, mate=MATE_REQ),
        modifies=["ranking"], vec_counts=VC,
        ensures=dict(dense_out("maxb + ite(%s > 2, 1, 0)" % SIZE,
                               "wit_add_right(wit, mate, elem, %s, ite(%s > 2, 1, 0), b)" % (OLDB, SIZE)),
                     same_ranked=SAME_RANKED, others=OTHERS),
        gen=lambda rng: gen_vec(rng, True),
    )

    # ---- shared witness shape of the three moves that may delete elem's old bucket
    reg.spec("def wit_leave(wit, mate, B, alone, b):\n"
             "    return ite(b < B, wit[b], wit[b + 1]) if alone else ite(b == B, mate, wit[b])",
             dict(wit=Arr(Int), mate=Int, B=Int, alone=Int, b=Int), Int, opaque=True)
    ALONE = "ite(%s == 1, 1, 0)" % SIZE

    reg.contract(
        F + "__change_left", props=["C20"], params=P, ghost=dict(G),
        requires=dict(DENSE, **RANKED, mate=MATE_REQ),
        entry_hints=["cq_one(ranking, ranking[elem], n_, elem)"],
        modifies=["ranking"], vec_counts=VC,
        ensures=dict(dense_out("maxb - ite(%s != 0 and %s == 1, 1, 0)" % (OLDB, SIZE),
                               "ite(%s != 0, wit_leave(wit, mate, %s, %s, b), wit[b])" % (OLDB, OLDB, ALONE)),
                     same_ranked=SAME_RANKED, others=OTHERS,
                     joined="implies(%s != 0, forall(lambda j: implies(j != elem and old(ranking)[j] >= 0, "
                            "(ranking[j] == ranking[elem]) == (old(ranking)[j] == %s - 1)), 0, n_))" % (OLDB, OLDB)),
        use_lemmas=["cq_pair"],
        gen=lambda rng: gen_vec(rng, True),
    )

    reg.contract(
        F + "__remove_element", props=["C20"], params=P, ghost=dict(G),
        requires=dict(DENSE, **RANKED, mate=MATE_REQ),
        entry_hints=["cq_one(ranking, ranking[elem], n_, elem)"],
        modifies=["ranking"], vec_counts=VC,
        ensures=dict(dense_out("maxb - %s" % ALONE, "wit_leave(wit, mate, %s, %s, b)" % (OLDB, ALONE)),
                     removed="ranking[elem] == -1",
                     others_ranked="forall(lambda j: implies(j != elem, (ranking[j] >= 0) == (old(ranking)[j] >= 0)), 0, n_)",
                     others=OTHERS),
        use_lemmas=["cq_pair"],
        gen=lambda rng: gen_vec(rng, True),
    )

    reg.spec("def wit_first(wit, elem, b):\n    return elem if b == 0 else wit[b - 1]",
             dict(wit=Arr(Int), elem=Int, b=Int), Int, opaque=True)
    reg.contract(
        F + "__put_element_first", props=["C20"], params=P, ghost=dict(n_=Int, maxb=Int, wit=Arr(Int)),
        requires=dict(DENSE, unranked="ranking[elem] == -1"),
        modifies=["ranking"],
        ensures=dict(dense_out("maxb + 1", "wit_first(wit, elem, b)"),
                     first="ranking[elem] == 0 and forall(lambda j: implies(j != elem, ranking[j] != 0), 0, n_)",
                     others_ranked="forall(lambda j: implies(j != elem, (ranking[j] >= 0) == (old(ranking)[j] >= 0)), 0, n_)",
                     others=OTHERS),
        gen=lambda rng: gen_vec(rng, False),
    )

    # ---- change_right: elem joins the following bucket (only if that does not merely swap two singletons)
    FOLLOW = "cnt_eq(old(ranking), old(ranking)[elem] + 1, n_)"
    MOVED = "(%s != maxb and (%s > 1 or %s > 1))" % (OLDB, SIZE, FOLLOW)
    reg.contract(
        F + "__change_right", props=["C20"], params=P, ghost=dict(G),
        requires=dict(DENSE, **RANKED, mate=MATE_REQ),
        entry_hints=["cq_one(ranking, ranking[elem], n_, elem)"],
        modifies=["ranking"],
        vec_counts=[("cnt_eq", ["ranking", "ranking[elem]"]), ("cnt_eq", ["ranking", "ranking[elem] + 1"])],
        ensures=dict(dense_out("maxb - ite(%s and %s == 1, 1, 0)" % (MOVED, SIZE),
                               "ite(%s, wit_leave(wit, mate, %s, %s, b), wit[b])" % (MOVED, OLDB, ALONE)),
                     same_ranked=SAME_RANKED, others=OTHERS,
                     joined="implies(%s, forall(lambda j: implies(j != elem and old(ranking)[j] >= 0, "
                            "(ranking[j] == ranking[elem]) == (old(ranking)[j] == %s + 1)), 0, n_))" % (MOVED, OLDB)),
        use_lemmas=["cq_pair"],
        gen=lambda rng: gen_vec(rng, True),
    )

#!/usr/bin/env python3-vt
"""Orchestrator:  python3-vt check.py <ID> [--tier quick|thorough] [--replay file]

Runs, for one property,
  T1  the deductive tier (pyvc: VCs generated from /repo's current source, discharged by z3 / cvc5), and
  T2  the bounded stand-in (run-time contracts on the real code, exhaustive small scopes) in a /venv/bin/python child,
writes /verif/evidence/<ID>.json, prints VIOLATION / KNOWN-FINDING lines, and exits
  0 held on everything explored | 1 violation | 2 undecided | 3 checker crash.
"""
import argparse
import json
import os
import subprocess
import sys
import tempfile

sys.path.insert(0, os.path.dirname(os.path.abspath(__file__)))
from vlib import common as C  # noqa: E402


def run_t2(prop, tier, seed, replay=None):
    modfile = os.path.join(C.VERIF, "bounded", prop + ".py")
    if not os.path.exists(modfile):
        return None
    os.makedirs(os.path.join(C.CACHE_DIR, "numba"), exist_ok=True)
    fd, outp = tempfile.mkstemp(prefix="t2-%s-" % prop, suffix=".json", dir=C.CACHE_DIR)
    os.close(fd)
    cmd = [C.VENV_PY, "-m", "vlib.t2run", prop, "--tier", tier, "--seed", str(seed), "--out", outp]
    if replay:
        cmd += ["--replay", replay]
    budget = 1500 if tier == "quick" else 4 * 3600
    try:
        p = subprocess.run(cmd, cwd=C.VERIF, env=C.child_env(), stdout=subprocess.PIPE, stderr=subprocess.STDOUT, text=True,
                           timeout=budget)
        note = "rc=%s: %s" % (p.returncode, p.stdout[-2000:])
    except subprocess.TimeoutExpired:
        subprocess.run(["pkill", "-f", "vlib.t2run %s " % prop])
        note = "the bounded tier did not finish within %d s (a hang inside compiled code cannot be interrupted)" % budget
    try:
        with open(outp) as f:
            res = json.load(f)
    except Exception:
        res = {"crashes": ["t2 child produced no result (%s)" % note],
               "fails": [], "evaluations": 0, "keys": 0, "samples": [], "cases": 0}
    finally:
        if os.path.exists(outp):
            os.unlink(outp)
    res["cmd"] = " ".join(cmd[:-2])
    return res


def run_rt(prop, tier, seed, replay=None):
    """run-time evaluation of the sidecar contracts around the real functions (bounded; the replay vehicle of T1)"""
    os.makedirs(os.path.join(C.CACHE_DIR, "numba"), exist_ok=True)
    fd, outp = tempfile.mkstemp(prefix="rt-%s-" % prop, suffix=".json", dir=C.CACHE_DIR)
    os.close(fd)
    cmd = [C.VENV_PY, "-m", "pyvc.rt", prop, "--seed", str(seed), "--count", "300" if tier == "quick" else "5000",
           "--out", outp]
    if replay:
        cmd += ["--replay", replay]
    p = subprocess.run(cmd, cwd=C.VERIF, env=C.child_env(), stdout=subprocess.PIPE, stderr=subprocess.STDOUT, text=True)
    try:
        with open(outp) as f:
            res = json.load(f)
    except Exception:
        res = {"crashes": ["rt child produced no result (rc=%s): %s" % (p.returncode, p.stdout[-2000:])], "fails": [],
               "evaluations": 0, "functions": {}}
    finally:
        if os.path.exists(outp):
            os.unlink(outp)
    return res


def model_to_args(model):
    def conv(v):
        if isinstance(v, list) and len(v) == 2 and all(isinstance(x, int) for x in v) and v[1] != 0 and False:
            return v[0] / v[1]
        return v

    def num(v):
        if isinstance(v, str):
            if v == "nan":
                return float("nan")
            if v.startswith("fin(") and v.endswith(")"):
                q = v[4:-1].replace(" ", "")
                neg = q.startswith("-")
                q = q.strip("-()")
                a, _, b = q.partition("/")
                x = float(a) / float(b) if b else float(a)
                return -x if neg else x
        if isinstance(v, list):
            return [num(x) for x in v]
        return v

    def arr(d):
        if isinstance(d, list) and d and isinstance(d[0], list) and not (len(d) == 2 and all(isinstance(x, int) for x in d)):
            return [arr(x) for x in d]
        if isinstance(d, list) and len(d) == 2 and all(isinstance(x, int) for x in d):
            return d        # ambiguous: a 2-element int array or a rational; decided by the caller's type conversion
        return d
    out = {}
    try:
        for k, v in model.items():
            if isinstance(v, dict):
                if v.get("data") is None:
                    return None
                out[k] = num(v["data"])
            elif v is None:
                return None
            else:
                out[k] = num(v)
    except Exception:
        return None
    return out


def run_t1(prop, tier, seed):
    try:
        from pyvc import driver
    except ImportError:
        return None
    return driver.run_property(prop, tier, seed)


def main():
    ap = argparse.ArgumentParser()
    ap.add_argument("prop")
    ap.add_argument("--tier", default=os.environ.get("VERIF_TIER", "quick"))
    ap.add_argument("--replay")
    ap.add_argument("--only", choices=["t1", "t2"], default=None)
    a = ap.parse_args()
    tier = a.tier if a.tier in ("quick", "thorough") else "quick"
    seed = int(os.environ.get("VERIF_SEED", "0") or 0)
    prop = a.prop
    T = C.Timer()
    known = C.load_known_findings()

    if a.replay:
        with open(a.replay) as f:
            rp = json.load(f)
        if rp.get("tier") == "T1":
            from pyvc import driver
            return driver.replay(prop, rp)
        if rp.get("tier") == "RT":
            rt = run_rt(prop, tier, seed, replay=a.replay)
            if rt.get("crashes"):
                print("replay crashed:", rt["crashes"])
                return C.EXIT_CRASH
            for fl in rt["fails"]:
                print("REPLAY-FAILS property=%s clause=%s site=%s" % (prop, fl.get("clause"), fl.get("site")))
            if not rt["fails"]:
                print("replay passes on the current tree")
            return C.EXIT_VIOLATION if rt["fails"] else C.EXIT_HELD
        t2 = run_t2(prop, tier, seed, replay=a.replay)
        if t2 is None or t2.get("crashes"):
            print("replay crashed:", (t2 or {}).get("crashes"))
            return C.EXIT_CRASH
        if t2["fails"]:
            for fl in t2["fails"]:
                print("REPLAY-FAILS property=%s clause=%s detail=%s" % (prop, fl.get("clause"), fl.get("detail")))
            return C.EXIT_VIOLATION
        print("replay passes on the current tree")
        return C.EXIT_HELD

    t1 = run_t1(prop, tier, seed) if a.only in (None, "t1") else None
    t2 = run_t2(prop, tier, seed) if a.only in (None, "t2") else None

    rt = run_rt(prop, tier, seed) if (t1 and a.only in (None, "t1")) else None
    crashes = []
    failures = []       # uniform: {clause, site, tier, detail, ...}
    if rt:
        crashes += rt.get("crashes", [])
        for fl in rt.get("fails", []):
            fl["tier"] = "RT"
            fl["has_input"] = True
            failures.append(fl)
    if t1:
        crashes += t1.get("crashes", [])
        for fl in t1.get("failures", []):
            # a refuted obligation whose function also fails its run-time contract on a concrete input: that input
            # is the replayable counterexample
            hit = [r for r in (rt or {}).get("fails", []) if r.get("site", "").split(" [")[0] == fl.get("site")]
            if hit:
                fl["has_input"] = True
                fl["failing_input"] = hit[0].get("detail")
            elif fl.get("model"):
                # replay the solver's counter-model against the real function through its run-time contract
                args = model_to_args(fl["model"])
                if args is not None:
                    fd, tmp = tempfile.mkstemp(prefix="model-", suffix=".json", dir=C.CACHE_DIR)
                    with os.fdopen(fd, "w") as f:
                        json.dump({"site": fl["site"], "detail": {"args": args}}, f)
                    rr = run_rt(prop, tier, seed, replay=tmp)
                    os.unlink(tmp)
                    if rr.get("fails"):
                        fl["has_input"] = True
                        fl["failing_input"] = rr["fails"][0].get("detail")
                        fl["replayed_model"] = "the solver's counter-model violates clause %s on the real function" % \
                            rr["fails"][0].get("clause")
                    else:
                        fl["replayed_model"] = "the solver's counter-model does not violate the contract when run on " \
                                               "the real function (e.g. a state unreachable from the loop entry)"
            failures.append(fl)
    if t2:
        crashes += t2.get("crashes", [])
        for fl in t2.get("fails", []):
            fl["tier"] = "T2"
            failures.append(fl)

    violations, known_hits = [], []
    for fl in failures:
        k = C.match_known(prop, fl, known)
        if k is not None:
            known_hits.append((k, fl))
        else:
            violations.append(fl)

    # ---- evidence -------------------------------------------------------------------------------------------------
    n_obl = t1["obligations"] if t1 else 0
    n_dis = t1["discharged"] if t1 else 0
    undecided = t1.get("undecided", []) if t1 else []
    try:
        from vlib import props
        level_claim = props.P[prop]["cat"]
    except Exception:
        level_claim = "exploration" if not t1 else "other"
    if level_claim == "proof":
        # a proof-level record needs every obligation of this run discharged; otherwise the run says so
        level = "proof" if (t1 and n_obl > 0 and n_dis == n_obl) else "other"
    elif level_claim == "exploration":
        level = "exploration" if (t2 and t2.get("evaluations", 0) > 0) else "other"
    else:
        level = level_claim
    cov = {}
    if t2:
        cov.update({
            "evaluations": int(t2.get("evaluations", 0)),
            "distinct_nontrivial": int(t2.get("keys", 0)),
            "rule": t2.get("rule", ""),
            "samples": t2.get("samples", [])[:3],
            "exhaustive": bool(t2.get("exhaustive", False)),
            "bounded_scope": t2.get("scope", ""),
            "bounded_cases": int(t2.get("cases", 0)),
            "bounded_cmd": t2.get("cmd", ""),
            "bounded_wall_s": t2.get("wall_s", 0),
            "bounded_fail_counts": t2.get("fail_counts", {}),
        })
    if t1:
        cov.update({
            "obligations": n_obl,
            "discharged": n_dis,
            "checker_cmd": "python3-vt /verif/check.py %s --tier %s  (pyvc: VCs from /repo source via ast, z3 %s, cvc5 on "
                           "z3's unknowns)" % (prop, tier, t1.get("z3_version", "")),
            "trusted_base": t1.get("trusted_base", []),
            "functions_under_contract": t1.get("functions", []),
            "obligation_results": t1.get("results", []),
            "undecided": undecided,
            "solver_time_s": t1.get("solver_time_s", {}),
            "lemmas": t1.get("lemmas", []),
            "vacuity_guards": t1.get("guards", {}),
        })
        if rt:
            cov["runtime_contract_checks"] = {"evaluations": rt.get("evaluations", 0), "functions": rt.get("functions", {}),
                                              "note": "same sidecar contracts evaluated around the real functions on "
                                                      "seeded random inputs (bounded, not counted as proved)"}
        if "samples" not in cov or not cov["samples"]:
            cov["samples"] = [r["name"] for r in t1.get("results", [])[:3]]
    if not cov.get("samples"):
        cov["samples"] = ["(no case could be sampled on this run)"]
    cov["explanation"] = (
        "T1 = deductive obligations generated from the current /repo source (proved for all inputs under the listed "
        "assumptions); T2 = bounded stand-in (run-time contracts + definitional oracle on the real code over the stated "
        "scope), never counted as proved. No property is claimed at level proof: each also rests on bounded parts; what is "
        "proved is counted per obligation (obligations / discharged); undischarged obligations are listed as undecided "
        "and the property then rests on T2 for those parts.")
    assumptions = list(C.ASSUME_COMMON)
    if t1:
        assumptions += t1.get("assumptions", [])
    if t2:
        assumptions += t2.get("assumptions", [])
    ev = {"property_id": prop, "tier": tier, "seed": seed, "level": level, "coverage": cov,
          "assumptions": assumptions, "wall_s": T.s(), "violations": len(violations),
          "known_findings_hit": [k["text"] for k, _ in known_hits],
          "crashes": crashes[:3]}
    C.write_evidence(prop, ev)

    # ---- verdict --------------------------------------------------------------------------------------------------
    seen_known = set()
    for k, fl in known_hits:
        if k["text"] not in seen_known:
            seen_known.add(k["text"])
            print("KNOWN-FINDING: property=%s %s" % (prop, k["text"]))
    if violations:
        shown = set()
        for fl in violations:
            sig = (fl.get("clause"), fl.get("site"))
            if sig in shown:
                continue
            shown.add(sig)
            fl["property"] = prop
            fl["how_to_rerun"] = "python3-vt /verif/check.py %s --replay <this file>" % prop
            path = C.write_replay(prop, fl)
            suffix = "" if fl.get("has_input", fl.get("tier") == "T2") else " no-failing-input-found"
            print("clause=%s site=%s detail=%s" % (fl.get("clause"), fl.get("site"), str(fl.get("detail"))[:300]))
            print("VIOLATION property=%s replay=%s%s" % (prop, path, suffix))
        return C.EXIT_VIOLATION
    if crashes:
        print("CHECKER-CRASH property=%s" % prop)
        for c in crashes[:3]:
            print(c)
        return C.EXIT_CRASH
    if (t1 is None or n_obl == 0) and (t2 is None or t2.get("evaluations", 0) == 0):
        print("UNDECIDED property=%s: nothing could be run" % prop)
        return C.EXIT_UNDECIDED
    print("HELD property=%s level=%s T1=%d/%d obligations%s T2=%s evaluations (%s distinct non-trivial) wall=%.1fs" % (
        prop, level, n_dis, n_obl, (" undecided=%d" % len(undecided)) if undecided else "",
        (t2 or {}).get("evaluations", 0), (t2 or {}).get("keys", 0), T.s()))
    return C.EXIT_HELD


if __name__ == "__main__":
    sys.exit(main())

"""Per-property claims used to generate MANIFEST.json and to label the evidence (`tools/gen_manifest.py`)."""

TECH_T2 = "bounded stand-in: run-time contracts + definitional oracle on the real code over exhaustively enumerated small scopes"
TECH_MIX = ("contract-based deductive verification: VCs generated from /repo's source (pyvc, ast -> z3/cvc5) for the "
            "functions under sidecar contract; same contracts evaluated at run time (replay vehicle); bounded stand-in "
            "(definitional oracle, exhaustive small scopes) for the parts no contract reaches")

NOTE_COMMON = ("Assumes A-int (mathematical integers), A-float (floats are reals in T1; dyadic inputs in T2), A-numba, "
               "A-set-order, A-alias, external contracts of numpy/stdlib calls listed in the evidence; z3/cvc5 answers; the "
               "pyvc VC generator. Bounded parts are labelled bounded and never counted as proved.")

P = {
    "C01": dict(cat="other", text=(
        "Proved for all sorted inputs: the counting merge __merge returns the sorted merge (same multiset) and adds to "
        "s_1[1] exactly the number of pairs left[i] > right[j] and to s_2[0] exactly the number of pairs left[i] == "
        "right[j], touching nothing else (5 loop invariants, 7 induction lemmas on counting specs); the run-length loop of "
        "__cost_by_ranking adds to s_1[2] exactly the number of strictly ordered pairs of a sorted bucket (fragment); its "
        "loop over the buckets of the candidate adds to s_1[5], s_2[3] and s_2[5] exactly the three missing-element pair "
        "counts (sums of products over the per-bucket numbers of missing elements; the float division by two stored in "
        "an integer array is proved exact through an integer witness and an evenness lemma) and touches no other counter "
        "(fragment); in get_kemeny_score the dict built from the candidate maps exactly the candidate's elements, each to "
        "the index of its bucket, and one iteration of the completeness check raises the dedicated exception exactly when "
        "the input ranking holds an element the dict lacks (fragments). "
        "Bounded: every (candidate, input ranking) pair over <= 4 elements (<= 5 thorough) checked against the pairwise "
        "definition through a scheme whose penalties are distinct powers of 64 (a linear functional with small integer "
        "coefficients is determined by its value), seeded multi-ranking datasets under 25 schemes, supersets, refusals, "
        "the lazy Consensus path, and one factory reused over sequences of calls; the recursion __mergesortlike, the "
        "vectors t_1 / t_2 / t_3 and the two counts read from them (s_1[3], s_1[4]), and the final dot products are "
        "bounded only."),
        tech=TECH_MIX),
    "C02": dict(cat="other", text=(
        "Proved for all inputs (any n, m, weights, any 2x6 scheme with symmetric T): every off-diagonal cell of the table "
        "built by the numba kernel equals the definitional sum over rankings, the diagonal is 0, inputs are unchanged, "
        "all subscripts are in range; mirror consistency follows from two induction lemmas; one iteration of "
        "Dataset.get_bucket_ids / get_positions writes exactly the bucket index / the position minus one of every "
        "element of the ranking into its column and nothing else (fragments, element ids an injective uninterpreted "
        "function). Bounded: the id mapping and the positions dict of the Ranking objects, default weights of the wrapper, and 'selected entries add up to the Kemeny score' "
        "(exhaustive candidates n <= 4)."), tech=TECH_MIX),
    "C03": dict(cat="other", text=(
        "Bounded: the well-formedness contract W on every algorithm configuration (19, cplex absent / stand-in) x dataset "
        "domain x name kinds x one/all, every KwikSort pivot sequence for n <= 3. Proved pieces: BioConsert's moves keep the "
        "bucket numbering dense (ghost witnesses, pigeonhole lemma), the sweep returns a dense vector, Ranking.__init__ "
        "refuses exactly overlapping buckets and sets positions/domain from the buckets."), tech=TECH_MIX),
    "C04": dict(cat="other", text=(
        "Proved for all inputs: BioConsert's local search returns exactly score(after) - score(before) (delta lemma and "
        "pair-sum lemma chains), the initial score loop computes the score of the departure vector, and the value stored "
        "for each departure equals the score of the vector written back; PickAPerm's reported score is the score its "
        "scorer gave to every returned ranking (scan fragment). Bounded: the selection / decoding glue, "
        "the PuLP objective, the lazy path, for every configuration and both flag values."),
        tech=TECH_MIX),
    "C05": dict(cat="exploration", text=(
        "Bounded: optimum value / set of optima against brute-force oracles (all rankings with ties n <= 5, subset DP "
        "n <= 9) for ExactAlgorithmPulp, the selector with cplex absent and with the cplex stand-in, the CPLEX model "
        "builders driven through the stand-in (row / sense alignment checked), scaled schemes, sparse datasets. Proved "
        "piece: can_be_all_tied. Optimality itself rests on third-party solvers: no contract can decide it."),
        tech=TECH_T2 + "; one function under deductive contract"),
    "C06": dict(cat="other", text=(
        "Proved (fragment: the initialisations + the component loop of ParCons.compute_consensus_rankings, sub-solvers and "
        "sets opaque, ghost counters on the calls): the mark is set exactly when the auxiliary algorithm was never called, "
        "one reported group per component; can_be_all_tied returns true exactly when tying is a cheapest placement for every "
        "pair. Bounded: partition of the universe, existence of an optimum respecting it (all optima n <= 5), consensus "
        "respects the partition and reports it, flag truthful for every algorithm; cplex absent / stand-in. The partition "
        "theorem is cited and validated against the oracle."),
        tech=TECH_MIX),
    "C07": dict(cat="other", text=(
        "Proved (fragment contract on the merge loop of parfront_partition, any list of sets, any arc set): on exit every "
        "two consecutive groups are linked by robust arcs only. Bounded: partition of the universe, merges consecutive "
        "ParCons groups in order, every optimum (full optimum set, n <= 5) respects it, consistent_with on all "
        "(partition, ranking) pairs over <= 4 elements, on a fresh partition object and on one object that answers all "
        "queries in turn and must keep its groups. Frame obligations (syntactic, may-alias): no method of "
        "OrderedPartition other than its constructor mutates the object. The robustness theorem is cited and validated "
        "against the oracle."),
        tech=TECH_MIX),
    "C08": dict(cat="other", text=(
        "Proved for all inputs (any n, any mirror-consistent cost table, any dense start): when BioConsert's local search "
        "_improve_one_ranking returns, for every element, joining any other existing bucket or standing alone in a new "
        "bucket at any position changes the sum of its pairwise costs by no less than -0.001 (searches with termination, "
        "difference arrays, moves, sweep; delta lemmas link the difference arrays to the cost changes). Bounded: the "
        "driver glue (departure rankings, decoding) and the end-to-end statement on every returned ranking with all "
        "single-element moves, 7 starter configurations."), tech=TECH_MIX),
    "C09": dict(cat="other", text=(
        "Proved: every accepted move has delta < -0.001, the local search returns a non-positive value equal to the score "
        "difference, hence each improved departure scores no more than its start. Bounded: which departures are used "
        "(ids of the input dataset), selection of the best, comparison with every completed input / the all-tied ranking "
        "/ each starter's own consensus under oracle scores."), tech=TECH_MIX),
    "C10": dict(cat="other", text=(
        "Proved for all lists of input rankings (fragment: the four initialisations + the scan loop of "
        "compute_consensus_rankings, get_kemeny_score an uninterpreted finite-valued function of the ranking): the "
        "reported score is a lower bound of every scanned score, every returned ranking is a scanned ranking with exactly "
        "that score, at most one is returned when asked, every minimal one when all are asked. Bounded: unification, "
        "refusal exactly for schemes not proportional to the unifying scheme, end-to-end membership / minimality / "
        "completeness with the real scorer; exhaustive datasets n <= 3 m <= 2 + samples, 14-27 schemes."),
        tech=TECH_MIX),
    "C11": dict(cat="other", text=(
        "Proved for all position vectors and schemes: _where_should_it_be returns the cheapest placement with ties "
        "preferred, then before (the five vectorised counts are tied pointwise to counting specs; six induction lemmas give "
        "the status counts); the partition step of the recursion files each element under that decision (fragment). "
        "Bounded: every pivot sequence for n <= 4 (<= 5 thorough): coherent preferences give exactly the "
        "induced ranking, per-step placement, identical-rankings corollary."), tech=TECH_MIX),
    "C12": dict(cat="other", text=(
        "Proved (fragment: one iteration of the loop over the rankings, any ranking with disjoint buckets, any state of the "
        "accumulator): every element of the ranking gains exactly (number of elements strictly before its bucket — or its "
        "bucket index in the bucket-id variant —, 1) and no other entry changes; the predicate answers with exactly the four "
        "documented families; the guard refuses exactly on (incomplete, predicate false). Bounded: means, ordering and "
        "grouping by equal mean against an exact Fraction oracle for both variants, accepted scheme families and multiples, "
        "unified vs raw rankings, refusal otherwise, invariance under permutation of rankings and renaming."),
        tech=TECH_MIX),
    "C13": dict(cat="other", text=(
        "Proved for all mirror-consistent tables: per-element scores and victory / equality / defeat counts equal the "
        "definitional sums, counts add up to n-1, scores add up to n(n-1)/2. Bounded: ordering by decreasing score with "
        "exact ties, feature dictionaries keyed by the right elements."), tech=TECH_MIX),
    "C14": dict(cat="other", text=(
        "Proved (schemes and sub-algorithms opaque, equivalence an uninterpreted predicate): the guards of Borda and PickAPerm "
        "raise their documented exception exactly when the dataset is incomplete and the very answer of their predicate is "
        "False; BioConsert's predicate is the conjunction of its starters' answers. Bounded: the predicate answers a bool "
        "for every configuration (nested ones included) and scheme; true => well-formed consensus on incomplete data; "
        "complete data never refused; refusal <=> declared not relevant, end to end."),
        tech=TECH_MIX),
    "C15": dict(cat="other", text=(
        "Deductive part: syntactic frame obligations over all 170 functions with dataset / scheme / ranking inputs or "
        "with an algorithm / partition / consensus object as `self`: no statement mutates an input-reachable object, and "
        "no method of an algorithm class other than its constructor writes to the object, so that no state is carried "
        "from one call to the next (may-alias taint analysis; a finding is 'undecided', never a violation). Bounded: deep "
        "snapshots before / after every algorithm, score, description, partition, derived dataset; all operation "
        "sequences of length <= 2 (<= 3) on shared vs fresh objects; twice-same; an algorithm object used before on "
        "related inputs vs a fresh one."), tech=TECH_MIX),
    "C16": dict(cat="other", text=(
        "Proved: Ranking.__init__ gives positions[x] = 1 + size of earlier buckets, domain = union of buckets, refuses "
        "overlapping buckets; in Dataset._analyse_rankings (run by the constructor and by every mutator) one iteration "
        "of the counting loop counts every element of the ranking exactly once more and keeps `without_ties` exactly "
        "when no bucket holds two elements, and the loop over the counted elements gives every one of them an id in "
        "0..k-1, makes the two id maps inverse of each other with no other key, and keeps `complete` exactly when every "
        "element was counted once per ranking (fragments). Bounded: the name normalisation, how callers store the "
        "returned flags, and the full view-consistency predicate after constructors, parsing, generators, "
        "unification, projection, consensus rankings, and all mutator sequences of length <= 2 (<= 3)."), tech=TECH_MIX),
    "C17": dict(cat="exploration", text=(
        "Bounded: all ordered pairs of datasets over hash-colliding names with buckets built in every insertion order "
        "(5.4M pairs quick); equality <=> multiset equality of tuples of frozensets; reflexive, symmetric, consistent with "
        "Ranking equality. Depends on hash-table iteration order: outside any contract (A-set-order)."), tech=TECH_T2),
    "C18": dict(cat="exploration", text=(
        "Bounded: round trip of every ranking over <= 3 names in 14 textual variants, file round trip (empty rankings "
        "included), every string of length <= 5 (<= 7) over the format alphabet parsed or refused with ValueError within a "
        "CPU budget."), tech=TECH_T2),
    "C19": dict(cat="other", text=(
        "Proved (NaN modelled): the constructor accepts exactly the valid schemes and raises the specific exception "
        "otherwise (typed lists of 6 floats); is_equivalent_to / ..._on_complete_rankings_only answer true exactly when "
        "one scheme is a positive multiple of the other on both vectors (entries 0..stop-1, any 2 <= stop <= 6). Bounded: "
        "malformed shapes / types, scaling, score homogeneity, nicknames; all 4^12 grid tuples in thorough."),
        tech=TECH_MIX),
    "C20": dict(cat="other", text=(
        "Proved for all vectors: each of the six Markov moves preserves the dense-bucket-numbering invariant (ghost "
        "witnesses, counting lemmas), keeps rankedness as documented. Bounded: the walk driver, conversion to rankings, "
        "dataset wrappers, uniform permutations, every step of 30k seeded walks monitored."), tech=TECH_MIX),
}

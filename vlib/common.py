"""Shared plumbing for the checks: paths, evidence, known findings, replay files, exit codes."""
import hashlib
import json
import os
import time

VERIF = os.path.dirname(os.path.dirname(os.path.abspath(__file__)))
REPO = os.environ.get("CORANKCO_REPO", "/repo")
VENV_PY = "/venv/bin/python"
EVIDENCE_DIR = os.path.join(VERIF, "evidence")
REPLAY_DIR = os.path.join(VERIF, "replays")
CACHE_DIR = os.path.join(VERIF, ".cache")
KNOWN_FINDINGS = os.path.join(VERIF, "known_findings.json")

EXIT_HELD, EXIT_VIOLATION, EXIT_UNDECIDED, EXIT_CRASH = 0, 1, 2, 3

ASSUME_COMMON = [
    "A-int: Python int and numpy/numba int32/int64 are mathematical integers (no overflow obligations; "
    "relevant only from 3*n*n >= 2**31, n >= 26755 elements)",
    "A-float: float/float64 are real numbers in T1 (no rounding, no inf); thresholds 0.001/1e-6 are exact constants; "
    "T2 uses dyadic penalties so float arithmetic is exact there",
    "A-numba: numba machine code computes what CPython computes on the kernel source for in-range indices "
    "(T2 runs the compiled kernels)",
    "A-set-order: set/dict iteration order is an arbitrary enumeration",
    "A-alias: distinct parameters do not alias unless the contract says so",
]


def child_env():
    env = dict(os.environ)
    env["NUMBA_CACHE_DIR"] = os.path.join(CACHE_DIR, "numba")
    env["PYTHONDONTWRITEBYTECODE"] = "1"
    env["PYTHONPATH"] = VERIF + os.pathsep + REPO
    env["PYTHONHASHSEED"] = "0"
    env.setdefault("OMP_NUM_THREADS", "1")
    env.setdefault("NUMBA_NUM_THREADS", "1")
    return env


def load_known_findings():
    if not os.path.exists(KNOWN_FINDINGS):
        return {"known": [], "fixed": []}
    with open(KNOWN_FINDINGS) as f:
        return json.load(f)


def match_known(prop, failure, known):
    """A known entry suppresses a failure only if property, clause and site all match."""
    for k in known.get("known", []):
        if k.get("property") != prop:
            continue
        m = k.get("match", {})
        if all(str(failure.get(key)) == str(val) for key, val in m.items()):
            return k
    return None


def write_replay(prop, failure):
    os.makedirs(REPLAY_DIR, exist_ok=True)
    blob = json.dumps(failure, sort_keys=True, default=str)
    h = hashlib.sha256(blob.encode()).hexdigest()[:10]
    import re
    clause = re.sub(r"[^A-Za-z0-9_.#-]+", "_", str(failure.get("clause", "x")))[:80]
    path = os.path.join(REPLAY_DIR, f"{prop}-{clause}-{h}.json")
    with open(path, "w") as f:
        json.dump(failure, f, indent=1, sort_keys=True, default=str)
    return path


def write_evidence(prop, ev):
    # evidence/<id>.json describes runs against /repo itself; a run against a scratch copy (CORANKCO_REPO: seeded or
    # behaviour-preserving patches on a worktree) writes its record next to the caches instead
    target = EVIDENCE_DIR if os.path.realpath(REPO) == "/repo" else os.path.join(CACHE_DIR, "scratch_evidence")
    os.makedirs(target, exist_ok=True)
    ev["repo_under_check"] = REPO
    path = os.path.join(target, f"{prop}.json")
    with open(path, "w") as f:
        json.dump(ev, f, indent=1, default=str)
    return path


class Timer:
    def __init__(self):
        self.t0 = time.time()

    def s(self):
        return round(time.time() - self.t0, 3)

"""Bounded-tier runner.  Runs under /venv/bin/python (the repository's interpreter).

  python -m vlib.t2run <ID> --tier quick|thorough --seed N --out result.json [--replay file]

A bounded module `bounded/<ID>.py` provides
  gen_cases(tier, seed)  -> iterable of JSON-able case dicts (deterministic)
  check_case(case)       -> {"fails": [ {clause, site, detail...} ], "key": str|None, "evals": int}
                            key: identifies the case class for the distinct-non-trivial count (None = trivial)
  RULE (str), optional setup() run once per worker, optional TIMEOUT (s per case), optional EXHAUSTIVE {tier: bool}
Harness exceptions are reported as crashes (never as violations).
"""
import argparse
import importlib
import json
import multiprocessing as mp
import os
import signal
import sys
import time
import traceback

_MOD = None


class CaseTimeout(Exception):
    pass


def _alarm(_sig, _frm):
    raise CaseTimeout()


def _init(mod_name):
    global _MOD
    _MOD = importlib.import_module(mod_name)
    if hasattr(_MOD, "setup"):
        _MOD.setup()
    signal.signal(signal.SIGALRM, _alarm)


def _run(case):
    timeout = getattr(_MOD, "TIMEOUT", 120)
    try:
        signal.alarm(timeout)
        try:
            if isinstance(case, dict) and case.get("warm"):
                # same case, every algorithm object used before on related inputs (bounded/algs.py: warm)
                from bounded import algs
                with algs.warm():
                    res = _MOD.check_case(case)
                for f in res.get("fails", []):
                    f["site"] = "%s [algorithm object used before: warm-up calls of bounded/algs.py]" % f.get("site")
                if res.get("key") is not None:
                    res["key"] = "%s|warm" % res["key"]
                res["nkeys"] = 0
            elif isinstance(case, dict) and case.get("via"):
                # same case, every dataset reached through a history (built larger, then cut down by a public mutator)
                from bounded import adapt as A
                with A.via(case["via"]):
                    res = _MOD.check_case(case)
                for f in res.get("fails", []):
                    f["site"] = "%s [dataset reached via %s]" % (f.get("site"), case["via"])
                if res.get("key") is not None:
                    res["key"] = "%s|via=%s" % (res["key"], case["via"])
                res["nkeys"] = 0        # the same (dataset, scheme) pairs as the direct case: not counted as distinct
            else:
                res = _MOD.check_case(case)
        finally:
            signal.alarm(0)
        res.setdefault("fails", [])
        res.setdefault("key", None)
        res.setdefault("evals", 1)
        for f in res["fails"]:
            f.setdefault("case", case)
        return res
    except CaseTimeout:
        if getattr(_MOD, "TIMEOUT_IS_VIOLATION", False):
            return {"fails": [{"clause": _MOD.ID + ".terminates", "site": "timeout", "case": case,
                               "detail": "no answer within %ds" % timeout}], "key": None, "evals": 1}
        return {"crash": "timeout after %ds on case %s" % (timeout, json.dumps(case, default=str)[:400])}
    except Exception:
        return {"crash": traceback.format_exc()[-3000:] + "\ncase=" + json.dumps(case, default=str)[:600]}


def _with_histories(cases, every):
    """after every `every`-th case, the same case again with its datasets reached through a history (bounded/adapt.py:
    one extra element or empty ranking, removed by a public in-place mutator), the six histories in rotation"""
    kinds = ["rm_last", "rm_first0", "rm_tied", "rm_alpha", "rm_empty", "rm_rate"]
    k = 0
    for i, c in enumerate(cases):
        yield c
        if i % every == 0 and isinstance(c, dict) and "via" not in c:
            c2 = dict(c)
            c2["via"] = kinds[k % len(kinds)]
            k += 1
            yield c2


def _with_warm(cases, every):
    """after every `every`-th plain case, the same case again with every algorithm object used before (algs.warm)"""
    i = 0
    for c in cases:
        yield c
        if isinstance(c, dict) and "via" not in c and "warm" not in c:
            if i % every == 1 % every:
                c2 = dict(c)
                c2["warm"] = True
                yield c2
            i += 1


def main():
    ap = argparse.ArgumentParser()
    ap.add_argument("prop")
    ap.add_argument("--tier", default="quick")
    ap.add_argument("--seed", type=int, default=0)
    ap.add_argument("--out", required=True)
    ap.add_argument("--replay")
    ap.add_argument("--procs", type=int, default=int(os.environ.get("VERIF_PROCS", "16")))
    a = ap.parse_args()
    mod_name = "bounded." + a.prop
    t0 = time.time()
    out = {"prop": a.prop, "tier": a.tier, "seed": a.seed, "evaluations": 0, "cases": 0, "keys": 0, "fails": [],
           "crashes": [], "samples": []}
    try:
        mod = importlib.import_module(mod_name)
        if a.replay:
            with open(a.replay) as f:
                rp = json.load(f)
            cases = [rp["case"]]
        else:
            cases = mod.gen_cases(a.tier, a.seed)
            every = getattr(mod, "VIA_EVERY", {}).get(a.tier)
            if every:
                cases = _with_histories(cases, every)
            wevery = getattr(mod, "WARM_EVERY", {}).get(a.tier)
            if wevery:
                cases = _with_warm(cases, wevery)
        keys = set()
        extra_keys = 0
        any_samples = []
        nfail_by_sig = {}
        if a.replay:
            _init(mod_name)
            results = map(_run, cases)
            pool = None
        else:
            pool = mp.Pool(a.procs, initializer=_init, initargs=(mod_name,))
            results = pool.imap_unordered(_run, cases, chunksize=getattr(mod, "CHUNK", 8))
        for res in results:
            out["cases"] += 1
            if "crash" in res:
                if len(out["crashes"]) < 5:
                    out["crashes"].append(res["crash"])
                continue
            out["evaluations"] += res["evals"]
            if res["key"] is not None:
                keys.add(res["key"])
            extra_keys += int(res.get("nkeys", 0))      # module guarantees these are disjoint across cases
            for f in res["fails"]:
                sig = (f.get("clause"), f.get("site"))
                nfail_by_sig[sig] = nfail_by_sig.get(sig, 0) + 1
                if nfail_by_sig[sig] <= 3:
                    out["fails"].append(f)
            if len(any_samples) < 3:
                any_samples.append(res.get("sample", res.get("key")) or {"case": "(trivial case)"})
            if len(out["samples"]) < 3 and (res["key"] is not None or res.get("nkeys")) and not res["fails"]:
                out["samples"].append(res.get("sample", res["key"]))
        if pool is not None:
            pool.close()
            pool.join()
        if not out["samples"]:
            out["samples"] = any_samples
        out["keys"] = len(keys) + extra_keys
        out["fail_counts"] = {"%s @ %s" % k: v for k, v in nfail_by_sig.items()}
        out["rule"] = getattr(mod, "RULE", "")
        out["exhaustive"] = bool(getattr(mod, "EXHAUSTIVE", {}).get(a.tier, False))
        out["scope"] = getattr(mod, "SCOPE", {}).get(a.tier, "")
        out["assumptions"] = getattr(mod, "ASSUMPTIONS", [])
    except Exception:
        out["crashes"].append(traceback.format_exc()[-3000:])
    out["wall_s"] = round(time.time() - t0, 2)
    with open(a.out, "w") as f:
        json.dump(out, f, default=str)
    return 0


if __name__ == "__main__":
    sys.exit(main())

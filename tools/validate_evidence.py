#!/usr/bin/env python3
import glob, json, sys
import jsonschema
sch = json.load(open("/root/.vp/EVIDENCE.schema.json"))
bad = 0
for f in sorted(glob.glob("/verif/evidence/*.json")):
    try:
        ev = json.load(open(f))
        jsonschema.validate(ev, sch)
        print("ok  ", f.split("/")[-1], ev["level"], ev["coverage"].get("obligations"), ev["coverage"].get("discharged"),
              ev["coverage"].get("evaluations"), ev["coverage"].get("distinct_nontrivial"), ev.get("violations"), "%.0fs" % ev["wall_s"])
    except Exception as e:
        bad += 1
        print("BAD ", f, str(e)[:300])
sys.exit(1 if bad else 0)

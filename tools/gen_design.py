#!/usr/bin/env python3
"""Fill the generated tables of DESIGN.md from tools/DESIGN.tmpl.md, evidence/*.json, seeded/*.log, tools/*.md fragments."""
import glob, json, os, re, sys
sys.path.insert(0, os.path.dirname(os.path.dirname(os.path.abspath(__file__))))
from vlib import props
V = "/verif"
tmpl = open(os.path.join(V, "tools/DESIGN.tmpl.md")).read()


def frag(name):
    p = os.path.join(V, "tools", name)
    return open(p).read() if os.path.exists(p) else "(to be written)"


# ---- property table ------------------------------------------------------------------------------------------------
rows = []
for pid in sorted(props.P):
    evp = os.path.join(V, "evidence", pid + ".json")
    d = props.P[pid]
    if os.path.exists(evp):
        ev = json.load(open(evp))
        cov = ev["coverage"]
        fns = [f.get("function", "").split("::")[-1] for f in cov.get("functions_under_contract", []) if "frame(" not in f.get("function", "")]
        t1 = "%s/%s obligations" % (cov.get("discharged", 0), cov.get("obligations", 0)) if cov.get("obligations") else "—"
        rt = cov.get("runtime_contract_checks", {}).get("evaluations", 0)
        t2 = "%s evaluations, %s distinct non-trivial" % (cov.get("evaluations", 0), cov.get("distinct_nontrivial", 0))
        lem = ", ".join(cov.get("lemmas", [])[:60])
        und = "; ".join(u["name"] for u in cov.get("undecided", [])[:5])
        rows.append("### %s — %s\n\n* claim: **%s**. %s\n* functions under contract: %s\n* T1: %s%s; RT: %s contract evaluations; "
                    "T2: %s (%s, %.0f s wall, tier %s)\n%s" % (
                        pid, TITLES.get(pid, "") if False else "", d["cat"], d["text"], ", ".join("`%s`" % f for f in fns) or "none",
                        t1, (" (undecided this run: %s)" % und) if und else "", rt, t2, cov.get("bounded_scope", "")[:300],
                        ev.get("wall_s", 0), ev.get("tier"), ("* lemmas: %s\n" % lem) if lem else ""))
    else:
        rows.append("### %s\n\n* claim: **%s**. %s\n* (no evidence file yet)\n" % (pid, d["cat"], d["text"]))
titles = {}
for l in open(os.path.join(V, "properties.jsonl")):
    p = json.loads(l)
    titles[p["id"]] = p["title"]
rows = [re.sub(r"^### (C\d+) — ", lambda m: "### %s — %s" % (m.group(1), titles[m.group(1)]), r) for r in rows]
rows = [re.sub(r"^### (C\d+)\n", lambda m: "### %s — %s\n" % (m.group(1), titles[m.group(1)]), r) for r in rows]
out = tmpl.replace("<<PROPERTY_TABLE>>", "\n".join(rows))

# ---- seeds ---------------------------------------------------------------------------------------------------------
det, first = {}, {}
p = os.path.join(V, "seeded/detect.log")
if os.path.exists(p):
    for l in open(p):
        m = re.match(r"(C\d+_(?:r[234567]_)?\d+) tier=(\w+) rc=(\d+) violations=(\d+) ::\s?(.*)", l.strip())
        if m:
            det[m.group(1)] = m.groups()      # last run wins
            first.setdefault(m.group(1), m.groups())
lines = ["| seed | what it needs to manifest | caught by (quick tier) |", "|---|---|---|"]
for d_ in sorted(glob.glob(os.path.join(V, "seeded/C*_*"))):
    sid = os.path.basename(d_)
    try:
        meta = json.load(open(os.path.join(d_, "meta.json")))
    except Exception:
        meta = {}
    needs = str(meta.get("needs", meta.get("summary", "")))[:230].replace("\n", " ").replace("|", "/")
    g = det.get(sid)
    if g is None:
        caught = "(not run)"
    elif g[2] == "1":
        clauses = sorted(set(re.findall(r"clause=([^ ]+)", g[4])))[:4]
        caught = "yes: " + ", ".join("`%s`" % c for c in clauses)
        if first.get(sid, g)[2] != "1":
            caught += " — *missed (exit %s) before the check was strengthened*" % first[sid][2]
    else:
        caught = "**no** (exit %s)" % g[2]
    lines.append("| %s | %s | %s |" % (sid, needs, caught))
out = out.replace("<<SEED_TABLE>>", "\n".join(lines) + "\n\n" + frag("seed_notes.md"))
out = out.replace("<<DEFECT_TABLE>>", frag("defects.md"))
out = out.replace("<<FALSE_ALARMS>>", frag("false_alarms.md"))
open(os.path.join(V, "DESIGN.md"), "w").write(out)
print("DESIGN.md generated")

#!/usr/bin/env python3
"""Generate /verif/MANIFEST.json from vlib/props.py (run with python3-vt)."""
import json
import os
import sys
sys.path.insert(0, os.path.dirname(os.path.dirname(os.path.abspath(__file__))))
from vlib import props  # noqa: E402

V = "/verif"
claimed = sys.argv[1:] or sorted(props.P)
m = {
    "version": 1,
    "setup_cmd": "mkdir -p /verif/.cache/numba /verif/evidence /verif/replays && python3-vt -c 'import z3' && "
                 "/venv/bin/python -c 'import corankco, numba, pulp, igraph'",
    "hooks": {"guard": "CORANKCO_VERIF",
              "enable": "no hook commits exist: contracts live in /verif/contracts sidecars and read /repo's source; the "
                        "guard name is reserved and unused",
              "baseline_off_cmd": "cd /repo && /venv/bin/python -m pytest -ra -q -p no:cacheprovider --timeout=900 "
                                  "--continue-on-collection-errors",
              "source_commits": [], "add_only": True},
    "engines": [
        {"name": "pyvc", "path": "/verif/pyvc", "serves_properties": sorted(p for p in claimed if props.P[p]["cat"] != "exploration" or p in ("C01", "C05", "C06")),
         "kind_free_text": "own VC generator over the real source (ast -> z3 / cvc5), sidecar contracts, induction lemmas, "
                           "run-time contract evaluation"},
        {"name": "bounded", "path": "/verif/bounded", "serves_properties": sorted(claimed),
         "kind_free_text": "bounded stand-in: property-level run-time contracts with definitional oracles over exhaustive "
                           "small scopes (never counted as proved)"}],
    "checks": [],
    "not_applicable": [],
    "notes": "check.py exits 0 held / 1 violation (+ VIOLATION line) / 2 undecided / 3 checker crash. See DESIGN.md.",
}
for p in sorted(claimed):
    d = props.P[p]
    m["checks"].append({
        "property_id": p,
        "quick_cmd": "python3-vt /verif/check.py %s --tier quick" % p,
        "thorough_cmd": "python3-vt /verif/check.py %s --tier thorough" % p,
        "evidence_file": "/verif/evidence/%s.json" % p,
        "replay_cmd_template": "python3-vt /verif/check.py %s --replay {path}" % p,
        "engine": "pyvc+bounded" if d["tech"] is props.TECH_MIX else "bounded",
        "level_claimed": {"category": d["cat"], "text": d["text"], "design_ref": "DESIGN.md section 3, " + p},
        "level_note": props.NOTE_COMMON,
        "technique": d["tech"],
    })
for p in sorted(props.P):
    if p not in claimed:
        m["not_applicable"].append({"property_id": p, "reason": "check not yet registered in this commit"})
json.dump(m, open(os.path.join(V, "MANIFEST.json"), "w"), indent=1)
import jsonschema  # noqa: E402
jsonschema.validate(m, json.load(open("/root/.vp/MANIFEST.schema.json")))
print("MANIFEST.json written:", len(m["checks"]), "checks,", len(m["not_applicable"]), "not applicable")

#!/bin/bash
# run every registered check at one tier, one after the other; one summary line per check
# usage: tools/run_tier.sh <quick|thorough> <logfile> [ids...]
tier=${1:-quick}; log=${2:-run_tier.log}; shift 2
ids=${@:-C01 C02 C03 C04 C05 C06 C07 C08 C09 C10 C11 C12 C13 C14 C15 C16 C17 C18 C19 C20}
here=$(cd "$(dirname "$0")/.." && pwd)
cd "$here"
: > "$log"
for p in $ids; do
  s=$(date +%s)
  out=$(python3-vt check.py $p --tier $tier 2>&1); rc=$?
  e=$(date +%s)
  echo "$p rc=$rc $((e-s))s :: $(echo "$out" | grep -E '^(HELD|VIOLATION|KNOWN-FINDING|CHECKER-CRASH|UNDECIDED)' | tr '\n' '|' | cut -c1-400)" >> "$log"
done
echo DONE >> "$log"

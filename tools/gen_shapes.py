#!/usr/bin/env python3
"""Record, for every function under contract, the loop structure its sidecar contract was written against
(contracts/shapes.json).  Invariants are keyed by loop ordinal; if the loops of a function are later merged, split, nested
differently or moved into a helper, the invariants no longer talk about the same loops, and a refuted obligation would say
nothing about the property: the function is then reported undecided (structure changed), never as a violation.
Run after writing / changing a contract:  python3-vt tools/gen_shapes.py"""
import json
import os
import sys

V = os.path.dirname(os.path.dirname(os.path.abspath(__file__)))
sys.path.insert(0, V)
from pyvc import driver, extract  # noqa: E402

reg = driver.load_registry()
out = {}
for key, c in sorted(reg.by_key.items()):
    try:
        fndef, _imp, _sha, _line = extract.load(driver.REPO, c.path, c.qualname)
    except Exception as e:
        print("skip", key, e)
        continue
    out[key] = extract.loop_shape(fndef)
with open(os.path.join(V, "contracts", "shapes.json"), "w") as f:
    json.dump(out, f, indent=1, sort_keys=True)
print("shapes of %d functions written" % len(out))
